"""C12 - failures surface as EvaluationError with source and cause; a failed evaluation stores nothing.

Three parts (BUILDER_GUIDE):
 1. correspondence of Model/Eval.v with labrea on histories mixing failing and succeeding
    evaluations (user callables raising several exception types on chosen inputs: bodies, pipeline
    steps, callbacks, effects, case predicates, domain predicates), incl. the directed streams
    "raising predicates" (option domains / case-when predicates raising each exception class on a
    chosen value or always, at the root and nested) and "failing callbacks / effects on cached
    datasets" (the same dictionary evaluated again after the failure, with and without
    LABREA.EFFECTS.DISABLED / LABREA.CACHE.DISABLED);
 2. the property's own oracle on the implementation, independent of the model (exception type,
    `.source` identity, the `__cause__` chain down to the very exception OBJECT that user code
    raised, `.key` of missing options, what a failing evaluation stores, later outcomes with the
    failed evaluation deleted, supplying the missing option afterwards; independent recomputation of
    root options (lookup / default / domain test), root case-when, root switch, root coalesce; the first
    exception raised by user code is the end of the chain in graphs without handlers; a failing root
    evaluation of a dataset / cached node adds nothing to that object's own cache; values computed by a
    failed evaluation never come back), also on an ORACLE-ONLY stream the model cannot express: container
    domains (set / frozenset / dict / user container classes whose membership test raises, unhashable
    values), predicates written in plain Python raising genuine exceptions, impure (call-counting) bodies
    with flaky effects, disable_effects() / enable_effects() between evaluations; every history of every
    stream (plus the directed 'fix the dictionary and try again' stream gen_repair) also on ONE options
    dictionary object edited in place between the operations (scn['inplace']): object identity is outside the
    model, the outcomes must be those of the fresh-dictionary run and all clauses must hold again;
 3. witness replay of the known finding D20.
 4. exception classes from the whole hierarchy (ZOO: builtin classes themselves -- RecursionError, MemoryError, KeyError,
    StopIteration, AssertionError, OSError subclasses, ... -- and user classes with two bases, custom __init__ signatures,
    a raising __str__, falsy ones): every model-expressible stream once more with them (gen_zoo; the model sees class
    numbers), and objects of user-defined Evaluatable classes (subclasses of Option / of the user's own base class, depth 1
    and 2, a mixin, each overriding evaluate) under the whole oracle and against the model on what they compute.
"""
import contextlib
import copy
import functools
import random
import time
import types
from collections.abc import Container as _Container

import core
import coreprop as cp
import gen
import lib
from core import lit
from gen import K
from witnesses import corpus_for

PID = "C12"
COQ_TARGETS = cp.COQ_TARGETS
KNOWN = ["D20"]

# ----------------------------------------------------------------------------- witnesses / fixed family


def opt(k, d=None, dom=None):
    return ("option", k, d, dom)


def val(j):
    return ("value", ("j", j))


A, B, C, Q, P = 10, 11, 12, 17, 13


def ev(i, o, cc=False):
    return ("evaluate", i, cc, False, o)


D20_WITNESS = dict(
    what="Coalesce(body(a=Option('K10')), Option('K17')) on {'K10': 5}, the body raising on 5: validate passes, the body raises, "
         "the error that surfaces is KeyNotFoundError('K17') and the body's exception is not in its cause chain",
    scn=dict(ftable={100: ("tag_raise_on", ("j", 5), 3)}, env={},
             exprs=[("coalesce", [("call", 100, [opt(K(A))]), opt(K(Q))])],
             ops=[ev(0, {A: 5})]),
    fails_at=0)

# hand-written histories, one per clause of the anchored code (they run on both sides and through the oracle)
FAMILY = [
    # Cached.evaluate: fail (missing), fail (body raises), succeed (stored), fail again, hit
    dict(ftable={100: ("tag_raise_on", ("j", 5), 3)}, env={},
         exprs=[("cached", 50, ("call", 100, [opt(K(A))]))],
         ops=[ev(0, {}), ev(0, {A: 5}), ev(0, {A: 1}), ev(0, {A: 5}), ev(0, {A: 1}), ev(0, {})]),
    # an inner cached success inside a failing outer cached evaluation; supplying a good option afterwards
    dict(ftable={100: ("tag_raise_on", ("j", 5), 3)}, env={},
         exprs=[("cached", 51, ("apply", ("cached", 52, opt(K(B))), ("pstep", 100, [opt(K(A))])))],
         ops=[ev(0, {B: 7}), ev(0, {B: 5, A: 0}), ev(0, {B: 7, A: 0}), ev(0, {B: 5, A: 0}), ev(0, {B: 7, A: 0})]),
    # dataset: body, callback and effect raising; nothing of a failed evaluation may be stored
    dict(ftable={100: ("tag_raise_on", ("j", 5), 1), 101: ("tag_raise_on", ("t", 100, [("j", 1)]), 2),
                 102: ("tag_raise_on", ("t", 101, [("t", 100, [("j", 2)])]), 6)},
         env={1: dict(fid=100, kwargs=[opt(K(A))], callback=("pstep", 101, []), effects=[("pstep", 102, [])])},
         exprs=[("dataset", 1)],
         ops=[ev(0, {A: 5}), ev(0, {A: 1}), ev(0, {A: 2}), ev(0, {A: 0}), ev(0, {A: 0}), ev(0, {A: 2}), ev(0, {A: 1}), ev(0, {})]),
    # switch: dispatch fails -> default; branch fails -> error although there is a default; unmatched
    dict(ftable={100: ("tag_raise_on", ("j", 5), 4), 101: ("first",)}, env={},
         exprs=[("switch", ("call", 101, [opt(K(A))]), [(("j", 1), ("call", 100, [opt(K(B))])), (("j", 2), opt(K(C)))], val(9)),
                ("switch", opt(K(A)), [(("j", 1), opt(K(B)))], None),
                ("switch", ("call", 100, [opt(K(A))]), [(("j", 1), val(0))], opt(K(C)))],
         ops=[ev(0, {}), ev(0, {A: 1, B: 5}), ev(0, {A: 1, B: 2}), ev(0, {A: 2}), ev(0, {A: 7}), ev(0, {A: [1, 2]}),
              ev(1, {}), ev(1, {A: 3}), ev(1, {A: 1}), ev(1, {A: 1, B: 0}),
              ev(2, {A: 5}), ev(2, {A: 5, C: 1}), ev(2, {A: 1})]),
    # coalesce: fall through on EvaluationErrors only; a raw error from validate() ends it
    dict(ftable={100: ("tag_raise_on", ("j", 5), 3)}, env={},
         exprs=[("coalesce", [opt(K(A)), opt(K(B)), opt(K(C))]),
                ("coalesce", [("bind", opt(K(A)), [(("j", 1), val(lit("one")))], None), opt(K(B))]),
                ("coalesce", [opt(K(A)), ("call", 100, [opt(K(B))])])],
         ops=[ev(0, {}), ev(0, {C: 0}), ev(0, {B: None, C: 0}), ev(0, {A: False}),
              ev(1, {A: 1}), ev(1, {A: 2, B: 3}), ev(1, {B: 3}), ev(1, {}),
              ev(2, {B: 5}), ev(2, {B: 1}), ev(2, {})]),
    # case-when: predicate raising, unmatched; template parameter from failing code; option default failing
    dict(ftable={100: ("tag_raise_on", ("j", 5), 7), 101: ("eq", ("j", 1)), 102: ("tag_raise_on", ("j", lit("b")), 5)}, env={},
         exprs=[("case", opt(K(A)), [(("fnvalue", 101), val(lit("one"))), (("fnvalue", 100), opt(K(B)))], None),
                ("template", (("lit", "x"), ("par", 1), ("ref", K(C))), [(1, ("call", 102, [opt(K(B))]))]),
                opt(K(A), ("call", 100, [opt(K(B))]), None)],
         ops=[ev(0, {A: 1}), ev(0, {A: 5}), ev(0, {A: 2}), ev(0, {A: 2, B: 0}), ev(0, {}),
              ev(1, {B: lit("b"), C: 1}), ev(1, {B: lit("a")}), ev(1, {B: lit("a"), C: 1}),
              ev(2, {B: 5}), ev(2, {}), ev(2, {B: 1}), ev(2, {A: 0, B: 5})]),
    # lazily evaluated iterables: element failures surface at the consumer
    dict(ftable={100: ("tag_raise_on", ("j", 5), 2)}, env={},
         exprs=[("iter", [val(0), ("call", 100, [opt(K(A))]), opt(K(B))]),
                ("list", [val(0), ("call", 100, [opt(K(A))]), opt(K(B))]),
                ("cached", 50, ("tolist", ("map", ("call", 100, [opt(K(A))]), [(K(A), val([1, 5, 2]))])))],
         ops=[ev(0, {A: 5}), ev(0, {A: 1}), ev(0, {A: 1, B: 2}), ev(1, {A: 5, B: 1}), ev(1, {A: 1, B: 1}), ev(1, {A: 1}),
              ev(2, {}), ev(2, {A: 0})]),
    # Option._enforce_domain: the predicate raises (on a chosen value / always, several classes), returns False,
    # a container domain; at the root, behind a default, inside a body and inside a dataset
    dict(ftable={100: ("tag_raise_on", ("j", 5), 4), 101: ("tag_raise_on", ("j", lit("b")), 3), 102: ("raise", 1),
                 103: ("eq", ("j", 1)), 104: ("tag",), 105: ("tag",), 106: ("tag_raise_on", ("j", None), 6)},
         env={1: dict(fid=104, kwargs=[opt(K(A), None, ("fnvalue", 100))])},
         exprs=[opt(K(A), None, ("fnvalue", 100)), opt(K(B), val(lit("b")), ("fnvalue", 101)),
                ("call", 105, [opt(K(A), None, ("fnvalue", 102))]), ("dataset", 1), opt(K(A), None, ("fnvalue", 103)),
                ("list", [val(0), opt(K(C), opt(K(A), None, ("fnvalue", 106)), None)]), opt(K(A), None, val([1, 2, None]))],
         ops=[ev(0, {A: 5}), ev(0, {A: 1}), ev(0, {}), ev(1, {}), ev(1, {B: 1}), ev(1, {B: lit("b")}), ev(2, {A: 0}), ev(2, {}),
              ev(3, {A: 5}), ev(3, {A: 2}), ev(3, {A: 5}), ev(3, {A: 2}), ev(4, {A: 1}), ev(4, {A: 2}),
              ev(5, {A: None}), ev(5, {A: 0}), ev(5, {A: None, C: 1}), ev(6, {A: 5}), ev(6, {A: None}), ev(6, {A: [1]})]),
    # CaseWhen._evaluate: a predicate raising in front of a matching case / of the default, per exception class
    dict(ftable={100: ("tag_raise_on", ("j", None), 4), 101: ("truthy",), 102: ("tag_raise_on", ("j", 2), 6),
                 103: ("eq", ("j", 0)), 104: ("raise", 3)}, env={},
         exprs=[("case", opt(K(A)), [(("fnvalue", 100), val(lit("x"))), (("fnvalue", 101), val(lit("y")))], val(lit("z"))),
                ("case", opt(K(A)), [(("fnvalue", 103), val(1)), (("fnvalue", 102), val(2)), (("fnvalue", 101), val(3))], None),
                ("cached", 50, ("case", opt(K(A)), [(("fnvalue", 103), val(1)), (("fnvalue", 104), val(2))], opt(K(B))))],
         ops=[ev(0, {A: None}), ev(0, {A: 1}), ev(0, {A: None}), ev(0, {}),
              ev(1, {A: 0}), ev(1, {A: 2}), ev(1, {A: 1}), ev(1, {A: 2}),
              ev(2, {A: 0}), ev(2, {A: 1, B: 1}), ev(2, {A: 1}), ev(2, {A: 0}), ev(2, {A: 1, B: 1})]),
    # dataset: an effect raising after body and callback succeeded, the same dictionary again, with the effects
    # switched off by option, with the cache switched off; a second dataset computed from the first
    dict(ftable={100: ("tag",), 101: ("tag",), 102: ("tag_raise_on", ("t", 101, [("t", 100, [("j", 2)])]), 5),
                 103: ("tag",), 104: ("tag_raise_on", ("t", 100, [("j", 0)]), 2)},
         env={1: dict(fid=100, kwargs=[opt(K(A))], callback=("pstep", 101, []), effects=[("pstep", 102, [])]),
              2: dict(fid=100, kwargs=[opt(K(A))], effects=[("pstep", 103, []), ("pstep", 104, [])]),
              3: dict(fid=103, kwargs=[("dataset", 2)])},
         exprs=[("dataset", 1), ("dataset", 2), ("dataset", 3)],
         ops=[ev(0, {A: 2}), ev(0, {A: 2}), ev(0, {A: 2, 1: {5: {3: True}}}), ev(0, {A: 2}), ev(0, {A: 1}), ev(0, {A: 2}, True),
              ev(1, {A: 0}), ev(1, {A: 0, 1: {5: {3: True}}}), ev(1, {A: 0}), ev(2, {A: 0}), ev(2, {A: 1}), ev(2, {A: 0}),
              ev(1, {A: 0, 1: {2: {3: True}}})]),
]


# ----------------------------------------------------------------------------- exception classes from the whole hierarchy
#
# "an arbitrary exception type": besides the 8 classes of core.exc_class (RuntimeError, KeyError, ValueError, TypeError,
# Exception, ZeroDivisionError, AttributeError subclasses) user code raises INSTANCES OF THE BUILTIN CLASSES THEMSELVES
# (RecursionError, MemoryError, KeyError, StopIteration, AssertionError, OSError subclasses, LookupError / ArithmeticError
# subclasses, NotImplementedError, a Warning, an ExceptionGroup, UnicodeDecodeError with its 5-argument constructor) and
# user classes with two bases, with custom __init__ signatures (keyword-only / two required arguments: they cannot be
# re-created from a message), with a __str__ / __repr__ that raises, and user subclasses of RecursionError / MemoryError.
# They are registered under the class numbers 8.. of core.exc_class (a factory: message -> exception object carrying its
# number), so every stream -- and the model, which only sees the number -- can use them.  Only Exception subclasses:
# labrea's default handler catches `Exception` (KeyboardInterrupt / SystemExit / GeneratorExit pass through unwrapped on
# the unchanged library, by design).

def _make_zoo():
    class TwoBases(KeyError, ValueError):
        pass

    class OsAndLookup(OSError, LookupError):
        pass

    class KeywordInit(Exception):
        def __init__(self, code, *, detail="d"):
            super().__init__(code, detail)
            self.code, self.detail = code, detail

    class TwoRequired(Exception):
        def __init__(self, a, b):
            super().__init__(a, b)
            self.a, self.b = a, b

    class NoText(Exception):
        def __str__(self):
            raise RuntimeError("this exception has no text")

        __repr__ = __str__

    class DeepRecursion(RecursionError):
        pass

    class OutOfMemory(MemoryError):
        pass

    class Falsy(Exception):
        def __bool__(self):
            return False

        def __len__(self):
            return 0

        def __eq__(self, other):
            return True

        __hash__ = Exception.__hash__
    entries = [
        ("RecursionError", lambda m: RecursionError(m)), ("MemoryError", lambda m: MemoryError(m)),
        ("KeyError", lambda m: KeyError(m)), ("StopIteration", lambda m: StopIteration(m)),
        ("AssertionError", lambda m: AssertionError(m)), ("FileNotFoundError", lambda m: FileNotFoundError(2, m, "/no/such")),
        ("PermissionError", lambda m: PermissionError(13, m)), ("TimeoutError", lambda m: TimeoutError(m)),
        ("IndexError", lambda m: IndexError(m)), ("OverflowError", lambda m: OverflowError(m)),
        ("UnicodeDecodeError", lambda m: UnicodeDecodeError("utf-8", b"\xff", 0, 1, m)),
        ("NotImplementedError", lambda m: NotImplementedError(m)), ("UserWarning", lambda m: UserWarning(m)),
        ("StopAsyncIteration", lambda m: StopAsyncIteration(m)), ("EOFError", lambda m: EOFError(m)),
        ("ModuleNotFoundError", lambda m: ModuleNotFoundError(m, name="nope")), ("SystemError", lambda m: SystemError(m)),
        ("user class (KeyError, ValueError)", TwoBases), ("user class (OSError, LookupError)", OsAndLookup),
        ("user class, keyword-only __init__", lambda m: KeywordInit(m, detail="x")),
        ("user class, two required __init__ arguments", lambda m: TwoRequired(m, 2)),
        ("user class whose __str__ / __repr__ raise", NoText), ("user subclass of RecursionError", DeepRecursion),
        ("user subclass of MemoryError", OutOfMemory), ("user class, falsy and equal to everything", Falsy),
    ]
    if "ExceptionGroup" in dir(__import__("builtins")):
        entries.append(("ExceptionGroup", lambda m: ExceptionGroup(m, [ValueError("inner"), KeyError("k")])))   # noqa: F821
    zoo = {}
    for i, (name, mk) in enumerate(entries):
        n = 8 + i

        def factory(msg, _mk=mk, _n=n):
            e = _mk(msg)
            e.labrea_verif_n = _n
            return e
        zoo[n] = (name, factory)
    return zoo


ZOO = _make_zoo()
for _n, (_name, _factory) in ZOO.items():
    core.EXC_CLASSES[_n] = _factory
ZOO_NUMS = sorted(ZOO)


def rezoo(scn, rng):
    """the scenario with every exception class number of its user code replaced by one of the zoo"""
    def cls():
        return rng.choice(ZOO_NUMS)
    ft = {}
    for fid, d in scn["ftable"].items():
        if d[0] in ("tag_raise_on", "raise_on_inner"):
            d = (d[0], d[1], cls())
        elif d[0] == "raise":
            d = ("raise", cls())
        elif d[0] == "raise_first":
            d = ("raise_first", d[1], cls())
        ft[fid] = d
    return dict(scn, ftable=ft)


# ----------------------------------------------------------------------------- user-defined Evaluatable hierarchies
#
# Classes a user writes: subclasses of a CONCRETE library class (Option), of the user's own Evaluatable base class, at
# depth 1 and 2, and with evaluate() supplied by a mixin -- each overriding evaluate() with code of its own (never calling
# super().evaluate(): on the library as it is that re-enters the override).  Their objects are evaluatables like any
# other: a failure inside the override surfaces as an EvaluationError whose source is that object.
#   ("uopt", variant, key, fid)        variant "d1": class(Option), "d2": class(class(Option)), "mixin": class(Mixin, Option);
#                                       evaluate: the value under the (top-level) key, handed to user function fid
#   ("usrc", depth, fid, [children])   depth 0: the user's base class(Evaluatable), 1 / 2: subclasses overriding evaluate again;
#                                       evaluate: user function fid applied to the children's values
# For the model these are ("call", fid, [option]) / ("call", fid, children): to_model.

_UCLS = {}


def user_classes():
    if _UCLS:
        return _UCLS
    from labrea import Option
    from labrea.exceptions import KeyNotFoundError
    from labrea.types import Evaluatable

    class UOpt1(Option):
        def __init__(self, key, fn):
            super().__init__(key)
            self.fn = fn

        def evaluate(self, options):
            if self.key not in options:
                raise KeyNotFoundError(self.key, self)
            return self.fn(options[self.key])

    class UOpt2(UOpt1):
        def evaluate(self, options):
            try:
                v = options[self.key]
            except KeyError as e:
                raise KeyNotFoundError(self.key, self) from e
            return self.fn(v)

    class EvalMixin:
        def evaluate(self, options):
            if self.key in options:
                return self.fn(options[self.key])
            raise KeyNotFoundError(self.key, self)

    class UOptMixin(EvalMixin, UOpt1):
        pass

    class Source(Evaluatable):
        def __init__(self, fn, children):
            self.fn, self.children = fn, list(children)

        def evaluate(self, options):
            return self.fn(*[c.evaluate(options) for c in self.children])

        def validate(self, options):
            for c in self.children:
                c.validate(options)

        def keys(self, options):
            return set().union(*[c.keys(options) for c in self.children])

        def explain(self, options=None):
            return set().union(*[c.explain(options) for c in self.children])

        def __repr__(self):
            return f"{type(self).__name__}({len(self.children)} children)"

    class Table(Source):
        def evaluate(self, options):
            vals = []
            for c in self.children:
                vals.append(c.evaluate(options))
            return self.fn(*vals)

    class SubTable(Table):
        def evaluate(self, options):
            vals = tuple(c.evaluate(options) for c in self.children)
            return self.fn(*vals)
    _UCLS.update(uopt={"d1": UOpt1, "d2": UOpt2, "mixin": UOptMixin}, usrc={0: Source, 1: Table, 2: SubTable})
    return _UCLS


def to_model(x):
    """the scenario with the user-class nodes written as the function applications they compute"""
    if isinstance(x, tuple):
        if x and x[0] == "uopt":
            return ("call", x[3], [("option", x[2], None, None)])
        if x and x[0] == "usrc":
            return ("call", x[2], [to_model(c) for c in x[3]])
        if x and x[0] in ("value", "fnvalue"):
            return x
        return tuple(to_model(y) for y in x)
    if isinstance(x, list):
        return [to_model(y) for y in x]
    if isinstance(x, dict):
        return {k: (to_model(v) if k in ("env", "exprs", "kwargs", "callback", "effects", "dispatch", "overloads") or isinstance(k, int) else v)
                for k, v in x.items()}
    return x


# ----------------------------------------------------------------------------- generation

BADS = [5, lit("b"), None, 1, 0, lit("a"), 2]


class FailGen(gen.Gen):
    """the profile of C12: many more failing callables than the default generator"""

    def body_fid(self):
        rng = self.rng
        r = rng.random()
        if r < 0.30:
            return self.newf(("tag_raise_on", ("j", rng.choice(BADS)), rng.randint(1, 7)))
        if r < 0.35:
            return self.newf(("raise", rng.randint(1, 7)))
        return self.newf(("tag",))

    def option(self, depth=0):
        """option domains whose predicate raises (a chosen value / always, any class) in random graphs too"""
        o = super().option(depth)
        rng = self.rng
        if self.f["with_domains"] and rng.random() < 0.06:
            d = ("raise", rng.randint(1, 7)) if rng.random() < 0.2 else ("tag_raise_on", ("j", rng.choice(BADS)), rng.randint(1, 7))
            o = ("option", o[1], o[2], ("fnvalue", self.newf(d)))
        return o


def harden(scn, rng):
    """callbacks / effects / steps / predicates raise too: some total functions of the table are
    replaced by ones raising on a chosen input (or always)"""
    ft = dict(scn["ftable"])
    for fid, desc in sorted(ft.items()):
        if desc == ("tag",) and rng.random() < 0.10:
            ft[fid] = ("raise", rng.randint(1, 7)) if rng.random() < 0.3 else ("tag_raise_on", ("j", rng.choice(BADS)), rng.randint(1, 7))
        elif desc[0] in ("eq", "in", "truthy") and rng.random() < 0.15:
            ft[fid] = ("tag_raise_on", ("j", rng.choice(BADS)), rng.randint(1, 7))
    return dict(scn, ftable=ft)


def rewrite(e, f):
    """apply f bottom-up to every sub-expression in a VALUE position (not to callables / predicates)"""
    if e is None:
        return None
    k = e[0]
    r = lambda x: rewrite(x, f)   # noqa
    if k == "option":
        out = ("option", e[1], r(e[2]), e[3])
    elif k == "apply":
        out = ("apply", r(e[1]), e[2])
    elif k in ("bind", "switch"):
        out = (k, e[1], [(v, r(x)) for v, x in e[2]], r(e[3]))
    elif k == "case":
        out = ("case", e[1], [(c, r(x)) for c, x in e[2]], r(e[3]))
    elif k in ("coalesce", "list", "tuple"):
        out = (k, [r(x) for x in e[1]])
    elif k == "dict":
        out = ("dict", [(v, r(x)) for v, x in e[1]])
    elif k == "with":
        out = ("with", e[1], e[2], r(e[3]))
    elif k == "call":
        out = ("call", e[1], [r(x) for x in e[2]])
    else:
        return e
    return f(out)


def generate(ctx, n, rng=None):
    rng = ctx.rng if rng is None else rng
    scns = []
    for i in range(n):
        g = FailGen(rng, with_alloptions=(i % 12 == 0), preset_on_ds=0.3 if i % 2 else 0.0,
                    with_templates=(i % 3 != 0))
        scn = g.scenario(n_exprs=2, depth=3, n_ops=11, methods=("evaluate",) * 10 + ("validate", "keys"),
                         switches=(i % 6 == 0))
        if i % 4 == 0:     # a coalesce at the root (the zone of D20)
            scn["exprs"][0] = ("coalesce", [g.expr(2) for _ in range(rng.randint(2, 3))])
        if i % 9 == 4:     # a bare lazily evaluated iterable at the root: failures surface at the consumer
            scn["exprs"][1] = ("iter", [g.expr(1) for _ in range(rng.randint(1, 3))])
        if i % 2 == 0:     # more cache sites inside: successes stored by runs that fail further up
            counter = [200]

            def wrap(x, _c=counter):
                if x[0] in ("call", "apply", "option", "switch") and rng.random() < 0.2:
                    _c[0] += 1
                    return ("cached", _c[0], x)
                return x
            scn["exprs"] = [rewrite(x, wrap) for x in scn["exprs"]]
            if rng.random() < 0.5:
                scn["exprs"][0] = ("cached", 200, scn["exprs"][0]) if scn["exprs"][0][0] not in ("map", "iter") else scn["exprs"][0]
        scn["ftable"] = dict(g.ftable)
        scn["env"] = dict(g.env)
        scns.append(harden(scn, rng))
    return scns


# ----------------------------------------------------------------------------- directed streams (model-expressible)

PKEYS = [K(10), K(11), K(12), K(gen.SEC, gen.SX)]
PVALS = [5, lit("b"), None, 1, 0, lit("a"), 2, True, False]


def _at(key, v):
    """the dictionary {key: v} for a flat or section key"""
    if len(key) == 1:
        return {key[0][1]: v}
    return {key[0][1]: {key[1][1]: v}}


def _merge(a, b):
    out = dict(a)
    for k, v in b.items():
        out[k] = _merge(out[k], v) if isinstance(v, dict) and isinstance(out.get(k), dict) else v
    return out


def rand_pred(g, bad):
    """a predicate description: raises class n on `bad` / always, or an ordinary total predicate"""
    rng = g.rng
    r = rng.random()
    if r < 0.55:
        return g.newf(("tag_raise_on", ("j", bad), rng.randint(1, 7)))
    if r < 0.65:
        return g.newf(("raise", rng.randint(1, 7)))
    if r < 0.8:
        return g.newf(("eq", ("j", rng.choice(PVALS))))
    if r < 0.9:
        return g.newf(("in", [("j", v) for v in rng.sample(PVALS, 3)]))
    return g.newf(("truthy",))


def embed(g, x):
    """x at the root or nested one or two levels deep in nodes that hand the caller's dictionary on"""
    rng = g.rng
    r = rng.random()
    if r < 0.30:
        return x
    if r < 0.42:
        return ("call", g.newf(("tag",)), [x] + [("value", ("j", 0))] * rng.randint(0, 1))
    if r < 0.52:
        return ("list", [("value", ("j", 0)), x])
    if r < 0.62:
        return ("option", K(12), x, None)                 # the default of another option
    if r < 0.72:
        c = g.next_c
        g.next_c += 1
        return ("cached", c, x)
    if r < 0.80:
        return ("apply", x, ("pstep", g.newf(("tag",)), []))
    if r < 0.88:
        return ("dict", [(("j", 1), x)])
    dsid = len(g.env) + 1
    g.env[dsid] = dict(fid=g.newf(("tag",)), kwargs=[x], cache=rng.choice(["mem", "mem", "none"]))
    return ("dataset", dsid)


def gen_predicates(rng, n):
    """option domains and case-when predicates that raise: every exception class of the harness, on a chosen
    value or always, in front of a matching case / of the default, the tested value coming from the dictionary
    or from the option's default; the node at the root and nested; each dictionary evaluated more than once"""
    scns = []
    for i in range(n):
        g = FailGen(rng)
        key = rng.choice(PKEYS)
        bad = rng.choice(PVALS)
        exprs = []
        if i % 2 == 0:
            dflt = ("value", ("j", rng.choice([bad, rng.choice(PVALS)]))) if rng.random() < 0.3 else None
            if rng.random() < 0.85:
                dom = ("fnvalue", rand_pred(g, bad))
            else:
                dom = ("value", ("j", rng.sample(PVALS, 3)))
            o = ("option", key, dflt, dom)
            exprs = [o, embed(g, embed(g, o))]
            if rng.random() < 0.4:    # the option as the dispatch of a case / switch
                exprs.append(("switch", o, [(("j", v), ("value", ("j", lit("s")))) for v in rng.sample(PVALS[:7], 2)],
                              ("value", ("j", lit("d"))) if rng.random() < 0.5 else None))
        else:
            cases = []
            for _ in range(rng.randint(1, 3)):
                res = ("value", ("j", rng.choice(PVALS))) if rng.random() < 0.7 else ("option", K(12), None, None)
                cases.append((("fnvalue", rand_pred(g, bad)), res))
            dflt = None if rng.random() < 0.4 else (("value", ("j", lit("z"))) if rng.random() < 0.7 else ("option", K(11), None, None))
            disp = ("option", key, ("value", ("j", bad)) if rng.random() < 0.2 else None, None)
            c = ("case", disp, cases, dflt)
            exprs = [c, embed(g, embed(g, c))]
        dicts = [_at(key, bad), _at(key, rng.choice(PVALS)), {}, _at(key, rng.choice(PVALS))]
        dicts = [(_merge(d, {12: rng.choice(PVALS)}) if rng.random() < 0.5 else d) for d in dicts]
        ops = []
        for _ in range(rng.randint(8, 11)):
            ops.append(("evaluate", rng.randrange(len(exprs)), False, False, rng.choice(dicts)))
        ops += [("evaluate", 0, False, False, dicts[0]), ("evaluate", len(exprs) - 1, False, False, dicts[0])]
        scns.append(dict(ftable=dict(g.ftable), env=dict(g.env), exprs=exprs, ops=ops))
    return scns


def gen_effects(rng, n):
    """cached datasets whose body / callback / effects raise on chosen values (or always): the same dictionary is
    evaluated again right after the failure, then with the effects switched off (LABREA.EFFECTS.DISABLED, or the
    dataset built with disable_effects()), with the cache switched off, and through a second dataset / a with_options
    copy computed from the first"""
    scns = []
    for i in range(n):
        g = FailGen(rng)
        key = rng.choice(PKEYS)
        vals = rng.sample(PVALS[:7], 3)
        body = g.newf(("tag",) if rng.random() < 0.8 else ("tag_raise_on", ("j", vals[2]), rng.randint(1, 7)))
        d = dict(fid=body, kwargs=[("option", key, None, None)])
        shape = lambda v: ("t", body, [("j", v)])   # noqa
        if rng.random() < 0.45:
            cb = g.newf(("tag",) if rng.random() < 0.6 else ("tag_raise_on", shape(vals[1]), rng.randint(1, 7)))
            d["callback"] = ("pstep", cb, [])
            inner = shape
            shape = lambda v, _i=inner, _cb=cb: ("t", _cb, [_i(v)])   # noqa
        effs = []
        for _ in range(rng.randint(1, 2)):
            r = rng.random()
            if r < 0.6:
                effs.append(("pstep", g.newf(("tag_raise_on", shape(vals[0]), rng.randint(1, 7))), []))
            elif r < 0.7:
                effs.append(("pstep", g.newf(("raise", rng.randint(1, 7))), []))
            else:
                effs.append(("pstep", g.newf(("tag",)), []))
        d["effects"] = effs
        if rng.random() < 0.12:
            d["effects_disabled"] = True
        if rng.random() < 0.1:
            d["cache"] = "none"
        if rng.random() < 0.2:
            d["default_options"] = _at(key, vals[0])
        g.env[1] = d
        exprs = [("dataset", 1)]
        r = rng.random()
        if r < 0.35:
            g.env[2] = dict(fid=g.newf(("tag",)), kwargs=[("dataset", 1)])
            exprs.append(("dataset", 2))
        elif r < 0.55:
            g.env[2] = dict(derived=1, how=rng.choice(["with_options", "with_default_options"]), preset=_at(key, rng.choice(vals)))
            exprs.append(("dataset", 2))
        elif r < 0.75:
            exprs.append(("cached", 60, ("call", g.newf(("tag",)), [("dataset", 1)])))
        off = {1: {5: {3: True}}}
        ops = []
        for _ in range(rng.randint(3, 5)):
            o = _at(key, rng.choice(vals)) if rng.random() < 0.9 else {}
            i_ = rng.randrange(len(exprs))
            ops.append(("evaluate", i_, False, False, o))
            r = rng.random()
            if r < 0.55:
                ops.append(("evaluate", i_, False, False, o))
            if r < 0.75 and rng.random() < 0.6:
                ops.append(("evaluate", rng.randrange(len(exprs)), False, False, _merge(o, off)))
            if rng.random() < 0.15:
                ops.append(("evaluate", i_, rng.random() < 0.5, False, _merge(o, {1: {2: {3: True}}}) if rng.random() < 0.5 else o))
            if rng.random() < 0.5:
                ops.append(("evaluate", 0, False, False, o))
        scns.append(dict(ftable=dict(g.ftable), env=dict(g.env), exprs=exprs, ops=ops))
    return scns


def gen_repair(rng, n):
    """'it failed -- fix the dictionary and try again': graphs with cache sites that receive the caller's own options
    object (labrea.cached(...) at the root, nested under nodes that hand the caller's dictionary on) and graphs
    that re-mix it (datasets, with_options copies, a cached node around a dataset), whose user code (body, step,
    callback, effect) raises on a chosen value; histories alternating the failing dictionary, repaired ones and the
    failing one again, with validate() calls in between.  Meant to be run on ONE dictionary object edited in place
    (scn['inplace']) as well as with a fresh dictionary per call."""
    scns = []
    for i in range(n):
        g = FailGen(rng)
        key = rng.choice(PKEYS)
        bad, good1, good2 = rng.sample(PVALS[:7], 3)
        cls = rng.randint(1, 7)
        body = g.newf(("tag_raise_on", ("j", bad), cls))
        o_ = ("option", key, None, None)
        r = rng.random()
        if r < 0.4:
            inner = ("call", body, [o_] + ([("option", K(12), ("value", ("j", 0)), None)] if rng.random() < 0.3 else []))
        elif r < 0.7:
            inner = ("apply", o_, ("pstep", body, []))
        else:
            inner = ("call", g.newf(("tag",)), [("call", body, [o_])])
        c = g.next_c
        g.next_c += 1
        site = ("cached", c, inner)
        exprs = [site]
        r = rng.random()
        if r < 0.3:
            exprs.append(("call", g.newf(("tag",)), [site]))
        elif r < 0.45:
            exprs.append(("list", [("value", ("j", 0)), site]))
        elif r < 0.6:
            c2 = g.next_c
            g.next_c += 1
            exprs.append(("cached", c2, ("apply", site, ("pstep", g.newf(("tag",)), []))))
        elif r < 0.8:
            d = dict(fid=g.newf(("tag",)), kwargs=[inner if rng.random() < 0.5 else site])
            if rng.random() < 0.4:
                d["effects"] = [("pstep", g.newf(("tag_raise_on", ("t", d["fid"], [("t", body, [("j", good2)])]), rng.randint(1, 7))), [])]
            g.env[1] = d
            exprs.append(("dataset", 1))
            if rng.random() < 0.4:
                g.env[2] = dict(derived=1, how=rng.choice(["with_options", "with_default_options"]), preset={12: rng.choice(PVALS)})
                exprs.append(("dataset", 2))
            if rng.random() < 0.4:
                c3 = g.next_c
                g.next_c += 1
                exprs.append(("cached", c3, ("dataset", 1)))
        dicts = {"bad": _at(key, bad), "g1": _at(key, good1), "g2": _at(key, good2), "none": {}}
        if rng.random() < 0.4:
            extra = {12: rng.choice(PVALS)}
            dicts = {k: _merge(v, extra) for k, v in dicts.items()}
        ops = []
        for _ in range(rng.randint(2, 4)):
            x = rng.randrange(len(exprs))
            pat = rng.choice([["bad", "g1", "bad"], ["bad", "g1", "bad", "g1"], ["g1", "bad", "g2", "bad", "g1"],
                              ["bad", "bad", "g1", "bad"], ["none", "g1", "bad", "none", "bad"], ["bad", "g2", "g1", "bad", "g2"]])
            for nm in pat:
                if rng.random() < 0.2:
                    ops.append(("validate", x, False, False, dicts[nm]))
                ops.append(("evaluate", x if rng.random() < 0.85 else rng.randrange(len(exprs)), False, False, dicts[nm]))
        scns.append(dict(ftable=dict(g.ftable), env=dict(g.env), exprs=exprs, ops=ops))
    return scns


# ----------------------------------------------------------------------------- the oracle-only stream

PYPREDS = {                                    # plain Python predicates: they raise genuine exceptions on some values
    "lt2": lambda v: v < 2,                    # TypeError for None / str / list / dict
    "len1": lambda v: len(v) == 1,             # TypeError for int / None / bool
    "neg": lambda v: -v <= 0,                  # TypeError for str / None / list
    "div": lambda v: 10 // v >= 0,             # ZeroDivisionError for 0 / False, TypeError for str / None
    "attr": lambda v: v.startswith("a"),       # AttributeError for everything but str
    "idx": lambda v: v[0] == 1,                # TypeError for int / None, IndexError for [] / '', KeyError for {}
    "true": lambda v: True,
}
XVALS = [5, lit("b"), None, 1, 0, lit("a"), 2, True, [], [1, 2], [lit("a")], {gen.SX: 1}, lit(""), [[1]]]


def gen_extended(rng, n):
    """scenarios outside the model's universe (oracle only):
    (a) container domains -- set, frozenset, dict, tuple, a user container class whose membership test delegates
        to a set (hashing an unhashable value raises inside it) or raises a chosen class on a chosen value -- with
        hashable and unhashable values in the dictionary;
    (b) predicates written in plain Python (comparison, len, arithmetic, indexing, attribute access) as option
        domains and case-when predicates, over values of every JSON type;
    (c) impure bodies (the value embeds the body's call counter) with effects that fail on the first k calls or on
        chosen values; the same dictionary again after the failure; effects switched off by option or by
        disable_effects() / enable_effects() between evaluations"""
    scns = []
    for i in range(n):
        g = FailGen(rng)
        key = rng.choice(PKEYS)
        kind = i % 3
        if kind == 0:
            members = rng.sample([5, lit("b"), None, 1, 0, lit("a"), 2], rng.randint(0, 4))
            ck = rng.choice(["set", "frozenset", "dict", "tuple", "rec", "rec", "rec_raise"])
            dom = ("pydomain", ck, members, rng.choice(XVALS), rng.randint(1, 7))
            dflt = ("value", ("j", rng.choice(XVALS))) if rng.random() < 0.25 else None
            o = ("option", key, dflt, dom)
            exprs = [o, embed(g, embed(g, o))]
            vals = rng.sample(XVALS, 4) + [dom[3]] + members[:1]
        elif kind == 1:
            if rng.random() < 0.5:
                o = ("option", key, None, ("fnvalue", g.newf(("py", rng.choice(sorted(PYPREDS))))))
            else:
                cases = [(("fnvalue", g.newf(("py", rng.choice(sorted(PYPREDS))))), ("value", ("j", j)))
                         for j in range(rng.randint(1, 3))]
                o = ("case", ("option", key, None, None), cases, ("value", ("j", lit("z"))) if rng.random() < 0.6 else None)
            exprs = [o, embed(g, embed(g, o))]
            vals = rng.sample(XVALS, 6)
        else:
            body = g.newf(("count",))
            vals = rng.sample([5, lit("b"), None, 1, 0, lit("a"), 2], 3)
            effs = []
            for _ in range(rng.randint(1, 2)):
                r = rng.random()
                if r < 0.45:
                    effs.append(("pstep", g.newf(("raise_first", rng.randint(1, 2), rng.randint(1, 7))), []))
                elif r < 0.85:
                    effs.append(("pstep", g.newf(("raise_on_inner", ("j", vals[0]), rng.randint(1, 7))), []))
                else:
                    effs.append(("pstep", g.newf(("tag",)), []))
            d = dict(fid=body, kwargs=[("option", key, None, None)], effects=effs)
            if rng.random() < 0.3:
                cb = ("raise_on_inner", ("j", vals[1]), rng.randint(1, 7)) if rng.random() < 0.5 else ("raise_first", 1, rng.randint(1, 7))
                d["callback"] = ("pstep", g.newf(cb), [])
            g.env[1] = d
            exprs = [("dataset", 1)]
            if rng.random() < 0.4:
                g.env[2] = dict(fid=g.newf(("tag",)), kwargs=[("dataset", 1)])
                exprs.append(("dataset", 2))
        ops = []
        if kind < 2:
            dicts = [_at(key, v) for v in vals] + [{}]
            for _ in range(rng.randint(8, 12)):
                ops.append(("evaluate", rng.randrange(len(exprs)), False, False, rng.choice(dicts)))
        else:
            off = {1: {5: {3: True}}}
            for _ in range(rng.randint(3, 5)):
                o = _at(key, rng.choice(vals))
                ops.append(("evaluate", 0, False, False, o))
                r = rng.random()
                if r < 0.5:
                    ops.append(("evaluate", 0, False, False, o))
                elif r < 0.7:
                    ops.append(("evaluate", 0, False, False, _merge(o, off)))
                elif r < 0.9:
                    ops += [("disable_effects", 0, False, False, {}), ("evaluate", 0, False, False, o)]
                    if rng.random() < 0.6:
                        ops.append(("enable_effects", 0, False, False, {}))
                if rng.random() < 0.4:
                    ops.append(("evaluate", rng.randrange(len(exprs)), False, False, o))
        scns.append(dict(ftable=dict(g.ftable), env=dict(g.env), exprs=exprs, ops=ops, ext=True))
    return scns


def gen_zoo(ctx, rng, n):
    """every model-expressible stream once more (random graphs, raising predicates, failing callbacks / effects, 'fix the
    dictionary and try again'), the exception classes of the user code drawn from the zoo -> [(scenario, random?)]: as in the
    streams themselves only the random graphs are extended with 'supply the missing option' operations"""
    k = max(1, n // 10)
    directed = gen_predicates(rng, 3 * k) + gen_effects(rng, 2 * k) + gen_repair(rng, 2 * k)
    return [(rezoo(s, rng), False) for s in directed] + [(rezoo(s, rng), True) for s in generate(ctx, 3 * k, rng=rng)]


def gen_userclasses(rng, n):
    """objects of user-defined Evaluatable classes (user_classes) whose evaluate() override runs raising user code: at the
    root, nested one or two levels deep (arguments, option defaults, cached nodes, datasets, pipeline sources), below one
    another, as a coalesce member and as the dispatch of a switch with / without a default; classes of the harness and of
    the zoo; the failing dictionary, good ones, the empty one, the failing one again"""
    scns = []
    keys = [K(10), K(11), K(12)]
    for i in range(n):
        g = FailGen(rng)
        key = rng.choice(keys)
        bad, good1, good2 = rng.sample(PVALS[:7], 3)
        cls = rng.choice(ZOO_NUMS) if rng.random() < 0.5 else rng.randint(1, 7)
        fid = g.newf(("tag_raise_on", ("j", bad), cls) if rng.random() < 0.9 else ("raise", cls))
        kind = i % 3
        if kind == 0:
            u = ("uopt", rng.choice(["d1", "d2", "mixin"]), key, fid)
        elif kind == 1:
            kids = [("option", key, None, None)] + ([("value", ("j", rng.choice(PVALS)))] if rng.random() < 0.3 else [])
            u = ("usrc", rng.choice([0, 1, 1, 2, 2]), fid, kids)
        else:       # user objects below one another: the chain passes through both
            inner = ("uopt", rng.choice(["d1", "d2", "mixin"]), key, fid)
            outer_f = g.newf(("tag",) if rng.random() < 0.6 else ("tag_raise_on", ("t", fid, [("j", good2)]), rng.choice(ZOO_NUMS)))
            u = ("usrc", rng.choice([1, 2]), outer_f, [inner])
        exprs = [u, embed(g, embed(g, u))]
        model_ok = True
        r = rng.random()
        if r < 0.3:
            exprs.append(("coalesce", [u, ("value", ("j", lit("f")))]))
            model_ok = False       # Option.validate() evaluates a present option: the inherited validate() runs the override (the model's
                                   # function application validates its arguments only)
        elif r < 0.6:
            exprs.append(("switch", u, [(("j", 1), ("value", ("j", 0)))], ("value", ("j", lit("d"))) if rng.random() < 0.6 else None))
        dicts = [_at(key, bad), _at(key, good1), _at(key, good2), {}]
        if rng.random() < 0.4:
            dicts = [_merge(d, {13: rng.choice(PVALS)}) for d in dicts]
        ops = []
        for _ in range(rng.randint(6, 9)):
            ops.append(("evaluate", rng.randrange(len(exprs)), rng.random() < 0.1, False, rng.choice(dicts)))
        ops += [("evaluate", j, False, False, dicts[0]) for j in range(len(exprs))] + [("evaluate", 0, False, False, dicts[1])]
        scns.append(dict(ftable=dict(g.ftable), env=dict(g.env), exprs=exprs, ops=ops, ext=True, model_ok=model_ok))
    return scns


CALL_TOK = __import__("re").compile(r"^c[0-9]+\(")


def user_correspondence(ctx, scns):
    """the user-class scenarios against Model/Eval.v on the function applications they compute (to_model): results
    and calls of user functions, operation by operation -> (ops compared, mismatches)"""
    items = []
    for s in scns:
        if not s.get("model_ok"):
            continue
        recs, _, _ = run_history(s)
        il = [core.canon_names(r["out"] + "|" + " ".join(t for t in r["calls"] if CALL_TOK.match(t))) for r in recs]
        items.append((s, il, dict(to_model(dict(ftable=s["ftable"], env=s["env"], exprs=s["exprs"])), ops=s["ops"])))
    if not items:
        return 0, []
    outs = ctx.coq_eval("Users_C12", cp.REQ, "", [core.coq_scenario(m) for _, _, m in items], shard=30)
    n, mism = 0, []
    for (s, il, m), out in zip(items, outs):
        ml = out.split(" ## ")
        if len(ml) != len(il):
            mism.append(dict(where="user-defined Evaluatable classes vs Model/Eval.v (line count)", scenario_repr=cp.dump_scn(s)))
            continue
        for j, (a, b) in enumerate(zip(il, ml)):
            n += 1
            res, ev = cp.split(cp.strip_ghost(b))
            b2 = res + "|" + " ".join(t for t in ev if CALL_TOK.match(t))
            if not cp.same(a, b2, False):
                mism.append(dict(where="objects of user-defined Evaluatable classes (subclasses of Option / of the user's own base class overriding "
                                       "evaluate) vs Model/Eval.v on the function applications they compute", op_index=j, op=repr(s["ops"][j])[:300],
                                 impl=a, model=b2, scenario_repr=cp.dump_scn(s)))
                break
            if "unmod" in res:
                break
    return n, mism


# ----------------------------------------------------------------------------- running a history, keeping the objects


class World12(core.World):
    """core.World whose caches also record every set() with its arguments, plus the function kinds of the
    oracle-only stream: ("py", name) plain Python predicates (genuine exceptions, recorded as objects),
    ("count",) impure bodies whose value embeds their call counter, ("raise_first", k, n) raising on the first
    k calls, ("raise_on_inner", bad, n) raising when `bad` occurs anywhere inside an argument"""

    def __init__(self, ftable, snapshot_options=False):
        super().__init__(ftable)
        self.sets = []
        self.snapshot_options = snapshot_options     # the caller edits its dictionary later: keep what was passed THEN
        self.cur_op = None
        self.ncalls = {}
        self.stamp_op = {}           # (fid, n) -> the op during which the n-th call of the counting body fid ran

    def fn(self, fid, arity=None):
        if fid in self.fns:
            return self.fns[fid]
        desc = self.ftable.get(fid, ("tag",))
        if desc[0] not in ("py", "count", "raise_first", "raise_on_inner"):
            return super().fn(fid, arity)
        world = self

        def impl(*args):
            args = tuple(core.force(a) for a in args)
            world.calls.append(f"c{fid}(" + ",".join(core.show(a) for a in args) + ")")
            n = world.ncalls[fid] = world.ncalls.get(fid, 0) + 1
            k = desc[0]
            if k == "py":
                try:
                    return PYPREDS[desc[1]](args[0])
                except Exception as e:     # noqa  the very object Python raised: it must end the cause chain
                    world.raised.append(e)
                    raise
            if k == "count":
                world.stamp_op[(fid, n)] = world.cur_op
                return (core.Tag(fid), n) + args
            if k == "raise_first":
                if n <= desc[1]:
                    e = core.exc_class(desc[2])("user code raises")
                    world.raised.append(e)
                    raise e
                return (core.Tag(fid),) + args
            bad = core.py_value(desc[1])
            if any(_occurs(bad, a) for a in args):
                e = core.exc_class(desc[2])("user code raises")
                world.raised.append(e)
                raise e
            return (core.Tag(fid),) + args
        impl.__name__ = impl.__qualname__ = f"fn{fid}"
        self.fns[fid] = impl
        return impl

    def cache(self, cid):
        if cid not in self.caches:
            base = super().cache(cid)
            world = self

            def _set(self_, evaluatable, options, value, _cls=type(base)):
                world.sets.append((cid, evaluatable, copy.deepcopy(options) if world.snapshot_options else options, value))
                _cls.set(self_, evaluatable, options, value)
            self.caches[cid] = type("Rec12", (type(base),), {"set": _set})()
        return self.caches[cid]


def _occurs(bad, x):
    if core._eq(x, bad) and type(x) is type(bad):
        return True
    if isinstance(x, (list, tuple)):
        return any(_occurs(bad, y) for y in x)
    if isinstance(x, dict):
        return any(_occurs(bad, y) for y in x.values())
    return False


class RecContainer(_Container):
    """a user container class: membership delegates to a set of the members (hashing an unhashable value raises
    inside it) or raises a chosen class on a chosen value; the exception OBJECT is recorded"""

    def __init__(self, world, members, raise_on=None, cls=None):
        self.world, self.members, self.raise_on, self.cls = world, members, raise_on, cls

    def __contains__(self, x):
        try:
            if self.cls is not None and core._eq(x, self.raise_on) and type(x) is type(self.raise_on):
                raise core.exc_class(self.cls)("user container raises")
            return x in self.members
        except Exception as e:   # noqa
            self.world.raised.append(e)
            raise

    def __deepcopy__(self, memo):      # labrea's Value hands out deep copies: the container is one shared object
        return self

    def __repr__(self):
        return "RecContainer"


class Builder12(core.Builder):
    """core.Builder plus ("pydomain", kind, members, raise_on, cls): a Value holding a Python container"""

    def build(self, e):
        if e[0] == "pydomain":
            from labrea.types import Value
            members = [core.py_json(m) for m in e[2]]
            kind = e[1]
            if kind == "set":
                c = set(members)
            elif kind == "frozenset":
                c = frozenset(members)
            elif kind == "dict":
                c = {m: True for m in members}
            elif kind == "tuple":
                c = tuple(members)
            elif kind == "rec":
                c = RecContainer(self.w, set(members))
            else:
                c = RecContainer(self.w, set(members), core.py_json(e[3]), e[4])
            return Value(c)
        if e[0] == "uopt":
            assert len(e[2]) == 1 and e[2][0][0] == "n"
            return user_classes()["uopt"][e[1]](core.key_text(e[2]), self.w.fn(e[3]))
        if e[0] == "usrc":
            return user_classes()["usrc"][e[1]](self.w.fn(e[2]), [self.build(c) for c in e[3]])
        return super().build(e)


def impure(scn):
    """user code with state (call counters, failing on the first k calls): deleting an evaluation from the history
    legitimately changes what later evaluations compute, so the deletion clause does not apply"""
    return any(d[0] in ("count", "raise_first") for d in scn["ftable"].values())


def fresh(scn, idx):
    """a freshly built copy of one expression of the scenario (its own world)"""
    w = World12(scn["ftable"])
    return Builder12(w, scn["env"]).build(scn["exprs"][idx])


def chain_of(exc):
    out, seen = [], set()
    x = exc
    while x is not None and id(x) not in seen:
        seen.add(id(x))
        out.append(x)
        x = x.__cause__
    return out


def sync_inplace(shared, new):
    """the caller re-uses ONE dictionary object for every call: emptied and filled again in place (so that the
    order of its entries is that of a fresh dictionary) -- the object itself is never replaced"""
    shared.clear()
    shared.update(new)
    return shared


def run_history(scn, skip=None):
    """run the ops on ONE long-lived graph; one record per op (ops with index == skip are left out).
    scn['inplace']: every operation is handed the SAME options dictionary object, which the caller edits in place
    between the operations (a failed evaluation followed by 'fix the dictionary and try again')"""
    import labrea.cache
    import labrea.logging
    inplace = bool(scn.get("inplace"))
    w = World12(scn["ftable"], snapshot_options=inplace)
    b = Builder12(w, scn["env"])
    objs = [b.build(e) for e in scn["exprs"]]
    recs = []
    shared = {}
    for j, (m, i, cc, lc, o) in enumerate(scn["ops"]):
        if j == skip:
            recs.append(None)
            continue
        po = core.py_json(o)
        if inplace:
            po = sync_inplace(shared, po)
        w.cur_op = j
        n_calls = len(w.calls)
        n_raised, n_sets = len(w.raised), len(w.sets)
        before = {cid: dict(c._cache) for cid, c in w.caches.items()}
        rec = dict(op=j, method=m, obj=objs[i], options=copy.deepcopy(po) if inplace else po, exc=None, phase="ok", raw=None)
        with contextlib.ExitStack() as st:
            if cc:
                st.enter_context(labrea.cache.disabled())
            if lc:
                st.enter_context(labrea.logging.disabled())
            try:
                if m == "evaluate":
                    rec["phase"] = "evaluate"
                    raw = objs[i].evaluate(po)
                    rec["phase"] = "consume"
                    rec["raw"] = core.force(raw)
                    rec["out"] = "ok:" + core.show(rec["raw"])
                elif m == "validate":
                    rec["phase"] = "validate"
                    objs[i].validate(po)
                    rec["out"] = "ok:()"
                elif m == "keys":
                    rec["phase"] = "keys"
                    rec["out"] = "ok:" + core.show_keys(objs[i].keys(po))
                elif m in ("disable_effects", "enable_effects"):    # between evaluations, on the long-lived dataset
                    getattr(objs[i], m)()
                    rec["out"] = "ok:()"
                else:
                    rec["phase"] = "explain"
                    rec["out"] = "ok:" + core.show_keys(objs[i].explain(po))
                rec["phase"] = "ok"
            except RecursionError as exc:
                rec["exc"] = exc
                rec["out"] = "err:fuel:F"
                if any(exc is r for r in w.raised[n_raised:]):      # raised by user code, not by the interpreter's stack limit
                    rec["out"] = f"err:{core.classify(exc)[0]}:F"
            except Exception as exc:  # noqa
                rec["exc"] = exc
                c, ee = core.classify(exc)
                rec["out"] = f"err:{c}:{'T' if ee else 'F'}"
        rec["raised"] = w.raised[n_raised:]
        rec["calls"] = w.calls[n_calls:]
        rec["sets"] = w.sets[n_sets:]
        rec["before"] = before
        rec["after"] = {cid: dict(c._cache) for cid, c in w.caches.items()}
        recs.append(rec)
    return recs, objs, w


# ----------------------------------------------------------------------------- the oracle


def reach(obj, memo):
    """ids of the labrea objects reachable from obj through attributes / containers"""
    if id(obj) in memo:
        return memo[id(obj)]
    from labrea.types import Evaluatable
    seen, stack = {}, [obj]
    while stack:
        x = stack.pop()
        if id(x) in seen:
            continue
        seen[id(x)] = x
        if isinstance(x, (list, tuple, set, frozenset)):
            stack.extend(x)
        elif isinstance(x, dict):
            stack.extend(x.values())
            stack.extend(k for k in x if isinstance(k, Evaluatable))
        elif isinstance(x, functools.partial):
            stack.extend([x.func, x.args, x.keywords])
        elif isinstance(x, types.MethodType):
            stack.append(x.__self__)
        elif isinstance(x, types.FunctionType):
            for cell in x.__closure__ or ():
                try:
                    stack.append(cell.cell_contents)
                except ValueError:
                    pass
            stack.extend(x.__defaults__ or ())
        elif isinstance(x, Evaluatable) or type(x).__module__.startswith("labrea"):
            d = getattr(x, "__dict__", None)
            if d:
                stack.extend(d.values())
            for sl in getattr(type(x), "__slots__", ()) or ():
                if hasattr(x, sl):
                    stack.append(getattr(x, sl))
    memo[id(obj)] = seen
    return seen


def present(po, keytext):
    """is the dotted key present in the python options?  True / False / None (scalar parent)"""
    cur = po
    for part in keytext.split("."):
        if isinstance(cur, dict):
            if part not in cur:
                return False
            cur = cur[part]
        elif isinstance(cur, list):
            if not part.lstrip("-").isdigit() or not (-len(cur) <= int(part) < len(cur)):
                return False
            cur = cur[int(part)]
        else:
            return None
    return True


def shape_failures(rec, memo):
    """sentences 1 and 2 of the property on one failing evaluate op: type, source, chain, key"""
    from labrea.exceptions import EvaluationError, KeyNotFoundError
    from labrea.types import Evaluatable
    exc, X = rec["exc"], rec["obj"]
    out = []
    if isinstance(exc, RecursionError) and not any(exc is r for r in rec["raised"]):
        return out          # the interpreter's stack limit (a graph too deep for CPython), not a failure of user code
    if not isinstance(exc, EvaluationError):
        return [f"the failure is a {type(exc).__name__}, not an EvaluationError"]
    if rec["phase"] == "evaluate" and exc.source is not X:
        out.append(f"EvaluationError.source is {type(exc.source).__name__} object, not the object evaluate() was called on")
    ch = chain_of(exc)
    # every link above the original is an EvaluationError naming a labrea object nested in the previous one
    top = reach(X, memo)
    anchor = X
    for link in ch:
        if isinstance(link, EvaluationError):
            s = getattr(link, "source", None)
            if not isinstance(s, Evaluatable):
                out.append(f"a link of the cause chain has source {type(s).__name__}, not a labrea object")
                break
            if rec["phase"] == "evaluate" and id(s) in top:
                if id(s) not in reach(anchor, memo):
                    out.append("the sources along the cause chain are not nested in one another")
                    break
                anchor = s
    # no EvaluationError may sit UNDER a non-EvaluationError (the original is at the very end)
    kinds = [isinstance(x, EvaluationError) for x in ch]
    if any((not a) and b for a, b in zip(kinds, kinds[1:])):
        out.append("an EvaluationError is chained under a foreign exception")
    last = ch[-1]
    if type(last) is EvaluationError:
        out.append("the cause chain ends in a bare EvaluationError wrapper: the original exception is lost")
    # user exceptions: the very object that user code raised during this evaluation
    users = [x for x in ch if hasattr(x, "labrea_verif_n")]
    for u in users:
        if u is not last:
            out.append("a user exception is not the end of the cause chain")
        if not any(u is r for r in rec["raised"]):
            out.append("the user exception in the cause chain is not the object raised during this evaluation")
    # missing options: KeyNotFoundError with the key, the same key all the way, absent from the options
    knf = [x for x in ch if isinstance(x, KeyNotFoundError)]
    if knf:
        keys = {getattr(x, "key", None) for x in knf}
        if len(keys) != 1 or not isinstance(knf[-1].key, str):
            out.append(f"KeyNotFoundErrors of one chain name different keys: {sorted(map(repr, keys))}")
        elif present(rec["options"], knf[-1].key) is True:
            out.append(f"KeyNotFoundError names {knf[-1].key!r}, which IS present in the options")
        tail = ch[ch.index(knf[-1]) + 1:]
        if any(not isinstance(x, KeyError) for x in tail):
            out.append("a KeyNotFoundError is chained from something else than the raw KeyError of the lookup")
    elif isinstance(last, KeyError) and not hasattr(last, "labrea_verif_n") and rec["phase"] == "evaluate":
        # a raw KeyError of a lookup that never became a KeyNotFoundError (fingerprint of a cached
        # node whose keys() missed it): reported, the property wants the key on the error
        pass
    return out


def missing_key_of(rec):
    from labrea.exceptions import KeyNotFoundError
    knf = [x for x in chain_of(rec["exc"]) if isinstance(x, KeyNotFoundError)]
    return knf[-1].key if knf and isinstance(knf[-1].key, str) else None


def store_failures(rec, w):
    """sentence 3 on one failing op: whatever the failing evaluation stored is the value of a
    successful evaluation of the stored expression (a sub-evaluation), nothing else changed"""
    import labrea.cache
    out = []
    new = 0
    for cid in rec["after"]:
        b, a = rec["before"].get(cid, {}), rec["after"][cid]
        if any(k not in a for k in b):
            out.append(f"cache {cid}: entries disappeared during a failing evaluation")
        new += sum(1 for k in a if k not in b or a[k] is not b[k])
    if new > len(rec["sets"]):
        out.append("cache contents changed without a set() during a failing evaluation")
    soft = []
    for (cid, evaluatable, options, value) in rec["sets"]:
        if isinstance(value, BaseException):
            out.append(f"cache {cid}: an exception object was stored")
            continue
        try:
            with labrea.cache.disabled():
                again = evaluatable.evaluate(options)
                forced = core.force(again)
        except Exception as exc:  # noqa
            out.append(f"cache {cid}: a failing evaluation stored a value for an expression whose own evaluation fails "
                       f"({core.classify(exc)[0]})")
            continue
        if not _has_gen(value):      # a stored generator is consumed by its first reader (C01's D21)
            try:
                same = bool(forced == value) or core.show(forced) == core.show(value)
            except Exception:
                same = core.show(forced) == core.show(value)
            if not same:
                soft.append(f"cache {cid}: the stored value differs from the value of the stored expression")
    return out, soft


def _has_gen(v):
    import types as _t
    if isinstance(v, (_t.GeneratorType, map, filter)) or (hasattr(v, "__next__") and not isinstance(v, (str, bytes))):
        return True
    if isinstance(v, (list, tuple)):
        return any(_has_gen(x) for x in v)
    if isinstance(v, dict):
        return any(_has_gen(x) for x in v.values())
    return False


def masked_original(scn, rec):
    """sentence 1 at a coalesce (the shape of D20), decided with the public API on a fresh copy:
    the first member that passes validate() and then fails to evaluate is where things went wrong;
    its original exception must be in the chain of the error that surfaces"""
    from labrea.coalesce import Coalesce
    import labrea.cache
    X = rec["obj"]
    if not isinstance(X, Coalesce) or rec["phase"] != "evaluate":
        return None
    Y = fresh(scn, scn["ops"][rec["op"]][1])
    po = rec["options"]
    with labrea.cache.disabled():
        for m in Y.members[:-1]:
            try:
                m.validate(po)
            except Exception:  # noqa
                continue
            try:
                core.force(m.evaluate(po))
                return None
            except Exception as exc:  # noqa
                orig = core.classify(exc)[0]
                got = core.classify(rec["exc"])[0]
                if orig != got and (orig.startswith("user(") or orig in ("switch", "case")):
                    return dict(original=orig, surfaced=got)
                return None
    return None


def coalesce_raw(scn, rec):
    """coalesce moves on only for EvaluationErrors (public API, fresh copy): when the attempt on a
    member (validate, then evaluate) raises something else, that is what the coalesce must fail with;
    the members after it are not to be tried"""
    from labrea.coalesce import Coalesce
    from labrea.exceptions import EvaluationError
    import labrea.cache
    if not isinstance(rec["obj"], Coalesce):
        return None
    Y = fresh(scn, scn["ops"][rec["op"]][1])
    po = rec["options"]
    with labrea.cache.disabled():
        for m in Y.members:
            try:
                m.validate(po)
                core.force(m.evaluate(po))
                return None                      # this member gives the value
            except RecursionError:
                return None
            except EvaluationError:
                continue                         # passed over
            except Exception as exc:  # noqa
                want = core.classify(exc)[0]
                got = "ok" if rec["exc"] is None else core.classify(rec["exc"])[0]
                if got != want:
                    return dict(raw=f"{type(exc).__name__} ({want})", surfaced=got)
                return None
    return None


def switch_rule(scn, rec):
    """switch uses the default when the dispatch cannot be evaluated or its value is not registered --
    never because the chosen branch fails, never for a dispatch value that cannot be looked up
    (public API, fresh copy).  Returns (expected, got) when they differ in success / value."""
    from labrea.conditional import Switch
    from labrea.exceptions import EvaluationError
    from labrea._missing import MISSING
    import labrea.cache
    if not isinstance(rec["obj"], Switch) or rec["phase"] == "consume":
        return None
    Y = fresh(scn, scn["ops"][rec["op"]][1])
    po = rec["options"]
    with labrea.cache.disabled():
        chosen, expected = None, None
        try:
            k = core.force(Y.dispatch.evaluate(po))
        except RecursionError:
            return None
        except EvaluationError:
            chosen = None if Y.default is MISSING else Y.default
            expected = "err" if chosen is None else None
        except Exception:  # noqa
            return None
        else:
            try:
                hash(k)
            except TypeError:
                expected = "err"
            else:
                if k in Y.lookup:
                    chosen = Y.lookup[k]
                elif Y.default is not MISSING:
                    chosen = Y.default
                else:
                    expected = "err"
        if expected is None:
            try:
                expected = "ok:" + core.show(core.force(chosen.evaluate(po)))
            except RecursionError:
                return None
            except Exception:  # noqa
                expected = "err"
    got = rec["out"] if rec["exc"] is None else "err"
    return None if got == expected else dict(expected=expected[:200], got=got[:200])


def _lookup_plain(po, keytext):
    cur = po
    for part in keytext.split("."):
        cur = cur[part] if isinstance(cur, dict) else cur[int(part)]
    return cur


def _templated(x):
    if isinstance(x, str):
        return "{" in x or "}" in x or "\\" in x
    if isinstance(x, (list, tuple)):
        return any(_templated(y) for y in x)
    if isinstance(x, dict):
        return any(_templated(y) for y in x.values())
    return False


def option_rule(scn, rec, st=None):
    """an Option evaluated at the root, recomputed by hand from a fresh copy's public attributes: the value is the
    dictionary's (plain values only) or the default's; the domain test is `domain(value)` / `value in domain`
    carried out HERE: when it raises, that exception (its class) is the end of the chain; when it is false the
    evaluation fails with the library's ValueError; otherwise the value comes back"""
    from collections.abc import Container
    from labrea.option import Option
    from labrea._missing import MISSING
    import labrea.cache
    if type(rec["obj"]) is not Option or rec["phase"] == "consume":
        return None
    Y = fresh(scn, scn["ops"][rec["op"]][1])
    po = rec["options"]
    with labrea.cache.disabled():
        pres = present(po, Y.key)
        if pres is None:
            return None                       # a scalar parent (D6)
        try:
            if pres:
                value = _lookup_plain(po, Y.key)
                if _templated(value):
                    return None               # templated values: the correspondence covers them
            elif Y.default is MISSING:
                return None                   # the missing-option clauses decide
            else:
                value = core.force(Y.default.evaluate(po))
            if Y.domain is MISSING:
                expected = ("ok",)
            else:
                d = Y.domain.evaluate(po)
                if callable(d):
                    test = lambda: d(value)           # noqa
                elif isinstance(d, Container):
                    test = lambda: value in d         # noqa
                else:
                    test = lambda: True               # noqa
        except RecursionError:
            return None
        except Exception:  # noqa  the default / the domain expression itself fails: other clauses
            return None
        if Y.domain is not MISSING:
            try:
                expected = ("ok",) if test() else ("false",)
            except RecursionError:
                return None
            except Exception as exc:  # noqa
                expected = ("raises", type(exc))
                if st is not None:
                    st["root_option_domain_raises"] += 1
    last = chain_of(rec["exc"])[-1] if rec["exc"] is not None else None
    if expected[0] == "ok":
        if rec["exc"] is None and core.show(rec["raw"]) == core.show(value):
            return None
        return dict(expected="ok:" + core.show(value)[:150], got=rec["out"][:150])
    if expected[0] == "false":
        if last is not None and isinstance(last, ValueError) and not hasattr(last, "labrea_verif_n"):
            return None
        return dict(expected="the domain test is false: a ValueError of the library ends the chain", got=rec["out"][:150],
                    chain_end=type(last).__name__)
    if last is not None and type(last) is expected[1]:
        return None
    return dict(expected=f"the domain test raises {expected[1].__name__}: that exception ends the chain", got=rec["out"][:150],
                chain_end=type(last).__name__)


def case_rule(scn, rec):
    """case-when evaluated at the root, recomputed on a fresh copy with the public API: the cases in order, the
    first whose predicate is true for the dispatched value gives the result; a predicate (or a condition
    expression) that RAISES fails the evaluation -- it is not 'no match'; no case: the default, or failure"""
    from labrea.conditional import CaseWhen
    from labrea._missing import MISSING
    import labrea.cache
    if type(rec["obj"]) is not CaseWhen or rec["phase"] == "consume":
        return None
    Y = fresh(scn, scn["ops"][rec["op"]][1])
    po = rec["options"]
    expected = None
    with labrea.cache.disabled():
        try:
            try:
                v = core.force(Y.dispatch.evaluate(po))
            except RecursionError:
                raise
            except Exception:  # noqa
                expected = "err"
            chosen = None
            if expected is None:
                for cond, res in Y.cases:
                    try:
                        if cond.evaluate(po)(v):
                            chosen = res
                            break
                    except RecursionError:
                        raise
                    except Exception:  # noqa
                        expected = "err"
                        break
            if expected is None:
                if chosen is None:
                    chosen = None if Y.default is MISSING else Y.default
                if chosen is None:
                    expected = "err"
                else:
                    try:
                        expected = "ok:" + core.show(core.force(chosen.evaluate(po)))
                    except RecursionError:
                        raise
                    except Exception:  # noqa
                        expected = "err"
        except RecursionError:
            return None
    got = rec["out"] if rec["exc"] is None else "err"
    return None if got == expected else dict(expected=expected[:200], got=got[:200])


def has_handlers(scn, idx):
    """does the evaluated graph contain a construct that turns a failure into an attempt at something else
    (coalesce, switch with a default, a dataset with dispatch and a default implementation)?"""
    nodes = list(cp.sub_exprs(scn["exprs"][idx]))
    if any(isinstance(t, tuple) and t and t[0] == "dataset" for t in nodes):
        nodes += list(cp.sub_exprs(scn["env"]))
        if any(d.get("dispatch") is not None for d in scn["env"].values()):
            return True
    for t in nodes:
        if isinstance(t, tuple) and t and (t[0] == "coalesce" or (t[0] == "switch" and len(t) > 3 and t[3] is not None)):
            return True
    return False


def first_raise_rule(scn, rec):
    """graphs without handlers: the first exception that user code (body, step, callback, effect, predicate,
    container) raises during an evaluation fails it, and that very object is the end of the cause chain"""
    if not rec["raised"] or has_handlers(scn, scn["ops"][rec["op"]][1]):
        return None
    first = rec["raised"][0]
    if rec["exc"] is None:
        return dict(raised=type(first).__name__, got=rec["out"][:200],
                    what="user code raised during the evaluation, yet the evaluation returned a value")
    last = chain_of(rec["exc"])[-1]
    if last is first:
        return None
    return dict(raised=type(first).__name__, chain_end=type(last).__name__, got=rec["out"][:200],
                what="the exception object that user code raised first is not the end of the cause chain")


def own_cache_of(scn, idx):
    """(cache id, reason) of the cache that belongs to the root object of expression idx -- a dataset's cache, a
    cached node's cache -- when nothing nested inside the root shares it; else None"""
    e = scn["exprs"][idx]
    env = scn["env"]

    def base(dsid):
        while env[dsid].get("derived") is not None:
            dsid = env[dsid]["derived"]
        return dsid

    def inner_caches(x, seen):
        out = set()
        for t in cp.sub_exprs(x):
            if not (isinstance(t, tuple) and t):
                continue
            if t[0] == "cached" and len(t) == 3 and t[1] is not None:
                out.add(("c", t[1]))
            elif t[0] == "dataset" and len(t) == 2 and isinstance(t[1], int) and t[1] in env:
                b = base(t[1])
                out.add(("d", b))
                if b not in seen:
                    seen.add(b)
                    d = env[b]
                    out |= inner_caches([d.get("kwargs", []), d.get("dispatch"), [x for _, x in d.get("overloads", [])],
                                         d.get("callback"), d.get("effects", [])], seen)
        return out
    if e[0] == "dataset":
        b = base(e[1])
        d = env[b]
        if d.get("cache", "mem") != "mem":
            return None
        inside = inner_caches([d.get("kwargs", []), d.get("dispatch"), [x for _, x in d.get("overloads", [])],
                               d.get("callback"), d.get("effects", [])], {b})
        return None if ("d", b) in inside else b
    if e[0] == "cached" and e[1] is not None:
        inside = inner_caches(e[2], set())
        return None if ("c", e[1]) in inside or ("d", e[1]) in inside else e[1]
    return None


def own_store_failures(scn, rec):
    """a FAILED evaluation of a dataset / of a cached node adds nothing to, and changes nothing in, the cache
    of that very object (whatever succeeded inside it belongs to other caches)"""
    if rec["phase"] != "evaluate":
        return []
    cid = own_cache_of(scn, scn["ops"][rec["op"]][1])
    if cid is None:
        return []
    out = []
    b, a = rec["before"].get(cid, {}), rec["after"].get(cid, {})
    changed = [k for k in a if k not in b or a[k] is not b[k]]
    n = sum(1 for s in rec["sets"] if s[0] == cid)
    if changed or n:
        out.append(f"cache {cid} belongs to the object whose evaluation failed, yet the failed evaluation stored {max(len(changed), n)} "
                   f"entr{'y' if max(len(changed), n) == 1 else 'ies'} in it")
    return out


def stamps_in(v, fids, out):
    if isinstance(v, tuple):
        if len(v) >= 2 and isinstance(v[0], core.Tag) and v[0].f in fids and isinstance(v[1], int):
            out.append((v[0].f, v[1]))
        for x in v:
            stamps_in(x, fids, out)
    elif isinstance(v, list):
        for x in v:
            stamps_in(x, fids, out)
    elif isinstance(v, dict):
        for x in v.values():
            stamps_in(x, fids, out)
    return out


def resurfacing(scn, recs, w):
    """impure bodies stamp their values with their call counter: a value that the body of dataset D computed during an
    evaluation OF D that failed must never be returned by a later evaluation (nothing of it was stored)"""
    env = scn["env"]
    body_of = {}
    for dsid, d in env.items():
        if d.get("derived") is None and scn["ftable"].get(d.get("fid"), ("tag",))[0] == "count":
            body_of[d["fid"]] = dsid
    out = []
    if not body_of:
        return out

    def base(dsid):
        while env[dsid].get("derived") is not None:
            dsid = env[dsid]["derived"]
        return dsid
    for rec in recs:
        if rec is None or rec["method"] != "evaluate" or rec["exc"] is not None:
            continue
        for (fid, n) in stamps_in(rec["raw"], set(body_of), []):
            p = w.stamp_op.get((fid, n))
            if p is None or p == rec["op"] or recs[p] is None or recs[p]["exc"] is None or recs[p]["phase"] != "evaluate":
                continue
            root = scn["exprs"][scn["ops"][p][1]]
            if root[0] == "dataset" and base(root[1]) == body_of[fid]:
                out.append((rec["op"], p, fid, n))
                break
    return out


def set_key(o, key, v):
    """scenario options with the dotted key set (names only); None when impossible"""
    if any(s[0] != "n" for s in key):
        return None
    o2 = dict(o)
    cur = o2
    for s in key[:-1]:
        nxt = cur.get(s[1])
        if nxt is None:
            nxt = {}
        elif not isinstance(nxt, dict):
            return None
        nxt = dict(nxt)
        cur[s[1]] = nxt
        cur = nxt
    cur[key[-1][1]] = v
    return o2


def supply_values(key):
    """values to supply for a key of the universe: a list under the list key, a section under the section key"""
    if key == K(gen.LST):
        return [[1, 2], [0, lit("a")]]
    if key == K(gen.SEC):
        return [{gen.SX: 1}, {gen.SX: lit("a"), gen.SY: 2}]
    if key in (K(gen.DEEP[0]), K(gen.DEEP[0], gen.DEEP[1])) or key not in gen.KEYS:
        return []
    return [1, lit("a"), 2, 0]


def has_alternatives(scn, idx):
    """does the evaluated graph contain a handler that turns one failure into an attempt at something
    else (coalesce, switch with a default, an option whose default is itself an expression)?  Then the
    key that is reported is legitimately the LAST alternative's, not the one whose addition suffices."""
    nodes = list(cp.sub_exprs(scn["exprs"][idx]))
    if any(isinstance(t, tuple) and t and t[0] == "dataset" for t in nodes):
        nodes += list(cp.sub_exprs(scn["env"]))
        if any(d.get("dispatch") is not None and not d.get("abstract") for d in scn["env"].values()):
            return True
    for t in nodes:
        if not (isinstance(t, tuple) and t):
            continue
        if t[0] == "coalesce" or (t[0] == "switch" and len(t) > 3 and t[3] is not None):
            return True
        if t[0] == "option" and len(t) > 2 and t[2] is not None:
            return True     # an absent key with a default is optional: supplying it steers, it is never "the" missing key
    return False


def parse_key_safe(text):
    try:
        return core.parse_key(text)
    except Exception:
        return None


def extend_with_supplies(scn, rng, limit=3):
    """after (some) evaluations that fail for a missing option, evaluate again with it supplied"""
    recs, _, _ = run_history(scn)
    ops, marks = [], []
    added = 0
    for rec, op in zip(recs, scn["ops"]):
        ops.append(op)
        if rec["exc"] is None or op[0] != "evaluate" or added >= limit:
            continue
        k = missing_key_of(rec)
        key = parse_key_safe(k) if k else None
        if key is None:
            continue
        vals = supply_values(key)
        o2 = set_key(op[4], key, rng.choice(vals)) if vals else None
        if o2 is None:
            continue
        marks.append(len(ops))
        ops.append(("evaluate", op[1], op[2], op[3], o2))
        added += 1
    return dict(scn, ops=ops), marks


def unique_missing(scn, idx, o, cc):
    """independent computation of THE missing key: the only key of the universe whose addition
    (alone) makes a fresh copy evaluate; None when there is no such unique key"""
    good = []
    for key in gen.KEYS:
        if present(core.py_json(o), core.key_text(key)) is not False:
            continue
        for v in supply_values(key)[:3]:
            o2 = set_key(o, key, v)
            if o2 is None:
                break
            if cp.fresh_eval(scn, idx, o2).startswith("ok:"):
                good.append(core.key_text(key))
                break
        if len(good) > 1:
            return None
    return good[0] if len(good) == 1 else None


def oracle(scn, marks=(), budget=None, model=None, impl_lines=None, diffs=None):
    """all sentences of the property on one history; returns (violations, stats).
    With scn['inplace'] the whole history (and the histories with one failed evaluation deleted) hands ONE options
    dictionary object to every operation, edited in place in between; diffs (a list) then receives the operations
    whose outcome differs from impl_lines, the outcome of the same history run with a fresh dictionary per call."""
    budget = budget if budget is not None else dict(delete=2, unique=3)
    recs, objs, w = run_history(scn)
    if diffs is not None and impl_lines is not None and len(impl_lines) == len(recs):
        for rec, il in zip(recs, impl_lines):
            if rec["method"] in ("evaluate", "validate", "keys", "explain") and core.canon_names(rec["out"]) != cp.split(il)[0]:
                diffs.append((rec["op"], rec["out"], cp.split(il)[0]))
                break
    memo = {}
    viols = []
    st = dict(failing_evals=0, ok_evals=0, user_chain_ends=0, key_chain_ends=0, switch_case_ends=0, other_ends=0,
              deferred=0, sets_in_failing=0, deletions=0, deletion_ops_compared=0, supplies=0, supplies_ok=0,
              unique_key_checked=0, c01_zone_skipped=0, masked_checked=0, raw_keyerror_ends=0,
              root_options_recomputed=0, root_option_domain_raises=0, root_cases_recomputed=0, first_raise_checked=0,
              own_cache_checked=0, stamped_values=0)

    def dirty_upto(j):
        return model is not None and any(cp.is_dirty(model[t]) for t in range(min(j + 1, len(model))))

    def agrees(j):
        return model is not None and impl_lines is not None and cp.agrees(impl_lines, model, scn, upto=j)

    def add(j, desc, finding=None, **kw):
        viols.append(dict(desc=desc, op_index=j, op=repr(scn["ops"][j])[:300], finding=finding,
                          scenario_repr=cp.dump_scn(scn), **kw))

    failing = []
    for rec in recs:
        if rec["method"] != "evaluate":
            continue
        j = rec["op"]
        sr = switch_rule(scn, rec)
        if sr is not None:
            if dirty_upto(j) and agrees(j):
                st["c01_zone_skipped"] += 1
            else:
                add(j, "switch: the outcome is not that of the branch registered under the dispatch value / of the default when the "
                       "dispatch cannot be evaluated or is not registered", check="switch", **sr)
        if type(rec["obj"]).__name__ == "Option" and rec["phase"] != "consume":
            st["root_options_recomputed"] += 1
            orr = option_rule(scn, rec, st)
            if orr is not None:
                if dirty_upto(j) and agrees(j):
                    st["c01_zone_skipped"] += 1
                else:
                    add(j, "option: the outcome is not the one recomputed by hand (the dictionary's value or the default's, then the "
                           "domain test: an exception raised by the test ends the cause chain, a false test is the library's ValueError)",
                        check="option", **orr)
        if type(rec["obj"]).__name__ == "CaseWhen" and rec["phase"] != "consume":
            st["root_cases_recomputed"] += 1
            crr = case_rule(scn, rec)
            if crr is not None:
                if dirty_upto(j) and agrees(j):
                    st["c01_zone_skipped"] += 1
                else:
                    add(j, "case-when: the outcome is not that of the first case whose predicate is true for the dispatched value "
                           "(a predicate that raises fails the evaluation; it is not 'no match')", check="case", **crr)
        if rec["raised"]:
            fr = first_raise_rule(scn, rec)
            if not has_handlers(scn, scn["ops"][j][1]):
                st["first_raise_checked"] += 1
            if fr is not None:
                add(j, "no handler in the graph: " + fr.pop("what"), check="first_raise", **fr)
        cr = coalesce_raw(scn, rec)
        if cr is not None:
            add(j, "coalesce: the attempt on a member raised an exception that is not an EvaluationError, yet the coalesce "
                   "went on to later members instead of failing with it", check="coalesce_raw", **cr)
        if rec["exc"] is None:
            st["ok_evals"] += 1
            continue
        st["failing_evals"] += 1
        failing.append(j)
        if rec["phase"] == "consume":
            st["deferred"] += 1
        for d in shape_failures(rec, memo):
            add(j, d, check="shape")
        last = chain_of(rec["exc"])[-1]
        from labrea.conditional import SwitchError, CaseWhenError
        if hasattr(last, "labrea_verif_n"):
            st["user_chain_ends"] += 1
        elif missing_key_of(rec):
            st["key_chain_ends"] += 1
        elif isinstance(last, (SwitchError, CaseWhenError)):
            st["switch_case_ends"] += 1
        elif isinstance(last, KeyError):
            st["raw_keyerror_ends"] += 1
        else:
            st["other_ends"] += 1
        hard, soft = store_failures(rec, w)
        if impure(scn):
            soft = []      # re-evaluating an impure expression legitimately gives another value
        st["sets_in_failing"] += len(rec["sets"])
        for d in hard:
            add(j, d, check="store")
        for d in soft:
            if dirty_upto(j) and agrees(j):
                st["c01_zone_skipped"] += 1
            else:
                add(j, d, check="store")
        if rec["phase"] == "evaluate" and own_cache_of(scn, scn["ops"][j][1]) is not None:
            st["own_cache_checked"] += 1
        for d in own_store_failures(scn, rec):
            add(j, d, check="own_store")
        mo = masked_original(scn, rec)
        if mo is not None:
            st["masked_checked"] += 1
            add(j, "coalesce: a member passes validate() and then fails to evaluate; the error that surfaces is a later "
                   "member's and the member's original exception is not in its cause chain",
                finding="D20" if agrees(j) else None, check="masked", **mo)
        # the key that is reported, against an independent computation of the only missing key
        k = missing_key_of(rec)
        if k and rec["phase"] == "evaluate" and budget["unique"] > 0 and not has_alternatives(scn, scn["ops"][j][1]):
            budget["unique"] -= 1
            op = scn["ops"][j]
            u = unique_missing(scn, op[1], op[4], op[2])
            if u is not None:
                st["unique_key_checked"] += 1
                if u != k and not (k + ".").startswith(u + ".") and not (u + ".").startswith(k + "."):
                    add(j, f"exactly one option is missing ({u}) but the error names {k!r}", check="key")

    # values computed by a failed evaluation never come back (impure, call-counting bodies)
    st["stamped_values"] += len(w.stamp_op)
    for (t, p_, fid, n_) in resurfacing(scn, recs, w):
        add(t, f"the value returned was computed by the body (call {n_} of function {fid}) during op {p_}, an evaluation of the same "
               f"dataset that FAILED: the failed evaluation stored it", check="resurfacing", computed_in=p_, got=recs[t]["out"][:200])

    # a failed evaluation changes no later outcome: the same history without it
    for j in failing[:budget["delete"]]:
        st["deletions"] += 1
        recs2, _, _ = run_history(scn, skip=j)
        for t in range(j + 1, len(recs)):
            if recs[t]["method"] != "evaluate":
                continue
            st["deletion_ops_compared"] += 1
            if recs[t]["out"] != recs2[t]["out"]:
                a, b = recs[t], recs2[t]
                if a["out"].startswith("ok:") and b["out"].startswith("ok:"):
                    try:
                        if bool(a["raw"] == b["raw"]):
                            continue
                    except Exception:
                        pass
                if dirty_upto(t) and agrees(t):
                    st["c01_zone_skipped"] += 1
                else:
                    add(t, f"the outcome of a later evaluation depends on the failed evaluation (op {j}) having happened",
                        check="deletion", deleted=j, with_failure=a["out"][:200], without=b["out"][:200])
                break

    # supplying the missing option afterwards: as on a fresh copy of the graph
    for t in marks:
        rec = recs[t]
        st["supplies"] += 1
        op = scn["ops"][t]
        fl, fr = cp.fresh_eval(scn, op[1], op[4], raw=True)
        line = rec["out"] + "|"
        if rec["out"].startswith("ok:"):
            st["supplies_ok"] += 1
        if not cp.same_outcome(line, rec["raw"], fl, fr):
            if dirty_upto(t) and agrees(t):
                st["c01_zone_skipped"] += 1
            else:
                add(t, "after a failed evaluation, evaluating with the missing option supplied differs from a fresh copy of the graph",
                    check="supply", got=rec["out"][:200], fresh=cp.split(fl)[0][:200])
        elif rec["exc"] is not None and missing_key_of(rec) == missing_key_of(recs[t - 1]) and missing_key_of(rec):
            add(t, f"the option {missing_key_of(rec)!r} was supplied and is reported missing again", check="supply")
    return viols, st


# ----------------------------------------------------------------------------- entry points


def tolerate(mism, scns, models):
    """two artefacts of the shared tolerant comparison that are not differences of behaviour:
    (a) after an operation the model declares outside its universe ('unmod') the two stores may differ,
        so later cache hits/misses of that history are not comparable;
    (b) a templated value with several references of which one is absent and another passes through a
        scalar parent: which of the two errors (missing key / TypeError) comes first follows Python's set order"""
    index = {cp.dump_scn(s): i for i, s in enumerate(scns)}
    keep, dropped = [], {"after_unmodelled": 0, "set_order": 0}
    for mm in mism:
        i = index.get(mm.get("scenario_repr"))
        j = mm.get("op_index")
        if i is None or j is None:
            keep.append(mm)
            continue
        if any("unmod" in l for l in models[i][:j]):
            dropped["after_unmodelled"] += 1
            continue
        a, b = cp.split(mm["impl"])[0], cp.split(mm["model"])[0]
        s = scns[i]
        multi = cp._multi_ref(s["exprs"]) or cp._multi_ref(s["env"]) or cp._multi_ref([op[4] for op in s["ops"]])
        kinds = {x.split(":")[1].split("(")[0] for x in (a, b) if x.startswith("err:")}
        if multi and a.startswith("err:") and b.startswith("err:") and kinds <= {"type", "key"}:
            dropped["set_order"] += 1
            continue
        keep.append(mm)
    return keep, dropped


def run(ctx):
    n = 600 if ctx.quick else 6000
    corpus = [s for _, s in corpus_for(PID)]
    fixed = corpus + FAMILY + [D20_WITNESS["scn"]]
    scns, marks = [], []
    for s in fixed:
        scns.append(s)
        marks.append([])
    for s in generate(ctx, n):
        try:
            s2, mk = extend_with_supplies(s, ctx.rng)
        except RecursionError:
            continue
        scns.append(s2)
        marks.append(mk)
    n_random = len(scns)
    directed = gen_predicates(ctx.rng, 120 if ctx.quick else 1200) + gen_effects(ctx.rng, 80 if ctx.quick else 800)
    for s in directed:
        scns.append(s)
        marks.append([])
    extended = gen_extended(ctx.rng, 150 if ctx.quick else 1500)
    # (own generator: the streams above are the ones they were before this stream existed)
    repair = gen_repair(random.Random(ctx.seed * 31 + 12), 100 if ctx.quick else 1000)
    directed += repair
    for s in repair:
        scns.append(s)
        marks.append([])
    # exception classes from the whole hierarchy (own generator), through the model like the streams above
    zrng = random.Random(ctx.seed * 31 + 1201)
    zoo = []
    for s, is_random in gen_zoo(ctx, zrng, 120 if ctx.quick else 1600):
        try:
            s2, mk = extend_with_supplies(s, zrng, limit=1) if is_random else (s, [])
        except RecursionError:
            continue
        zoo.append(s2)
        scns.append(s2)
        marks.append(mk)
    # objects of user-defined Evaluatable classes (own generator): oracle, plus the model on what they compute
    users = gen_userclasses(random.Random(ctx.seed * 31 + 1202), 100 if ctx.quick else 1200)
    extended += users
    impls, models, mism, stats = cp.correspondence(ctx, scns, "Cases_C12")
    mism, tolerated = tolerate(mism, scns, models)
    user_ops, user_mism = user_correspondence(ctx, users)
    mism += user_mism
    violations, tagged, distinct = [], {}, set()
    totals = {}
    unique_budget = 400 if ctx.quick else 4000
    for scn, mk, il, ml in zip(scns, marks, impls, models):
        budget = dict(delete=2 if ctx.quick else 3, unique=min(3, unique_budget))
        before = budget["unique"]
        try:
            v, st = oracle(scn, mk, budget=budget, model=ml if len(ml) == len(il) else None, impl_lines=il)
        except RecursionError:
            continue
        unique_budget -= before - budget["unique"]
        for k, x in st.items():
            totals[k] = totals.get(k, 0) + x
        for x in v[:2]:
            if x["finding"]:
                tagged[x["finding"]] = tagged.get(x["finding"], 0) + 1
            violations.append(x)
        if st["failing_evals"] and st["ok_evals"]:
            distinct.add(lib.stable_hash(cp.dump_scn(scn)))
    # the stream the model cannot express: the oracle alone
    ext_totals = {}
    for scn in extended:
        try:
            v, st = oracle(scn, (), budget=dict(delete=0 if impure(scn) else (2 if ctx.quick else 3), unique=0))
        except RecursionError:
            continue
        for k, x in st.items():
            ext_totals[k] = ext_totals.get(k, 0) + x
        violations.extend(v[:2])
        if st["failing_evals"] and st["ok_evals"]:
            distinct.add(lib.stable_hash(cp.dump_scn(scn)))
    # every history once more on ONE options dictionary object that the caller edits in place between the
    # operations (all sentences of the property again; the histories with a failed evaluation deleted too).
    # Object identity is outside the model (values only): the outcomes must be those of the fresh-dictionary run.
    inplace_totals, inplace_diffs = {}, 0
    t_inplace = time.time()
    for scn, mk, il, ml in list(zip(scns, marks, impls, models)) + [(s, (), None, None) for s in extended]:
        if not any(op[0] == "evaluate" for op in scn["ops"]):
            continue
        scn2 = dict(scn, inplace=True)
        diffs = []
        ext = bool(scn.get("ext"))
        try:
            v, st = oracle(scn2, mk, budget=dict(delete=0 if impure(scn) else (2 if ctx.quick else 3), unique=0),
                           model=ml if (ml is not None and len(ml) == len(il)) else None, impl_lines=il, diffs=diffs)
        except RecursionError:
            continue
        for k, x in st.items():
            inplace_totals[k] = inplace_totals.get(k, 0) + x
        for x in v[:2]:
            if x["finding"]:
                tagged[x["finding"]] = tagged.get(x["finding"], 0) + 1
            x["desc"] += " [history run on one options dictionary object edited in place between the operations]"
            violations.append(x)
        for (j, got, want) in diffs:
            inplace_diffs += 1
            if cp.agrees(il, ml, scn, upto=j) if (ml is not None and len(ml) == len(il)) else False:
                mism.append(dict(where="Model/Eval.v (values only) vs labrea on a history handing ONE options dictionary object, edited in "
                                       "place, to every operation", op_index=j, op=repr(scn["ops"][j])[:300], impl=got,
                                 model=cp.strip_ghost(ml[j]), scenario_repr=cp.dump_scn(scn2)))
    t_inplace = round(time.time() - t_inplace, 1)
    # known finding: witness replay
    wv, _ = oracle(D20_WITNESS["scn"], model=models[len(fixed) - 1], impl_lines=impls[len(fixed) - 1])
    known = [dict(id="D20", still_fails=any(x.get("check") == "masked" for x in wv), what=D20_WITNESS["what"])]
    oracle_checks = (totals.get("failing_evals", 0) + totals.get("deletion_ops_compared", 0) + totals.get("supplies", 0)
                     + ext_totals.get("failing_evals", 0) + ext_totals.get("ok_evals", 0) + ext_totals.get("deletion_ops_compared", 0)
                     + inplace_totals.get("failing_evals", 0) + inplace_totals.get("ok_evals", 0) + inplace_totals.get("deletion_ops_compared", 0))
    return {
        "evaluations": stats["ops"] + oracle_checks,
        "distinct_nontrivial": len(distinct),
        "rule": "random expression graphs (datasets with overloads / callbacks / effects, options with defaults, domains and templated values, "
                "apply, bind, switch, case, coalesce, collections, Iter, Map, Template, WithOptions, cached) in which about a third of the user "
                "callables (bodies, pipeline steps, callbacks, effects, case and domain predicates) raise one of 8 exception types on a chosen "
                "input or always; histories of 11+ operations (evaluate mostly) over a pool of adversarially perturbed dictionaries on one "
                "long-lived graph, extended with 're-evaluate with the missing option supplied' operations; plus hand-written histories, one per "
                "clause of the anchored code; directed streams (also through the model): option domains / case-when predicates raising each "
                "exception class on a chosen value or always, at the root and nested; cached datasets whose body / callback / effects raise, the "
                "same dictionary evaluated again after the failure, with LABREA.EFFECTS.DISABLED, with the cache off, through a second dataset; "
                "an oracle-only stream: container domains (set, frozenset, dict, tuple, user container classes) tested with unhashable values, "
                "plain-Python predicates raising genuine exceptions, call-counting bodies with flaky effects, disable_effects()/enable_effects() "
                "between evaluations; a directed 'it failed - fix the dictionary and try again' stream (cache sites that receive the caller's own "
                "options object: labrea.cached(...) at the root and nested; datasets, with_options copies, cached nodes around datasets; the failing "
                "dictionary, repaired ones, the failing one again, validate() in between). EVERY history of every stream is run a second time on ONE "
                "options dictionary object that the caller edits in place between the operations (all oracle clauses again, incl. the histories with a "
                "failed evaluation deleted); the outcomes must also equal the fresh-dictionary run the model was compared with. Exception zoo: the random, predicate, "
                "effect and repair streams once more with user code raising instances of builtin classes themselves (RecursionError, MemoryError, KeyError, "
                "StopIteration, AssertionError, OSError / LookupError / ArithmeticError subclasses, UnicodeDecodeError, an ExceptionGroup, a Warning) and user "
                "classes with two bases, keyword-only / two-argument __init__, raising __str__, falsy / equal-to-everything (through the model too: class "
                "numbers). User-defined Evaluatable classes: subclasses of Option (depth 1, depth 2, evaluate supplied by a mixin) and of the user's own "
                "Evaluatable base class (depth 0, 1, 2) overriding evaluate() with raising user code, at the root, nested, below one another, as coalesce "
                "member and switch dispatch (oracle; and against the model on the function applications they compute). non-trivial = the history contains at least one failing AND one succeeding evaluation; distinct by "
                "hash of the scenario",
        "samples": [dict(exprs=repr(s["exprs"])[:400], first_ops=[repr(o)[:160] for o in s["ops"][:3]], observed=il[:3])
                    for s, il in list(zip(scns, impls))[len(fixed):len(fixed) + 3]],
        "traces_validated_against_impl": stats["ops"] + user_ops,
        "correspondence_mismatches": mism[:5],
        "violations": violations,
        "known": known,
        "distribution": dict(stats, scenarios=len(scns), random_scenarios=n_random - len(fixed), directed_scenarios=len(directed),
                             oracle_only_scenarios=len(extended), oracle=totals, oracle_on_oracle_only_stream=ext_totals,
                             repair_scenarios=len(repair), zoo_scenarios=len(zoo), zoo_classes=[nm for nm, _ in ZOO.values()],
                             user_class_scenarios=len(users), user_class_ops_vs_model=user_ops, oracle_on_one_dictionary_object_edited_in_place=inplace_totals,
                             in_place_outcomes_differing_from_fresh_dictionary_run=inplace_diffs, in_place_pass_wall_s=t_inplace,
                             oracle_failures_tagged=tagged, correspondence_differences_tolerated=tolerated),
        "exhaustive": False,
        "assumptions": ["in the streams that run through the model, user code is deterministic and raises the exception classes of the harness (8 base classes incl. KeyError, TypeError, ValueError) "
                        "or of the zoo (Exception subclasses only: KeyboardInterrupt / SystemExit / GeneratorExit are not wrapped by the library as it is, by design of its `except Exception`)",
                        "a RecursionError is taken for the interpreter's stack limit (no verdict) only when it is NOT an exception object that user code raised during the operation",
                        "user-defined Evaluatable classes never call super().evaluate() from their override (on the library as it is that re-enters the override: outside the property)",
                        "cyclic template references excluded; floats not generated",
                        "in-place histories replace the dictionary's TOP-LEVEL contents in place (the object handed to evaluate() is the same every time, its "
                        "nested values are fresh objects): mutating a nested value object that an earlier evaluation returned / memoised is the caller editing "
                        "a result, not covered",
                        "exceptions leaving validate()/keys()/explain() are compared with the model only (they may be raw; not part of the property)",
                        "'later outcomes do not depend on the failed evaluation' is skipped inside the recorded stale-hit zones of C01 (model's dirty marker), "
                        "where a SUCCESS stored by the failing run is what changes the outcome"],
        "trusted_base": ["confectioner functions and CPython json/str/dict are modelled (Model/Base.v, Model/Template.v), validated by this correspondence run",
                         "the identity / chain / .source / cache-content part of the property lives in CPython objects: decided by the oracle of this module on the implementation only"],
    }


def replay(ctx, payload):
    scn = cp.load_scn(payload["scenario_repr"])
    if scn.get("ext"):      # the oracle-only stream: outside the model's universe
        v, st = oracle(scn, budget=dict(delete=0 if impure(scn) else len(scn["ops"]), unique=0))
        recs, _, _ = run_history(scn)
        return bool([x for x in v if not x["finding"]]), dict(
            oracle_failures=[{k: x[k] for k in x if k != "scenario_repr"} for x in v][:10],
            impl=[r["out"] for r in recs], model="(not expressible in the model)", check=payload.get("check"))
    il = core.run_impl(scn)
    ml = ctx.coq_eval("Replay_C12", cp.REQ, "", [core.coq_scenario(scn)])[0].split(" ## ")
    v, st = oracle(scn, budget=dict(delete=len(scn["ops"]), unique=len(scn["ops"])), model=ml if len(ml) == len(il) else None, impl_lines=il)
    fresh = [x for x in v if not x["finding"]]
    wanted = payload.get("check")
    still = bool(fresh) or not cp.agrees(il, ml, scn)
    return still, dict(oracle_failures=[{k: x[k] for k in x if k != "scenario_repr"} for x in v][:10], impl=il,
                       model=[cp.strip_ghost(x) for x in ml], check=wanted)
