"""C16 - feature switches change side behaviour only, never values.

Histories on ONE long-lived graph in which every operation carries its own switch configuration
(cache: on / LABREA.CACHE.DISABLED / LABREA.CACHE.DISABLE / labrea.cache.disabled() / nocache;
effects: on / LABREA.EFFECTS.DISABLED / Dataset.disable_effects(); logging: on /
LABREA.LOGGING.DISABLED / labrea.logging.disabled()) - the full 5 x 3 x 3 cross product.

1. correspondence: the same history is run by the model (Model/Eval.v through EvalRun.run_scenario;
   the per-dataset toggles are expression transformations: the graph is rendered once per toggle
   set, all renderings share the cache identifiers) and by labrea; observation lines are compared.
2. the property's own oracle on the implementation (no model involved):
   V  value / failure class of every evaluation = the same operation of the same history run on a
      twin graph with all switches off;
   C  caching disabled => no cache object method is called, cache contents are unchanged, the user
      code that runs is exactly the user code of a fresh graph evaluated with caching disabled by
      ANOTHER mechanism (every evaluation recomputes);
   E  effects disabled => no effect callback runs; effects on => the effects of a dataset run once
      per evaluation of it that is not served from its cache;
   L  per evaluation of a dataset (observed through an EvaluateRequest handler): served from its
      cache => no log request; otherwise exactly one, level INFO, naming the dataset; logging
      disabled => no `logging` record at all, otherwise one INFO record per request.
   O  a switch that is present but OFF is off: a history in which every switch of every operation
      so far is off - given as explicit false values, as option templates resolving to false
      values, in partially supplied LABREA sections - is indistinguishable (outcome, user code,
      cache traffic, log requests, records) from the same history with no LABREA section at all.

   I  (family `direct`) the public wrappers used WITHOUT a dataset around them - labrea.cached / Cached,
      Computation, Logged at the root of the evaluated expression, so that the caller's dictionary
      reaches the switch readers unmixed - evaluated with ONE long-lived options dictionary object
      that the caller rewrites IN PLACE between evaluations (the top-level object and the LABREA
      section objects persist, the switches flip inside them): all clauses above apply to it, and the
      history is indistinguishable from the same history with a fresh dictionary object per
      evaluation (the switches are read from the dictionary's CONTENT at each evaluation).  This
      family is compared with the model too (the model sees the same dictionaries).

   K  (family `kinds`) the LABREA section and its CACHE / EFFECTS / LOGGING subsections given as other
      legitimate kinds of mapping (a dict subclass, OrderedDict, defaultdict, ChainMap in several layerings,
      UserDict, a user collections.abc.Mapping, MappingProxyType where the unchanged library evaluates such
      options at all): all clauses above apply, and the history is indistinguishable from the same history
      with the same sections spelled as plain dicts.  Compared with the model too (same content).

Two further scenario families, compared with the property's oracle only (Model/Eval.v reads the
switches with a raw lookup - `flag_at`: no template resolution - and has no log effect):
  forms   switch values given as option templates ('{K40}', chains, dotted references) resolving
          to true / false values, and LABREA sections supplied in part (empty (sub)sections);
  logfx   datasets carrying labrea.logging.LogEffect effects and Logged wrappers at levels below,
          at and above INFO (DEBUG .. CRITICAL): they are effects (E) and log requests (L) alike.
"""
import contextlib
import logging as pylogging

import coreprop as cp
import core
import gen
import lib
from gen import K
from witnesses import WITNESSES

PID = "C16"
COQ_TARGETS = cp.COQ_TARGETS
KNOWN = ["D19", "D1", "D3", "D4", "D9", "D21"]

CACHE_MODES = ["on", "DISABLED", "DISABLE", "ctx", "nocache"]
EFFECT_MODES = ["on", "option", "toggle"]
LOG_MODES = ["on", "option", "ctx"]
CANON = getattr(core, "canon_names", lambda text: text)
ALL_CONFIGS = [(c, e, l) for c in CACHE_MODES for e in EFFECT_MODES for l in LOG_MODES]
LAB, CACHE, DISABLED, DISABLE, EFFECTS, LOGGING = 1, 2, 3, 4, 5, 6


# ----------------------------------------------------------------------------- scenarios

class Gen16(gen.Gen):
    """profile of C16: datasets with effects and caches; no with_options derivatives (a derivative
    copies the cache object and the toggle of its base at creation, which the per-evaluation
    set_cache/disable_effects flips of this check would have to track separately)"""

    def __init__(self, rng, effect_kind="plain", **kw):
        super().__init__(rng, **kw)
        self.effect_kind = effect_kind

    def derived(self, dsid, base):
        self.dataset(dsid)

    def dataset(self, dsid):
        super().dataset(dsid)
        d = self.env[dsid]
        rng = self.rng
        d.pop("effects_disabled", None)
        if self.f["with_effects"] and rng.random() < 0.6:
            effs = []
            for _ in range(rng.randint(1, 2)):
                if self.effect_kind == "failing" and rng.random() < 0.7:
                    if rng.random() < 0.4:
                        effs.append(("pstep", self.newf(("raise", rng.randint(1, 7))), []))
                    else:   # a callback that needs an option (K13 is never supplied): fails validation too
                        effs.append(("pstep", self.newf(("tag",)), [("option", rng.choice([K(10), K(13)]), None, None)]))
                elif self.effect_kind == "reading" and rng.random() < 0.5:
                    # reads an option (finding D9's zone) but cannot fail: K30 holds a list of
                    # scalars when present (never a templated string), and there is a default
                    effs.append(("pstep", self.newf(("tag",)),
                                 [("option", K(gen.LST), ("value", ("j", 0)), None)]))
                else:
                    effs.append(("pstep", self.newf(("tag",)), []))
            d["effects"] = effs
            if rng.random() < 0.1:
                d["effects_disabled"] = True      # statically disabled from the start
        d["cache"] = "none" if rng.random() < 0.08 else "mem"


def lab_section(cfg, rng, p_off=None):
    """p_off: probability that a switch that is off is nevertheless present with a false value"""
    cm, em, lm = cfg
    sec = {}
    if cm == "DISABLED":
        sec[CACHE] = {DISABLED: rng.choice([True, True, 1])}
        if rng.random() < 0.2:
            sec[CACHE][DISABLE] = False          # DISABLED wins over DISABLE
    elif cm == "DISABLE":
        sec[CACHE] = {DISABLE: True}
    elif cm in ("on", "nocache") and rng.random() < (0.15 if p_off is None else p_off):
        # explicit "not disabled" spellings, including DISABLED=False shadowing DISABLE=True
        sec[CACHE] = rng.choice([{DISABLED: False}, {DISABLE: False}, {DISABLED: False, DISABLE: True}, {DISABLED: 0}])
    if em == "option":
        sec[EFFECTS] = {DISABLED: True}
    elif rng.random() < (0.1 if p_off is None else p_off):
        sec[EFFECTS] = {DISABLED: False}
    if lm == "option":
        sec[LOGGING] = {DISABLED: True}
    elif rng.random() < (0.1 if p_off is None else p_off):
        sec[LOGGING] = {DISABLED: False}
    return sec


def with_lab(o, sec, rng):
    if not sec:
        return dict(o)
    if rng.random() < 0.5:
        return dict(list(o.items()) + [(LAB, sec)])
    return dict([(LAB, sec)] + list(o.items()))


def strip_lab(o):
    return {k: v for k, v in o.items() if k != LAB}


def make_scenario(rng, i, n_ops, configs):
    """one graph + one history; `configs` is an iterator over the 45 switch configurations"""
    kind = "plain"
    if i % 9 == 4:
        kind = "reading"
    if i % 9 == 7:
        kind = "failing"
    g = Gen16(rng, effect_kind=kind, with_alloptions=(i % 10 == 0), with_effects=True,
              preset_on_ds=0.3 if i % 2 else 0.0, with_map=(i % 3 != 0))
    base = g.scenario(n_exprs=2, depth=3, n_ops=0)
    exprs = list(base["exprs"])
    if i % 11 == 5:     # an expression that READS a switch key (excluded from the value claim)
        exprs[1] = ("call", g.newf(("tag",)), [("option", K(LAB, CACHE, DISABLE), ("value", ("j", False)), None), exprs[1]])
    ds_ids = list(g.env)
    if not any(e[0] == "dataset" for e in exprs):
        exprs[0] = ("dataset", rng.choice(ds_ids))
    pool = g.dict_pool()
    ops, extra, cfgs = [], [], []
    # a few (expression, dictionary) pairs revisited under changing switches: flips on warm caches
    focus = [(rng.randrange(len(exprs)), dict(rng.choice(pool))) for _ in range(3)]
    for _ in range(n_ops):
        # the cross product is drawn from the stream; a third of the operations keep the cache on
        # (random effects / logging modes) so that the switched-off ones meet warm caches
        cfg = ("on", rng.choice(EFFECT_MODES), rng.choice(LOG_MODES)) if rng.random() < 0.33 else next(configs)
        idx, o = rng.choice(focus) if rng.random() < 0.8 else (rng.randrange(len(exprs)), dict(rng.choice(pool)))
        m = "evaluate" if rng.random() < 0.85 else rng.choice(["validate", "keys", "explain"])
        if kind == "failing" and rng.random() < 0.4:
            m = "validate"
        cm, em, lm = cfg
        o2 = with_lab(o, lab_section(cfg, rng), rng)
        tog = tuple(ds_ids) if em == "toggle" else ()
        noc = tuple(ds_ids) if cm == "nocache" else ()
        ops.append((m, idx, cm == "ctx", lm == "ctx", o2))
        extra.append((tog, noc))
        cfgs.append(cfg)
    reads_switch = (i % 11 == 5) or (i % 10 == 0)
    return dict(ftable=dict(g.ftable), env=dict(g.env), exprs=exprs, ops=ops, extra=extra, cfgs=cfgs,
                effect_kind=kind, reads_switch=reads_switch)


# ----------------------------------------------------------------------------- family `forms`:
# switch values as option templates / partially supplied LABREA sections (oracle only)

T_BASE = {"cache": 40, "effects": 50, "logging": 60}     # helper option names K40.., read by no graph


def switch_form(rng, which, disabled, top, templated):
    """a value for one switch whose meaning is `disabled` (true / false), literal or as an option
    template resolving to such a literal: '{K40}' | '{K41}' -> '{K40}' | '{K42.K43}'; the helper
    keys go into `top` (top-level entries of the same dictionary)"""
    value = rng.choice([True, True, 1]) if disabled else rng.choice([False, False, 0])
    if not templated or rng.random() < 0.3:
        return value
    b = T_BASE[which]
    r = rng.random()
    if r < 0.5:
        top[b] = value
        return core.S(("ref", K(b)))
    if r < 0.75:
        top[b] = value
        top[b + 1] = core.S(("ref", K(b)))
        return core.S(("ref", K(b + 1)))
    top[b + 2] = {b + 3: value}
    return core.S(("ref", K(b + 2, b + 3)))


def lab_section_forms(cfg, rng, templated, explicit_off):
    """(LABREA section or None, helper top-level entries) realising `cfg`; `explicit_off`: the
    probability that a switch that is off is nevertheless PRESENT (false value / empty subsection)"""
    cm, em, lm = cfg
    sec, top = {}, {}
    if cm in ("DISABLED", "DISABLE"):
        name = DISABLED if cm == "DISABLED" else DISABLE
        sec[CACHE] = {name: switch_form(rng, "cache", True, top, templated)}
        if cm == "DISABLED" and rng.random() < 0.2:
            sec[CACHE][DISABLE] = False                  # DISABLED wins over DISABLE
    elif rng.random() < explicit_off:
        r = rng.random()
        if r < 0.2:
            sec[CACHE] = {}
        elif r < 0.55:
            sec[CACHE] = {DISABLED: switch_form(rng, "cache", False, top, templated)}
        elif r < 0.85:
            sec[CACHE] = {DISABLE: switch_form(rng, "cache", False, top, templated)}
        else:       # the first spelling is present and false: the second one is not consulted
            sec[CACHE] = {DISABLED: switch_form(rng, "cache", False, top, templated), DISABLE: True}
    for mode, atom, which in ((em, EFFECTS, "effects"), (lm, LOGGING, "logging")):
        if mode == "option":
            sec[atom] = {DISABLED: switch_form(rng, which, True, top, templated)}
        elif rng.random() < explicit_off:
            sec[atom] = {} if rng.random() < 0.2 else {DISABLED: switch_form(rng, which, False, top, templated)}
    if not sec and rng.random() >= explicit_off / 3:
        return None, top
    return sec, top


def with_lab_forms(o, sec, top, rng):
    items = list(o.items())
    if sec is not None:
        items.insert(rng.randint(0, len(items)), (LAB, sec))
    for k, v in top.items():
        items.insert(rng.randint(0, len(items)), (k, v))
    return dict(items)


def has_templ(j):
    if isinstance(j, core.S):
        return any(t[0] == "ref" for t in j.toks)
    if isinstance(j, dict):
        return any(has_templ(v) for v in j.values())
    return False


def make_forms_scenario(rng, i, n_ops, configs):
    """as make_scenario, the switches written in other forms.  Three kinds of history: every
    operation all-off with the off switches PRESENT (clause O applies throughout); all-off first,
    then the cross product; the cross product throughout.  One scenario in three uses no template
    (literal false values, empty subsections only): those are compared with the model as well."""
    templated = i % 3 != 0
    history = ("off", "off_then_mixed", "mixed")[i % 5 % 3]
    g = Gen16(rng, effect_kind="reading" if i % 7 == 3 else "plain", with_alloptions=False, with_effects=True,
              preset_on_ds=0.3 if i % 2 else 0.0, with_map=(i % 4 != 0))
    base = g.scenario(n_exprs=2, depth=3, n_ops=0)
    exprs = list(base["exprs"])
    ds_ids = list(g.env)
    if not any(e[0] == "dataset" for e in exprs):
        exprs[0] = ("dataset", rng.choice(ds_ids))
    # ONE dictionary for the whole history (the switches and their helper keys aside): user code is
    # deterministic, so every stored entry is what a recomputation yields and the recorded
    # transparency findings (stale entries across neighbouring dictionaries: D19, D1, ...) cannot
    # enter the value clause here - these histories are about the switches
    pool = g.dict_pool()
    o0 = dict(rng.choice(pool[:1] + pool))
    ops, extra, cfgs = [], [], []
    for k in range(n_ops):
        all_off = history == "off" or (history == "off_then_mixed" and k < n_ops // 2)
        if all_off:
            cfg = ("on", "on", "on")
        elif rng.random() < 0.33:
            cfg = ("on", rng.choice(EFFECT_MODES), rng.choice(LOG_MODES))
        else:
            cfg = next(configs)
        idx, o = rng.randrange(len(exprs)), o0
        m = "evaluate" if rng.random() < 0.85 else rng.choice(["validate", "keys", "explain"])
        cm, em, lm = cfg
        sec, top = lab_section_forms(cfg, rng, templated, 0.7 if all_off else 0.35)
        ops.append((m, idx, cm == "ctx", lm == "ctx", with_lab_forms(o, sec, top, rng)))
        extra.append((tuple(ds_ids) if em == "toggle" else (), tuple(ds_ids) if cm == "nocache" else ()))
        cfgs.append(cfg)
    modelled = not any(has_templ(op[4].get(LAB)) for op in ops)
    return dict(ftable=dict(g.ftable), env=dict(g.env), exprs=exprs, ops=ops, extra=extra, cfgs=cfgs,
                effect_kind=g.effect_kind, reads_switch=False, family="forms", modelled=modelled)


# ----------------------------------------------------------------------------- family `logfx`:
# log effects and Logged wrappers at every level (oracle only: the model has no log effect)

LOG_LEVELS = [pylogging.DEBUG, pylogging.INFO, 25, pylogging.WARNING, pylogging.WARNING, pylogging.ERROR, pylogging.ERROR, pylogging.CRITICAL]
FX_LOGGER = "labrea.verif.fx"


def fx_msg(tag):
    return f"verif log effect {tag}"


def make_logfx_scenario(rng, i, n_ops, configs):
    g = Gen16(rng, effect_kind="plain", with_alloptions=False, with_effects=True,
              preset_on_ds=0.3 if i % 2 else 0.0, with_map=(i % 3 != 0))
    base = g.scenario(n_exprs=2, depth=3, n_ops=0)
    exprs = list(base["exprs"])
    env = {dsid: dict(d) for dsid, d in g.env.items()}
    ds_ids = list(env)
    if not any(e[0] == "dataset" for e in exprs):
        exprs[0] = ("dataset", rng.choice(ds_ids))
    n = 0
    for dsid in ds_ids:
        if rng.random() < 0.75:
            effs = list(env[dsid].get("effects", []) or [])
            for _ in range(rng.randint(1, 2)):
                n += 1
                effs.insert(rng.randint(0, len(effs)), ("logeffect", rng.choice(LOG_LEVELS), f"{dsid}.{n}"))
            env[dsid]["effects"] = effs
    if i % 3 == 1:      # the Logged wrapper (public class) at another level, logging before / after
        n += 1
        j = rng.randrange(len(exprs))
        exprs[j] = ("loggedat", rng.choice(LOG_LEVELS), f"w{n}", rng.random() < 0.5, exprs[j])
    pool = g.dict_pool()
    o0 = dict(rng.choice(pool[:1] + pool))       # one dictionary per history (see make_forms_scenario)
    ops, extra, cfgs = [], [], []
    for _ in range(n_ops):
        r = rng.random()
        if r < 0.35:    # the effects run and logging is disabled: the log effects must stay silent
            cfg = (rng.choice(CACHE_MODES), "on", rng.choice(["option", "option", "ctx"]))
        elif r < 0.55:
            cfg = ("on", rng.choice(EFFECT_MODES), rng.choice(LOG_MODES))
        else:
            cfg = next(configs)
        idx, o = rng.randrange(len(exprs)), o0
        m = "evaluate" if rng.random() < 0.9 else rng.choice(["validate", "keys", "explain"])
        cm, em, lm = cfg
        ops.append((m, idx, cm == "ctx", lm == "ctx", with_lab(o, lab_section(cfg, rng), rng)))
        extra.append((tuple(ds_ids) if em == "toggle" else (), tuple(ds_ids) if cm == "nocache" else ()))
        cfgs.append(cfg)
    return dict(ftable=dict(g.ftable), env=env, exprs=exprs, ops=ops, extra=extra, cfgs=cfgs,
                effect_kind="plain", reads_switch=False, family="logfx", modelled=False)


# ----------------------------------------------------------------------------- family `direct`:
# Cached / Computation / Logged used directly, one options dictionary object rewritten in place

DIRECT_SHAPES = ["cached", "cached-comp", "dataset-like", "comp-logged", "logged-cached", "comp"]


def make_direct_scenario(rng, i, n_ops, configs):
    g = Gen16(rng, effect_kind="plain", with_alloptions=False, with_effects=True,
              preset_on_ds=0.3 if i % 2 else 0.0, with_map=(i % 3 != 0))
    base = g.scenario(n_exprs=2, depth=2, n_ops=0)
    exprs = list(base["exprs"])
    ds_ids = list(g.env)

    def effects():
        return [("pstep", g.newf(("tag",)), []) for _ in range(rng.randint(1, 2))]

    def cid():
        c = g.next_c
        g.next_c += 1
        return c
    shapes = []
    for j in range(len(exprs)):
        inner = exprs[j]
        if rng.random() < 0.4:      # no dataset below: every node sees the caller's dictionary object itself
            inner = ("call", g.newf(("tag",)), [g.option() for _ in range(rng.randint(1, 2))])
        if inner[0] in ("map", "iter"):     # a bare generator must not be what a cache stores (finding D21's zone)
            inner = ("tolist", inner)
        shape = DIRECT_SHAPES[(i + j * 5) % len(DIRECT_SHAPES)] if rng.random() < 0.8 else rng.choice(DIRECT_SHAPES)
        shapes.append(shape)
        if shape == "cached":
            e = ("cached", cid(), inner)
        elif shape == "cached-comp":
            e = ("cached", cid(), ("comp", inner, effects()))
        elif shape == "dataset-like":       # Dataset's own composition, without the WithOptions layers
            e = ("cached", cid(), ("logged", ("comp", inner, effects())))
        elif shape == "comp-logged":
            e = ("comp", ("logged", inner), effects())
        elif shape == "logged-cached":
            e = ("logged", ("cached", cid(), inner))
        else:
            e = ("comp", inner, effects())
        exprs[j] = e
    pool = g.dict_pool()
    o0 = dict(rng.choice(pool[:1] + pool))       # one dictionary per history (see make_forms_scenario)
    ops, extra, cfgs = [], [], []
    for k in range(n_ops):
        r = rng.random()
        if r < 0.3:      # cache on: the switched-off evaluations meet warm entries (and the other way round)
            cfg = ("on", rng.choice(["on", "on", "option"]), rng.choice(["on", "on", "option"]))
        elif r < 0.65:   # the option spellings: the switches that live IN the dictionary
            cfg = (rng.choice(["DISABLED", "DISABLE", "on"]), rng.choice(["on", "option"]), rng.choice(["on", "option"]))
        else:
            cfg = next(configs)
        idx = rng.randrange(len(exprs))
        m = "evaluate" if rng.random() < 0.88 else rng.choice(["validate", "keys", "explain"])
        cm, em, lm = cfg
        ops.append((m, idx, cm == "ctx", lm == "ctx", with_lab(o0, lab_section(cfg, rng, p_off=0.45), rng)))
        extra.append((tuple(ds_ids) if em == "toggle" else (), tuple(ds_ids) if cm == "nocache" else ()))
        cfgs.append(cfg)
    return dict(ftable=dict(g.ftable), env=dict(g.env), exprs=exprs, ops=ops, extra=extra, cfgs=cfgs,
                effect_kind="plain", reads_switch=False, family="direct", modelled=True, inplace=True, shapes=shapes)


# ----------------------------------------------------------------------------- family `kinds`:
# the LABREA section / its subsections as other kinds of mapping (Options = Mapping[str, JSON])

# What the UNCHANGED library honours (established on /repo, every switch, datasets and bare wrappers alike): every
# kind below as the LABREA section, as a subsection, or both.  Two limits of the library that are not switch
# behaviour and stay outside: (a) options holding a types.MappingProxyType ANYWHERE cannot be evaluated by a dataset
# at all, nor (in some positions) by WithOptions (deepcopy / confectioner.mix's copy.copy: "cannot pickle 'mappingproxy'
# object"), so that kind is used only by expressions without a dataset / WithOptions / Map node;
# (b) a defaultdict WITH a default factory "has" every key: as the CACHE subsection it answers the DISABLED
# spelling with the factory's (falsy) value, which shadows DISABLE like an explicit false does; the factory form
# is used at the section level only (there the made-up subsections are empty mappings).
MAP_KINDS = ["subclass", "OrderedDict", "defaultdict", "ChainMap-front", "ChainMap-back", "ChainMap-split",
             "ChainMap-shadow", "UserDict", "Mapping", "MappingProxy"]
SECTION_ONLY_KINDS = ["defaultdict-factory"]


def to_kind(d, kind):
    """the mapping `d` (a dict, values already converted) as a mapping of another kind with the same content"""
    import collections
    import collections.abc
    import types
    if kind is None or kind == "dict":
        return d
    if kind == "subclass":
        return type("VerifOptionsDict", (dict,), {})(d)
    if kind == "OrderedDict":
        return collections.OrderedDict(d)
    if kind == "defaultdict":
        return collections.defaultdict(None, d)
    if kind == "defaultdict-factory":
        return collections.defaultdict(dict, d)
    if kind == "ChainMap-front":
        return collections.ChainMap(dict(d), {})
    if kind == "ChainMap-back":
        return collections.ChainMap({}, dict(d))
    if kind == "ChainMap-split":        # the entries spread over three layers
        ks = list(d)
        return collections.ChainMap({k: d[k] for k in ks[0::2]}, {}, {k: d[k] for k in ks[1::2]})
    if kind == "ChainMap-shadow":       # a front layer over defaults saying the contrary (front wins)
        def contrary(v):
            if isinstance(v, bool):
                return not v
            if isinstance(v, int):
                return 0 if v else 1
            return {}
        return collections.ChainMap(dict(d), {k: contrary(v) for k, v in d.items()})
    if kind == "UserDict":
        return collections.UserDict(d)
    if kind == "MappingProxy":
        return types.MappingProxyType(dict(d))
    if kind == "Mapping":
        class VerifMapping(collections.abc.Mapping):
            def __init__(self, data):
                self._data = dict(data)

            def __getitem__(self, key):
                return self._data[key]

            def __iter__(self):
                return iter(self._data)

            def __len__(self):
                return len(self._data)
        return VerifMapping(d)
    raise AssertionError(kind)


def apply_kinds(po, spec):
    """po: python options (plain dicts); spec: (section kind, {subsection name: kind}) -> a new top-level dict whose
    LABREA section / subsections are mappings of those kinds (same content)"""
    name = core.name_of(LAB)
    if not spec or not isinstance(po.get(name), dict):
        return po
    sec_kind, sub_kinds = spec
    sec = {}
    for k, v in po[name].items():
        sec[k] = to_kind(dict(v), sub_kinds.get(k)) if isinstance(v, dict) else v
    out = dict(po)
    out[name] = to_kind(sec, sec_kind)
    return out


def kinds_config_stream(rng):
    """switch configurations with the emphasis on the switches that live IN the dictionary"""
    while True:
        yield (rng.choice(["DISABLED", "DISABLE", "DISABLED", "DISABLE", "on", "on", "ctx", "nocache"]),
               rng.choice(["option", "option", "on", "toggle"]), rng.choice(["option", "option", "on", "ctx"]))


def reaches_dataset(scn, idx):
    """does expression idx of the scenario contain a dataset / WithOptions / Map node: their options go through
    confectioner.mix, which copies values (limit (a) above applies)"""
    return any(t and t[0] in ("dataset", "with", "map") for t in cp.sub_exprs(scn["exprs"][idx]))


def make_kinds_scenario(rng, i, n_ops):
    """a `forms` history without templates (datasets, one dictionary) or a `direct` history (bare wrappers, a fresh
    dictionary object per evaluation) whose LABREA sections / subsections are mappings of other kinds: one kind for
    the whole history (two histories in three) or a kind per operation and per (sub)section"""
    configs = kinds_config_stream(rng)
    if i % 3 == 2:
        scn = make_direct_scenario(rng, i, n_ops, configs)
        scn["inplace"] = False
    else:
        scn = make_forms_scenario(rng, 3 * i, n_ops, configs)
        assert scn["modelled"]
    subs = [core.name_of(a) for a in (CACHE, EFFECTS, LOGGING)]
    fixed = MAP_KINDS[(i // 3) % len(MAP_KINDS)] if i % 3 != 1 else None
    where = ("section", "subsections", "both")[(i // 2) % 3]
    kinds = []
    for op in scn["ops"]:
        pool = [k for k in MAP_KINDS if k != "MappingProxy" or not reaches_dataset(scn, op[1])]
        if fixed is not None:
            k = fixed if fixed in pool else "Mapping"
            kinds.append((k if where != "subsections" else None, {n: k for n in subs} if where != "section" else {}))
            continue
        sk = rng.choice(pool + SECTION_ONLY_KINDS + [None, None])
        kinds.append((sk, {n: rng.choice(pool + [None, None]) for n in subs if rng.random() < 0.7}))
    return dict(scn, family="kinds", kinds=kinds)


def morph(dst, src, depth=0):
    """rewrite the dictionary object `dst` IN PLACE so that it equals `src` (same key order): the object
    itself persists, and so do the dictionary objects of the LABREA section below it (the switches flip
    inside them); every other value is replaced by the new object"""
    items = []
    for k, v in src.items():
        old = dst.get(k)
        if isinstance(v, dict) and isinstance(old, dict) and (depth > 0 or k == core.name_of(LAB)):
            items.append((k, morph(old, v, depth + 1)))
        else:
            items.append((k, v))
    dst.clear()
    dst.update(items)
    return dst


def comp_effect_fids(scn):
    """callbacks of the effects of Computation nodes used directly (not through a dataset)"""
    out = []
    for t in list(cp.sub_exprs(scn["exprs"])) + list(cp.sub_exprs(scn["env"])):
        if t and t[0] == "comp":
            out += [e[1] for e in t[2] if e[0] == "pstep"]
    return out


class Builder16(core.Builder):
    """core.Builder + labrea.logging.LogEffect (as a dataset effect) and Logged at any level"""

    def build(self, e):
        if e[0] == "logeffect":
            from labrea.logging import LogEffect
            return LogEffect(e[1], FX_LOGGER, fx_msg(e[2]))
        if e[0] == "loggedat":
            from labrea.logging import Logged
            return Logged(self.build(e[4]), e[1], FX_LOGGER, fx_msg(e[2]), log_first=e[3])
        return super().build(e)


def log_levels(scn):
    """message -> level of every log effect / Logged wrapper of the scenario"""
    out = {}
    for t in list(cp.sub_exprs(scn["exprs"])) + list(cp.sub_exprs(scn["env"])):
        if t and t[0] in ("logeffect", "loggedat"):
            out[fx_msg(t[2])] = t[1]
    return out


def log_effects(scn):
    """dataset -> [(message, level)] of its log effects"""
    return {dsid: [(fx_msg(e[2]), e[1]) for e in d.get("effects", []) or [] if e[0] == "logeffect"]
            for dsid, d in scn["env"].items()}


def config_stream(rng):
    while True:
        cs = list(ALL_CONFIGS)
        rng.shuffle(cs)
        for c in cs:
            yield c


# ----------------------------------------------------------------------------- the model side

def variant_env(env, tog, noc):
    out = {}
    for dsid, d in env.items():
        d2 = dict(d)
        if dsid in tog:
            d2["effects_disabled"] = True
        if dsid in noc:
            d2["cache"] = "none"
        out[dsid] = d2
    return out


def coq_scenario16(scn):
    """run_scenario term: the graph rendered once per (toggle set, nocache set) used in the history"""
    variants = []
    for ex in scn["extra"]:
        if ex not in variants:
            variants.append(ex)
    n = len(scn["exprs"])
    es = []
    for (tog, noc) in variants:
        pr = core.CoqPrinter(variant_env(scn["env"], set(tog), set(noc)))
        es += [pr.expr(e) for e in scn["exprs"]]
    ops = []
    for (m, i, cc, lc, o), ex in zip(scn["ops"], scn["extra"]):
        j = variants.index(ex) * n + i
        ops.append("{| op_meth := %s; op_expr := %d%%nat; op_cfg := {| cache_ctx_off := %s; log_ctx_off := %s |}; op_opts := %s |}" % (
            core.METH[m], j, "true" if cc else "false", "true" if lc else "false", core.coq_dict(o)))
    return "run_scenario %s [%s] [%s]" % (core.coq_ftable(scn["ftable"]), "; ".join(es), "; ".join(ops))


# ----------------------------------------------------------------------------- the implementation side

class _Cap(pylogging.Handler):
    def __init__(self, sink):
        super().__init__(level=pylogging.DEBUG)
        self.sink = sink

    def emit(self, record):
        self.sink(record)


def run_impl16(scn, twin=False):
    """run the history on one long-lived graph; one observation dict per operation.
    twin=True: the same history with ALL switches off (no contexts, LABREA section removed, no toggles).
    Every history runs in a thread of its own: labrea keeps the current runtime per thread, so a
    history cannot inherit a runtime left behind by another one (replays are self-contained)."""
    import threading
    box = {}

    def work():
        try:
            box["out"] = _run_impl16(scn, twin)
        except BaseException as exc:  # noqa
            box["exc"] = exc
    th = threading.Thread(target=work)
    th.start()
    th.join()
    if "exc" in box:
        raise box["exc"]
    return box["out"]


def _run_impl16(scn, twin=False):
    import labrea.cache
    import labrea.logging
    from labrea import runtime
    from labrea.cache import NoCache
    from labrea.dataset import Dataset
    from labrea.logging import LogRequest
    from labrea.types import EvaluateRequest
    w = core.World(scn["ftable"])
    b = Builder16(w, scn["env"])
    objs = [b.build(e) for e in scn["exprs"]]
    levels = log_levels(scn)
    for dsid in scn["env"]:
        assert scn["env"][dsid].get("derived") is None
        b.dataset(dsid)
    orig_cache = {dsid: ds.cache for dsid, ds in b.ds.items()}
    ds_of = {id(ds): dsid for dsid, ds in b.ds.items()}
    msg_of = {dsid: f"Labrea: Evaluating {ds!r}" for dsid, ds in b.ds.items()}
    state = {}

    def on_record(record):
        w.calls.append("emit")
        state["records"].append((record.levelno, record.getMessage()))
    cap = _Cap(on_record)
    root = pylogging.getLogger()
    old_level = root.level
    root.addHandler(cap)
    root.setLevel(pylogging.DEBUG)
    out = []
    try:
        for k, (m, i, cc, lc, o) in enumerate(scn["ops"]):
            tog, noc = scn["extra"][k]
            if twin:
                cc = lc = False
                o = strip_lab(o)
                tog = noc = ()
            for dsid, ds in b.ds.items():
                if scn["env"][dsid].get("effects_disabled") or dsid in tog:
                    ds.disable_effects()
                else:
                    ds.enable_effects()
                ds.set_cache(NoCache() if dsid in noc else orig_cache[dsid])
            po = core.py_json(o)
            if scn.get("kinds") and not twin:
                po = apply_kinds(po, scn["kinds"][k])
            if scn.get("inplace"):
                # ONE caller dictionary object for the whole history, rewritten in place between operations
                po = morph(state.setdefault("po", {}), po)
            w.calls.clear()
            state.update(records=[], reqs=[], instances=[], stack=[])
            before = {cid: dict((kk, id(v)) for kk, v in c._cache.items()) for cid, c in w.caches.items()}
            raw = None
            r = None
            try:
              with contextlib.ExitStack() as st:
                  if cc:
                      # ONE runtime object per history, re-entered by every operation that needs it
                      # (and twice, nested, by every third one): leaving it must restore the switches
                      if "cache_rt" not in state:
                          state["cache_rt"] = labrea.cache.disabled()
                      st.enter_context(state["cache_rt"])
                      if k % 3 == 1:
                          st.enter_context(state["cache_rt"])
                  if lc:
                      st.enter_context(labrea.logging.disabled())
                  cur = runtime.current_runtime().handlers
                  inner_log, inner_eval = cur[LogRequest], cur[EvaluateRequest]

                  def rec_log(req, _inner=inner_log):
                      w.calls.append("log")
                      state["reqs"].append((req.level, req.name, req.msg, len(w.calls)))
                      return _inner(req)

                  def rec_eval(req, _inner=inner_eval):
                      dsid = ds_of.get(id(req.evaluatable)) if isinstance(req.evaluatable, Dataset) else None
                      if dsid is None:
                          return _inner(req)
                      inst = dict(dsid=dsid, start=len(w.calls), ok=False)
                      state["instances"].append(inst)
                      try:
                          r = _inner(req)
                          inst["ok"] = True
                          return r
                      finally:
                          inst["end"] = len(w.calls)
                  st.enter_context(runtime.handle({LogRequest: rec_log, EvaluateRequest: rec_eval}))
                  obj = objs[i]
                  try:
                      if m == "evaluate":
                          raw = core.force(obj.evaluate(po))
                          r = "ok:" + core.show(raw)
                      elif m == "validate":
                          obj.validate(po)
                          r = "ok:()"
                      elif m == "keys":
                          r = "ok:" + core.show_keys(obj.keys(po))
                      else:
                          r = "ok:" + core.show_keys(obj.explain(po))
                  except RecursionError:
                      r = "err:fuel:F"
                  except Exception as exc:  # noqa
                      c, ee = core.classify(exc)
                      r = f"err:{c}:{'T' if ee else 'F'}"
            except Exception as exc:  # the switch machinery itself failed (outside the evaluation)
                r = f"crash:{type(exc).__name__}" if r is None else r + f"+crash:{type(exc).__name__}"
            after = {cid: dict((kk, id(v)) for kk, v in c._cache.items()) for cid, c in w.caches.items()}
            calls = [CANON(x) for x in w.calls]
            out.append(dict(line=CANON(r) + "|" + " ".join(calls), raw=raw, calls=calls, reqs=list(state["reqs"]),
                            records=list(state["records"]), instances=list(state["instances"]),
                            cache_changed=sorted(cid for cid in set(before) | set(after) if before.get(cid, {}) != after.get(cid, {})),
                            msg_of=msg_of, levels=levels))
    finally:
        root.removeHandler(cap)
        root.setLevel(old_level)
    return out


def is_cache_tok(t, cids=None):
    for p in ("ex", "get", "set"):
        if t.startswith(p) and t[len(p):].rstrip("TF").isdigit():
            return cids is None or int(t[len(p):].rstrip("TF")) in cids
    return False


def user_calls(calls):
    return [t for t in calls if t.startswith("c") and "(" in t]


def effect_fids(scn):
    return {dsid: [e[1] for e in d.get("effects", []) or [] if e[0] == "pstep"] for dsid, d in scn["env"].items()}


def fresh_reference(scn, op, ex, cache_via):
    """a freshly built copy of the graph, the operation evaluated once with caching disabled by
    `cache_via` ('ctx' or 'DISABLED'); same effects / logging configuration as the operation"""
    m, i, cc, lc, o = op
    o2 = strip_cache_switch(o)
    if cache_via == "DISABLED":
        lab = dict(o2.get(LAB) or {})
        lab[CACHE] = {DISABLED: True}
        o2 = dict(o2)
        o2[LAB] = lab
    one = dict(scn, ops=[(m, i, cache_via == "ctx", lc, o2)], extra=[(ex[0], ())], cfgs=[None], kinds=None)
    return run_impl16(one)[0]


def effects_pair(scn, op):
    """the operation on two freshly built graphs: effects disabled by the option / by the toggle"""
    m, i, cc, lc, o = op
    base = dict(o)
    lab = {k: v for k, v in (base.get(LAB) or {}).items() if k != EFFECTS}
    o_opt = dict(base)
    o_opt[LAB] = dict(list(lab.items()) + [(EFFECTS, {DISABLED: True})])
    o_tog = dict(base)
    if lab:
        o_tog[LAB] = lab
    else:
        o_tog.pop(LAB, None)
    a = run_impl16(dict(scn, ops=[(m, i, cc, lc, o_opt)], extra=[((), ())], cfgs=[None], kinds=None))[0]
    b = run_impl16(dict(scn, ops=[(m, i, cc, lc, o_tog)], extra=[(tuple(scn["env"]), ())], cfgs=[None], kinds=None))[0]
    return a, b


def strip_cache_switch(o):
    o2 = dict(o)
    if isinstance(o2.get(LAB), dict):
        lab = {k: v for k, v in o2[LAB].items() if k != CACHE}
        if lab:
            o2[LAB] = lab
        else:
            del o2[LAB]
    return o2


def oracle(scn, obs=None, tw=None, fresh=None, plain=None):
    """the property's statement evaluated on the implementation; returns (failures, counters)"""
    obs = obs if obs is not None else run_impl16(scn)
    tw = tw if tw is not None else run_impl16(scn, twin=True)
    if scn.get("inplace") and fresh is None:
        fresh = run_impl16(dict(scn, inplace=False))
    if scn.get("kinds") and plain is None:
        plain = run_impl16(dict(scn, kinds=None))
    ceff = comp_effect_fids(scn)
    fails = []
    cnt = dict(value_checks=0, cache_off_ops=0, nocache_ops=0, effect_off_ops=0, log_off_ops=0,
               instances=0, hits=0, misses=0, requests=0, fresh_refs=0, flips_on_warm=0, effect_pairs=0)
    eff = effect_fids(scn)
    lfx = log_effects(scn)
    lfx_msgs = {msg for fx in lfx.values() for msg, _ in fx}
    cnt.update(inplace_ops=0, all_off_ops=0, all_off_ops_with_switches_present=0, log_effect_instances=0, log_effect_requests=0,
               silenced_above_info=0)
    ds_cids = set(scn["env"])
    warm = False
    all_off_so_far = True
    for j, (op, ex, cfg, a, t) in enumerate(zip(scn["ops"], scn["extra"], scn["cfgs"], obs, tw)):
        m, i, cc, lc, o = op
        cm, em, lm = cfg

        def bad(what, **kw):
            fails.append(dict(op_index=j, what=what, config=list(cfg), **kw))
        if "crash:" in a["line"].split("|")[0]:
            bad("entering / leaving the switch contexts failed outside the evaluation", line=a["line"][:120])
            continue
        # ---- I: the switches are read from the dictionary's content at each evaluation: the history on one
        # dictionary object rewritten in place is the history with a fresh dictionary object per evaluation
        if fresh is not None:
            cnt["inplace_ops"] = cnt.get("inplace_ops", 0) + 1

            def view_i(x):
                return dict(line=x["line"], requests=[r[:3] for r in x["reqs"]], records=list(x["records"]), stored=x["cache_changed"])
            vi, vf = view_i(a), view_i(fresh[j])
            if vi != vf:
                diff = [k for k in vi if vi[k] != vf[k]]
                bad("one options dictionary object rewritten in place between evaluations: the operation differs from the same "
                    "operation of the same history given a fresh dictionary object each time", method=m, differs_in=diff,
                    got={k: vi[k] for k in diff}, fresh_objects={k: vf[k] for k in diff})
        # ---- K: the switches are read from the CONTENT of the LABREA section, whatever kind of mapping holds it: the
        # history is the history with the same sections given as plain dicts
        if plain is not None:
            cnt["kinds_ops"] = cnt.get("kinds_ops", 0) + 1

            def view_k(x):
                return dict(line=x["line"], requests=[r[:3] for r in x["reqs"]], records=list(x["records"]), stored=x["cache_changed"])
            vk, vp = view_k(a), view_k(plain[j])
            if vk != vp:
                diff = [k for k in vk if vk[k] != vp[k]]
                bad("LABREA section / subsections given as another kind of mapping: the operation differs from the same operation of "
                    "the same history with the sections given as plain dicts", method=m, kinds=repr(scn["kinds"][j]), differs_in=diff,
                    got={k: vk[k] for k in diff}, plain_dicts={k: vp[k] for k in diff})
        # ---- O: every switch of every operation so far is off (however the off switches are written):
        # this IS the all-switches-off history - same outcome, user code, cache traffic, requests, records
        all_off_so_far = all_off_so_far and tuple(cfg) == ("on", "on", "on") and not ex[0] and not ex[1] and not cc and not lc
        if all_off_so_far and not scn["reads_switch"]:
            cnt["all_off_ops"] += 1
            cnt["all_off_ops_with_switches_present"] += 1 if LAB in o else 0

            def view(x):
                inv = {msg: d for d, msg in x["msg_of"].items()}
                return dict(line=x["line"], requests=[(r[0], r[1], inv.get(r[2], r[2])) for r in x["reqs"]],
                            records=[(lv, inv.get(msg, msg)) for lv, msg in x["records"]], stored=x["cache_changed"])
            va, vt = view(a), view(t)
            if va != vt:
                diff = [k for k in va if va[k] != vt[k]]
                bad("every switch is off, yet the operation differs from the same operation of the history without switches",
                    method=m, differs_in=diff, got={k: va[k] for k in diff}, without_switches={k: vt[k] for k in diff})
        # ---- the two ways of disabling effects agree (evaluate and validate), on fresh graphs
        if m in ("evaluate", "validate") and em != "on" and (j % 3 == 0 or m == "validate") and not scn["reads_switch"]:
            ra, rb = effects_pair(scn, op)
            cnt["effect_pairs"] += 1
            # (a Computation used directly has no per-dataset toggle: its effects are outside this comparison)
            ra_calls, rb_calls = ([x for x in user_calls(r["calls"]) if not any(x.startswith(f"c{f}(") for f in ceff)] for r in (ra, rb))
            if cp.outcome(ra["line"]) != cp.outcome(rb["line"]) or ra_calls != rb_calls:
                bad("LABREA.EFFECTS.DISABLED and disable_effects() disagree on a fresh graph", method=m,
                    option=[cp.outcome(ra["line"])] + user_calls(ra["calls"])[:6], toggle=[cp.outcome(rb["line"])] + user_calls(rb["calls"])[:6])
        if m != "evaluate":
            continue
        # ---- V: value / failure class equals the all-switches-off twin
        if not scn["reads_switch"] and scn["effect_kind"] != "failing":
            cnt["value_checks"] += 1
            if not cp.same_outcome(a["line"], a["raw"], t["line"], t["raw"]):
                bad("value", got=cp.outcome(a["line"]), all_off=cp.outcome(t["line"]))
        # ---- C: caching disabled
        if warm and cm != "on":
            cnt["flips_on_warm"] += 1
        if cm in ("DISABLED", "DISABLE", "ctx"):
            cnt["cache_off_ops"] += 1
            touched = [x for x in a["calls"] if is_cache_tok(x)]
            if touched:
                bad("cache object used although caching is disabled", tokens=touched[:6])
            if a["cache_changed"]:
                bad("stored entries changed although caching is disabled", caches=a["cache_changed"])
            ref = a if scn["reads_switch"] else fresh_reference(scn, op, ex, "DISABLED" if cm == "ctx" else "ctx")
            cnt["fresh_refs"] += 0 if scn["reads_switch"] else 1
            if user_calls(ref["calls"]) != user_calls(a["calls"]) or cp.outcome(ref["line"]) != cp.outcome(a["line"]):
                bad("not a recomputation: user code / outcome differ from a fresh graph evaluated with caching disabled by the other mechanism",
                    got=user_calls(a["calls"])[:8], fresh=user_calls(ref["calls"])[:8],
                    got_outcome=cp.outcome(a["line"]), fresh_outcome=cp.outcome(ref["line"]))
        elif cm == "nocache":
            cnt["nocache_ops"] += 1
            touched = [x for x in a["calls"] if is_cache_tok(x, ds_cids)]
            if touched:
                bad("dataset cache used although the dataset is nocache", tokens=touched[:6])
            if [c for c in a["cache_changed"] if c in ds_cids]:
                bad("dataset cache entries changed although the dataset is nocache", caches=a["cache_changed"])
        # ---- per evaluation of a dataset
        n_req_expected = 0
        for inst in a["instances"]:
            cnt["instances"] += 1
            d = inst["dsid"]
            sl = a["calls"][inst["start"]:inst["end"]]
            hit = f"ex{d}T" in sl and f"get{d}T" in sl
            reqs = [r for r in a["reqs"] if inst["start"] < r[3] <= inst["end"] and r[2] == a["msg_of"][d]]
            cached_here = scn["env"][d].get("cache", "mem") == "mem" and cm == "on"
            if hit:
                cnt["hits"] += 1
                if not cached_here:
                    bad("served from the cache although caching is disabled for it", dataset=d)
                if reqs:
                    bad("log request issued for a dataset served from its cache", dataset=d)
                if any(x.startswith(f"c{f}(") for f in eff[d] for x in sl):
                    bad("effect ran for a dataset served from its cache", dataset=d)
                if any(r[2] == msg for msg, _ in lfx[d] for r in a["reqs"] if inst["start"] < r[3] <= inst["end"]):
                    bad("log effect ran for a dataset served from its cache", dataset=d)
                continue
            cnt["misses"] += 1
            reached = (not cached_here) or any(x.startswith(f"ex{d}") for x in sl)
            want = 1 if (inst["ok"] or reached) else None
            if want is not None and len(reqs) != want:
                bad("log requests per evaluation of a dataset not served from its cache", dataset=d, requests=len(reqs), expected=want)
            if len(reqs) > 1:
                bad("more than one log request for one evaluation", dataset=d, requests=len(reqs))
            for r in reqs:
                if r[0] != pylogging.INFO:
                    bad("log request level is not INFO", dataset=d, level=r[0])
            n_req_expected += len(reqs)
            cnt["requests"] += len(reqs)
            # effects
            eff_off = em != "on" or scn["env"][d].get("effects_disabled")
            for f in eff[d]:
                n = sum(1 for x in sl if x.startswith(f"c{f}("))
                if eff_off and n:
                    bad("effect ran although effects are disabled", dataset=d, effect=f)
                if (not eff_off) and inst["ok"] and n != 1 and scn["effect_kind"] != "failing":
                    bad("effect did not run exactly once for an evaluation not served from the cache", dataset=d, effect=f, ran=n)
            # log effects (labrea.logging.LogEffect) are effects: as above, observed by their requests
            for msg, lvl in lfx[d]:
                rs = [r for r in a["reqs"] if inst["start"] < r[3] <= inst["end"] and r[2] == msg]
                cnt["log_effect_instances"] += 1
                cnt["log_effect_requests"] += len(rs)
                if eff_off and rs:
                    bad("log effect ran although effects are disabled", dataset=d, effect=msg)
                if (not eff_off) and inst["ok"] and len(rs) != 1:
                    bad("log effect did not issue exactly one request for an evaluation not served from the cache", dataset=d, effect=msg, requests=len(rs))
                if any(r[0] != lvl or r[1] != FX_LOGGER for r in rs):
                    bad("log effect request does not carry the effect's level / logger", dataset=d, effect=msg, level=lvl, got=[r[:2] for r in rs])
                if rs and lm != "on" and lvl > pylogging.INFO:
                    cnt["silenced_above_info"] += 1
            if cached_here and inst["ok"] and f"set{d}" not in sl:
                bad("value not stored by a caching dataset", dataset=d)
        if em != "on":
            cnt["effect_off_ops"] += 1
            ran = [x for x in a["calls"] for fs in eff.values() for f in fs if x.startswith(f"c{f}(")]
            ran += [r[2] for r in a["reqs"] if r[2] in lfx_msgs]
            if em == "option":      # a Computation used directly has no toggle; the option switches its effects off too
                ran += [x for x in a["calls"] for f in ceff if x.startswith(f"c{f}(")]
            if ran:
                bad("effect ran although effects are disabled", calls=ran[:4])
        # ---- L: emissions
        if lm != "on":
            cnt["log_off_ops"] += 1
            if a["records"]:
                bad("logging record emitted although logging is disabled", records=a["records"][:3])
        else:
            if len(a["records"]) != len(a["reqs"]):
                bad("number of logging records differs from the number of log requests", records=len(a["records"]), requests=len(a["reqs"]))
            elif sorted((r[0], r[2]) for r in a["reqs"]) != sorted(a["records"]):
                bad("logging records differ from the log requests (level, message)", records=a["records"][:4], requests=[(r[0], r[2]) for r in a["reqs"]][:4])
            for lv, msg in a["records"]:
                # the per-evaluation trace of a dataset is INFO; a log effect / Logged wrapper logs at its own level
                if lv != a["levels"].get(msg, pylogging.INFO):
                    bad("logging record level is not INFO" if msg not in a["levels"] else "logging record level is not the level of the log effect",
                        level=lv, message=msg[:60])
        if any(x.startswith("set") for x in a["calls"]):
            warm = True
    # per operation, the specific clauses first (the comparison with fresh dictionary objects last)
    fails.sort(key=lambda f: (f["op_index"], f["what"].startswith(("one options dictionary object", "LABREA section / subsections given"))))
    return fails, cnt


# ----------------------------------------------------------------------------- known findings

def witness_scn(fid):
    """the recorded witness of a transparency finding, its stale second evaluation done with the
    cache switched off: it then returns the fresh value, while with all switches off (the twin)
    the stale one is served"""
    wsc = WITNESSES[fid]["scn"]
    ops = list(wsc["ops"])
    j = WITNESSES[fid]["fails_at"]
    m, i, cc, lc, o = ops[j]
    ops[j] = (m, i, True, lc, o)
    cfgs = [("on", "on", "on")] * len(ops)
    cfgs[j] = ("ctx", "on", "on")
    return dict(wsc, ops=ops, extra=[((), ())] * len(ops), cfgs=cfgs, effect_kind="plain", reads_switch=False), j


def twin_scn(scn):
    return dict(scn, ops=[(m, i, False, False, strip_lab(o)) for (m, i, cc, lc, o) in scn["ops"]],
                extra=[((), ())] * len(scn["ops"]))


# ----------------------------------------------------------------------------- run

def correspondence16(ctx, scns, name, obs_all):
    outs = ctx.coq_eval(name, cp.REQ, "", [coq_scenario16(s) for s in scns], shard=30,
                        **({} if ctx.quick else {"jobs": 8}))     # (thorough: at most 8 coqc at a time, ~0.5 GB each)
    models = [o.split(" ## ") for o in outs]
    mism = []
    stats = {"ops": 0, "ok": 0, "err": 0, "unmodelled": 0, "dirty_ops": 0, "cache_hits": 0, "by_method": {}, "by_config": {}}
    for s, obs, ml in zip(scns, obs_all, models):
        il = [x["line"] for x in obs]
        multi = cp._multi_ref(s["exprs"]) or cp._multi_ref(s["env"]) or cp._multi_ref([op[4] for op in s["ops"]])
        if len(il) != len(ml):
            mism.append(dict(where="Model/Eval.v vs labrea (line count)", scenario_repr=cp.dump_scn(s)))
            continue
        for oi, (op, cfg, a, m) in enumerate(zip(s["ops"], s["cfgs"], il, ml)):
            stats["ops"] += 1
            stats["by_method"][op[0]] = stats["by_method"].get(op[0], 0) + 1
            ck = "/".join(cfg)
            stats["by_config"][ck] = stats["by_config"].get(ck, 0) + 1
            stats["ok" if a.startswith("ok") else "err"] += 1
            if "unmod" in m:
                # outside the modelled universe (e.g. a Template rendering a dictionary value): the
                # model stores nothing there, so the two stores differ from here on - the rest of
                # this history is not compared
                stats["unmodelled"] += 1
                stats["ops_after_unmodelled_skipped"] = stats.get("ops_after_unmodelled_skipped", 0) + len(il) - oi - 1
                break
            if cp.is_dirty(m):
                stats["dirty_ops"] += 1
            if any(t.startswith("get") and t.endswith("T") for t in cp.split(a)[1]):
                stats["cache_hits"] += 1
            if not cp.same(a, m, multi):
                mism.append(dict(where="Model/Eval.v vs labrea", op_index=oi, op=repr(op), config=list(cfg),
                                 impl=a, model=cp.strip_ghost(m), scenario_repr=cp.dump_scn(s)))
                break
    return models, mism, stats


def tag_value_failures(ctx, cands):
    """a value failure is a KNOWN transparency finding when the all-off twin history uses a cache
    site on a dictionary the model flags as not clean (ghost `dirty`), and the model agrees with
    the implementation on both histories up to the failing operation"""
    if not cands:
        return
    scns = [twin_scn(c["scn"]) for c in cands]
    outs = ctx.coq_eval("Twin_C16", cp.REQ, "", [coq_scenario16(s) for s in scns], shard=30)
    for c, s, o in zip(cands, scns, outs):
        ml = o.split(" ## ")
        il = [x["line"] for x in c["twin_obs"]]
        j = c["op_index"]
        upto = range(min(j + 1, len(ml)))
        dirty = any(cp.is_dirty(ml[t]) for t in upto) or any(cp.is_dirty(c["main_model"][t]) for t in upto)
        lazy = any(tok.startswith("dirtylazy") for t in upto for tok in cp.split(ml[t])[1] + cp.split(c["main_model"][t])[1])
        agree = cp.agrees(il, ml, s, upto=j) and cp.agrees([x["line"] for x in c["main_obs"]], c["main_model"], c["scn"], upto=j)
        if dirty and agree:
            c["violation"]["finding"] = "D21" if lazy else cp.zone_of(c["scn"])


def slim(scn):
    return {k: scn[k] for k in ("ftable", "env", "exprs", "ops", "extra", "cfgs", "effect_kind", "reads_switch", "family", "modelled", "inplace", "shapes", "kinds") if k in scn}


def run(ctx):
    rng = ctx.rng
    n = 450 if ctx.quick else 4500
    n_ops = 14
    configs = config_stream(rng)
    scns = [make_scenario(rng, i, n_ops, configs) for i in range(n)]
    # the two further families are drawn AFTER the base stream (which stays what it was for a given seed)
    n_forms, n_logfx = (120, 90) if ctx.quick else (1200, 900)
    forms = [make_forms_scenario(rng, i, n_ops, configs) for i in range(n_forms)]
    logfx = [make_logfx_scenario(rng, i, n_ops, configs) for i in range(n_logfx)]
    n_direct = 150 if ctx.quick else 1500
    direct = [make_direct_scenario(rng, i, n_ops, configs) for i in range(n_direct)]
    # (drawn after every earlier family, from a generator of its own: those stay what they were for a given seed)
    import random as _random
    krng = _random.Random(ctx.seed * 977 + 16)
    n_kinds = 90 if ctx.quick else 900
    kinds = [make_kinds_scenario(krng, i, n_ops) for i in range(n_kinds)]
    scns = scns + forms + logfx + direct + kinds
    obs_all = [run_impl16(s) for s in scns]
    tw_all = [run_impl16(s, twin=True) for s in scns]
    fresh_all = [run_impl16(dict(s, inplace=False)) if s.get("inplace") else None for s in scns]
    plain_all = [run_impl16(dict(s, kinds=None)) if s.get("kinds") else None for s in scns]
    # model vs implementation: everything the model can express (not: templated switch values, log effects)
    in_model = [k for k, s in enumerate(scns) if s.get("modelled", True)]
    models_m, mism, stats = correspondence16(ctx, [scns[k] for k in in_model], "Cases_C16", [obs_all[k] for k in in_model])
    models = [None] * len(scns)
    for k, ml in zip(in_model, models_m):
        models[k] = ml
    violations, cands = [], []
    totals, distinct, seen_cfg = {}, set(), set()
    by_family = {}
    for s, obs, tw, ml, fr, pl in zip(scns, obs_all, tw_all, models, fresh_all, plain_all):
        fails, cnt = oracle(s, obs, tw, fr, pl)
        fam = by_family.setdefault(s.get("family", "base"), dict(scenarios=0, ops=0, modelled_scenarios=0, oracle_failures=0))
        fam["scenarios"] += 1
        fam["ops"] += len(s["ops"])
        fam["modelled_scenarios"] += 1 if ml is not None else 0
        fam["oracle_failures"] += len(fails)
        for k, v in cnt.items():
            totals[k] = totals.get(k, 0) + v
        for op, cfg in zip(s["ops"], s["cfgs"]):
            if op[0] == "evaluate":
                seen_cfg.add(cfg)
        if cnt["hits"] and cnt["flips_on_warm"]:
            distinct.add(lib.stable_hash(cp.dump_scn(slim(s))))
        for f in fails[:1]:
            v = dict(desc="C16 oracle: " + f["what"], finding=None, detail={k: repr(x)[:300] for k, x in f.items()},
                     op_index=f["op_index"], scenario_repr=cp.dump_scn(slim(s)))
            violations.append(v)
            if f["what"] == "value" and ml is not None:
                cands.append(dict(scn=s, op_index=f["op_index"], violation=v, twin_obs=tw, main_obs=obs, main_model=ml))
    tag_value_failures(ctx, cands)
    tagged = {}
    for v in violations:
        if v["finding"]:
            tagged[v["finding"]] = tagged.get(v["finding"], 0) + 1
    known = []
    for fid in KNOWN:
        ws, j = witness_scn(fid)
        f, _ = oracle(ws)
        known.append(dict(id=fid, still_fails=any(x["op_index"] == j and x["what"] == "value" for x in f),
                          what=WITNESSES[fid]["what"] + " - with the cache switched off the second evaluation returns the fresh value, with all switches off the stale one"))
    return {
        "evaluations": stats["ops"] + sum(len(s["ops"]) for s in scns if not s.get("modelled", True)) + totals.get("value_checks", 0) + totals.get("instances", 0) + totals.get("fresh_refs", 0) + totals.get("effect_pairs", 0),
        "distinct_nontrivial": len(distinct),
        "rule": "random dataset graphs (effects, caches, overloads, pre-set/default options, Map, templates, cached wrappers) x histories of "
                f"{n_ops} operations on one long-lived graph, each operation under its own switch configuration drawn without replacement from the "
                "5x3x3 cross product (cache on/DISABLED/DISABLE/context/nocache x effects on/option/per-dataset toggle x logging on/option/context), "
                "80% of the operations revisit three (expression, dictionary) pairs so that switches flip on warm caches; non-trivial = the history "
                "contains a cache hit and a switched-off-cache evaluation after the first store; distinct by hash of the scenario. "
                f"Two further families after the base stream: forms ({n_forms} histories on one dictionary each): the switches written as option "
                "templates ('{K40}', a chain of two, a dotted reference) resolving to true / false values and as literal false values, LABREA "
                "sections supplied in part (empty section / subsections, one spelling false and the other true); 40% of the histories keep every "
                "switch off throughout with the off switches present, 40% for the first half (clause O: indistinguishable from the history "
                "without switches), the rest draws the cross product; the third without templates is compared with the model too. "
                f"logfx ({n_logfx} histories on one dictionary each): datasets carrying 1-2 labrea.logging.LogEffect effects and Logged wrappers at "
                "DEBUG / INFO / 25 / WARNING / ERROR / CRITICAL, a third of the operations with effects on and logging disabled by option or "
                "context (nothing may be emitted), the rest from the cross product; oracle only. "
                f"kinds ({n_kinds} histories): the LABREA section and / or its CACHE / EFFECTS / LOGGING subsections given as a dict subclass, "
                "OrderedDict, defaultdict, ChainMap (entries in the front layer, in the back layer, spread over three layers, a front layer "
                "over contrary defaults), UserDict, a user collections.abc.Mapping, MappingProxyType (graphs without a dataset only), one kind "
                "per history or per operation and (sub)section, on dataset graphs (one dictionary per history) and on bare Cached / "
                "Computation / Logged wrappers; switch configurations drawn with the emphasis on the option spellings; every clause applies, "
                "plus K: indistinguishable from the same history with plain dict sections; compared with the model too (same content)",
        "samples": [dict(exprs=repr(s["exprs"])[:300], configs=[("/".join(c)) for c in s["cfgs"][:4]], observed=[x["line"] for x in obs[:4]])
                    for s, obs in list(zip(scns, obs_all))[:3]],
        "traces_validated_against_impl": stats["ops"],
        "correspondence_mismatches": mism[:5],
        "violations": violations,
        "known": known,
        "distribution": dict(stats, oracle=totals, configurations_covered=len(seen_cfg), configurations_total=len(ALL_CONFIGS),
                             oracle_failures_tagged=tagged, scenarios=len(scns), families=by_family),
        "exhaustive": False,
        "assumptions": ["user code is deterministic; cyclic template references excluded; floats not generated",
                        "value claim: expressions that read a LABREA key or AllOptions are excluded (the switch is part of their value by definition) - the model must still agree on them",
                        "value claim: graphs whose effect callbacks RAISE are excluded (a raising effect fails the evaluation by design, so an evaluation with effects disabled succeeds - and stores its value, which later evaluations with effects on are served; C16_computation_returns_body_value covers successful computations) - the model must still agree on them",
                        "failure comparison is by failing/succeeding (with the cache on the fingerprint is computed first, so another of several causes may surface)",
                        "with_options/with_default_options derivatives are not generated here (they copy cache and toggle at creation; covered by C08)",
                        "switch values: the literals True / 1 (on), False / 0 (off) and single-reference option templates resolving to them (what "
                        "Option evaluation yields); other values (strings, None, templates with surrounding text or missing references) are not "
                        "generated: the property does not say which of them count as on",
                        "dotted TOP-LEVEL forms ({'LABREA.CACHE.DISABLED': True}) are not switch settings: confectioner's get_dotted_key splits "
                        "the key at the dots and finds no 'LABREA' entry (checked on the unchanged tree); not generated",
                        "families forms (templated part) and logfx are NOT compared with the model: Model/Eval.v `flag_at` reads the switch with a raw "
                        "lookup (no template resolution: a templated switch is the truthy string there) and has no LogEffect / level-carrying Logged"],
        "trusted_base": ["confectioner functions and CPython json/str/dict are modelled (Model/Base.v, Model/Template.v), validated by this correspondence run",
                         "observation through labrea's own request handlers (EvaluateRequest, LogRequest), recording MemoryCache subclasses and a `logging` handler"],
    }


def replay(ctx, payload):
    text = payload.get("scenario_repr")
    if text is None:    # a correspondence-only report: the scenario sits in the broken entry
        text = next((b["scenario_repr"] for b in payload.get("broken", []) if b.get("scenario_repr")), None)
    if text is None:
        return True, dict(note="no scenario in this replay file (a proof obligation / build failure)", broken=payload.get("broken"))
    scn = cp.load_scn(text)
    obs = run_impl16(scn)
    f, _ = oracle(scn, obs)
    if not scn.get("modelled", True):    # templated switch values / log effects: outside the model, the oracle decides
        return bool(f), dict(oracle_failures=[{k: repr(v)[:300] for k, v in x.items()} for x in f], impl=[x["line"] for x in obs],
                             model="not modelled (family %s)" % scn.get("family"))
    ml = ctx.coq_eval("Replay_C16", cp.REQ, "", [coq_scenario16(scn)])[0].split(" ## ")
    il = [x["line"] for x in obs]
    return bool(f) or not cp.agrees(il, ml, scn), dict(oracle_failures=[{k: repr(v)[:300] for k, v in x.items()} for x in f],
                                                        impl=il, model=[cp.strip_ghost(x) for x in ml])
