"""C20 — datasets survive a pickle round trip with identical behaviour.

Level PARTIAL.  The theorems (coq/Properties/C20.v) are about the structural state of a graph:
what Overloaded.__getstate__/__setstate__ and default instance pickling keep, and that the
model's evaluate/keys/validate read nothing else.  That pickle.dumps/loads rebuilds exactly that
state is CPython, so this harness carries the weight:

* it generates importable modules (module-level functions, dataset graphs in the explicit
  `ds = dataset(f_impl)` form and in the decorator form `@dataset def ds(...)`), imports them,
  and for every graph, every pickle protocol 0..5, round-trips in-process and into freshly
  started interpreters (fixed and varied PYTHONHASHSEED);
* ORACLE (property text, implementation only): same values / failure classes / keys / explain /
  validate / effect log for every options dictionary, before vs. after, cold and warm cache;
  the structural state (reflection over __dict__, locks and function identity abstracted) is
  equal; the unpickled object accepts `register` and then dispatches to the new overload while
  other aliases are unchanged; sharing inside one pickle (base + with_options derivative) is kept;
* CORRESPONDENCE with coq/Model/Pickle.v: the reflected state is rendered as a Gallina term;
  the model's `setstate (getstate t)` (show_roundtrip), lock sharing (show_locks), picklability
  (show_picklable), evaluate/keys/validate (observe) and post-registration behaviour
  (observe_registered) are computed by vm_compute and compared with the implementation.

Every generated body appends its own call to the module's LOG (next to the effects), so the log of an
observation says which user code ran: a memoized result that is silently recomputed after the round trip
shows there.  Bodies of kind "stamp" are IMPURE: their value embeds (os.getpid(), a per-process call
counter).  The comparison of values masks the stamp; a separate clause of the oracle demands that every
stamp the ORIGINAL served from its cache (computed before the snapshot that was pickled) comes back
unchanged from the copy -- in-process and in a fresh interpreter with another hash seed -- i.e. the
memoized entries travel AND are still found.  Graphs reaching a stamp body are outside Model/Pickle.v
(user functions are pure there): oracle only.

A hand-written module (userkinds_spec) and the generated impure module also contain datasets DEFINED by every other kind
of callable pickle can store (module-level class, functools.partial, bound method of a module-level instance, classmethod,
staticmethod, callable instance) and datasets holding USER SUBCLASSES of MemoryCache / Cache / Effect / PipelineStep with
state of their own (a bounded cache: copies miss as well as hit).  Outside Model/Pickle.v: oracle only (spec["user"]).

Known finding D18: decorator-form graphs cannot be pickled (PicklingError).  Those failures are
tagged D18; the same graphs are additionally round-tripped with a pickler that stores the shadowed
function by a persistent id, so that everything ELSE about them is still checked.
"""
import copy
import importlib
import io
import json
import os
import pickle
import subprocess
import sys
import threading
import time
import types

import lib

PID = "C20"
COQ_TARGETS = ["Model/PickleRun.vo"]
PROTOCOLS = [0, 1, 2, 3, 4, 5]
RESERVED = ["LABREA", "CACHE", "DISABLED", "DISABLE", "EFFECTS"]   # atoms 1..5 (Model/Pickle.v)
REGISTER_TIMEOUT = 6.0
D18_WHAT = ("pickle.dumps of a decorator-form dataset (@dataset def ds(...)), or of any graph that reaches one, "
            "raises PicklingError: the module attribute names the Dataset, not the function kept in "
            "__wrapped__ / FunctionApplication; the explicit form ds = dataset(f_impl) round-trips")


# ============================================================================ module source

HEADER = '''\
from labrea import Option, dataset, abstractdataset, Value, Map
from labrea.pipeline import Pipeline, PipelineStep
from labrea.cache import Cache, MemoryCache, CacheGetFailure
from labrea.computation import Effect
import functools
import os

LOG = []
STAMPS = [0]


def _stamp():
    STAMPS[0] += 1
    return ('@', os.getpid(), STAMPS[0])


def cb1(x):
    return ('cb1', x)


def cb2(x):
    return ('cb2', x)


def eff1(x):
    LOG.append(['eff1', x])


def eff2(x):
    LOG.append(['eff2', x])


def eff_raise(x):
    raise RuntimeError('effect raises')


def extra_impl(e=Option('E', 0)):
    return ('extra_impl', e)


extra = dataset(extra_impl)


# user subclasses of library classes, each with state of its own (used by the modules marked "user")
class BoundedCache(MemoryCache):
    """a MemoryCache that stops growing after `maxsize` entries (overrides set; own attribute)"""

    def __init__(self, maxsize):
        super().__init__()
        self.maxsize = maxsize

    def set(self, evaluatable, options, value):
        if len(self._cache) < self.maxsize:
            super().set(evaluatable, options, value)


class TaggedCache(Cache):
    """a direct Cache subclass: own store, keyed by an attribute of its own and the fingerprint"""

    def __init__(self, tag):
        self.tag = tag
        self.store = {}

    def get(self, evaluatable, options):
        try:
            return self.store[(self.tag, evaluatable.fingerprint(options))]
        except KeyError as e:
            raise CacheGetFailure(evaluatable, options, self) from e

    def set(self, evaluatable, options, value):
        self.store[(self.tag, evaluatable.fingerprint(options))] = value


class TagEffect(Effect):
    """a direct Effect subclass with an attribute of its own and a dependency"""

    def __init__(self, tag, dep=None):
        self.tag = tag
        self.dep = dep

    def transform(self, value, options=None):
        LOG.append(['tageff', self.tag, None if self.dep is None else self.dep.evaluate(options), value])

    def validate(self, options):
        if self.dep is not None:
            self.dep.validate(options)

    def explain(self, options=None):
        return set() if self.dep is None else self.dep.explain(options)


def _tagged(tag, x):
    return ('step', tag, x)


class TagStep(PipelineStep):
    """a PipelineStep subclass whose transformation depends on an attribute of its own"""

    def __init__(self, tag):
        super().__init__(Value(cb1))
        self.tag = tag

    def evaluate(self, options):
        return functools.partial(_tagged, self.tag)

'''


# option namespaces of every form (modules with spec["namespaces"]): bare, implicit nested, explicitly named nested and
# top-level, annotation-only members, defaults, Option.auto members (with a doc, with a transformation by a builtin)
NAMESPACES = '''\
@Option.namespace
class NS0:
    A: int
    B = 7
    C = Option.auto(default='c', doc='an automatic option')
    N = Option.auto(default=1, doc='transformed') >> str
    MODE = 'x'

    class SUB:
        X: int
        Y = 'y'

    @Option.namespace("NM-2")
    class NAMED:
        Z = 3
        W = Option.auto(doc='no default')


@Option.namespace("PKG-1")
class NS1:
    A = 1
    MODE = Option.auto(default='y', doc='dispatch source')

    class IN:
        B: str

'''
# dependencies on namespaces: the WHOLE namespace object (bare / nested / named), members, a Map over a namespace
NS_SOURCES = [["ns", "NS0"], ["ns", "NS0.SUB"], ["ns", "NS0.NAMED"], ["ns", "NS1"], ["ns", "NS1.IN"],
              ["nsm", "NS0.C"], ["nsm", "NS0.N"], ["nsm", "NS0.SUB.X"], ["nsm", "NS1.IN.B"],
              ["mapns", "NS0.SUB", "NS0.SUB.X", [1, 2]], ["mapns", "NS1", "PKG-1.A", [3]]]
NS_DISPATCH = {"NS0.MODE": ("NS0.MODE", "x"), "NS1.MODE": ("PKG-1.MODE", "y")}     # member -> (option key, default)
NS_FULL = {"NS0.A": 11, "NS0.SUB.X": 12, "PKG-1.IN.B": "b", "NS0.NM-2.W": 13}


def _src(s):
    k = s[0]
    if k in ("ns", "nsm"):
        return s[1]
    if k == "mapns":
        return f"(Map({s[1]}, {{{s[2]!r}: {s[3]!r}}}) >> list)"
    if k == "opt":
        return f"Option({s[1]!r})"
    if k == "optd":
        return f"Option({s[1]!r}, {s[2]!r})"
    if k == "optdo":
        return f"Option({s[1]!r}, Option({s[2]!r}))"
    if k == "ds":
        return s[1]
    if k == "const":
        return repr(s[1])
    raise AssertionError(s)


def _factory(ds):
    kw = []
    d = ds.get("dispatch")
    if d:
        if d[0] == "key":
            kw.append(f"dispatch={d[1]!r}")
        elif d[0] == "optd":
            kw.append(f"dispatch=Option({d[1]!r}, {d[2]!r})")
        else:
            kw.append(f"dispatch={d[1]}")
    if ds.get("options"):
        kw.append(f"options={ds['options']!r}")
    if ds.get("default_options"):
        kw.append(f"default_options={ds['default_options']!r}")
    cb = ds.get("callback") or []
    if len(cb) == 1:
        kw.append(f"callback={cb[0]}")
    elif len(cb) > 1:
        kw.append("callback=Pipeline() + " + " + ".join(cb))
    if ds.get("effects"):
        kw.append("effects=[" + ", ".join(ds["effects"]) + "]")
    base = "abstractdataset" if ds.get("abstract") else "dataset"
    if ds.get("nocache"):
        base += ".nocache"
    c = ds.get("cache")
    if c:      # a user subclass of MemoryCache / Cache, with state of its own
        kw.append(f"cache=BoundedCache({c[1]!r})" if c[0] == "bounded" else f"cache=TaggedCache({c[1]!r})")
    return base, kw


def _stmts(fname, ds, names, lead=()):
    """(statements before the result, source of the result tuple) of a generated body"""
    pre = [f"LOG.append(['call', {fname!r}])"]
    kind = ds.get("kind", "tag")
    if kind == "first":
        return pre, names[0]
    if kind == "stamp":
        return pre, "(" + ", ".join([repr(fname), "_stamp()"] + list(lead) + names) + ")"
    if kind == "raise_if":
        pre.append("if any(isinstance(v, str) and v == 'bad' for v in (" + "".join(n + ", " for n in names) + ")):")
        pre.append("    raise RuntimeError('bad argument')")
    items = [repr(fname)] + list(lead) + names
    return pre, "(" + ", ".join(items) + ("," if len(items) == 1 else "") + ")"


def _body(fname, ds):
    ps = ds.get("params", [])
    sig = ", ".join(f"{p}={_src(s)}" for p, s in ps)
    pre, ret = _stmts(fname, ds, [p for p, _ in ps])
    return [f"def {fname}({sig}):"] + ["    " + x for x in pre] + [f"    return {ret}"]


DEFKINDS = ["class", "partial", "partialkw", "method", "classmethod", "staticmethod", "callable"]


def def_qualname(ds):
    """qualified name of the plain function that a definition of this kind hands to labrea (when it is one)"""
    return fn_name(ds) + "_cls.run" if ds.get("defkind") == "staticmethod" else fn_name(ds)


def _emit_definition(fname, ds, out):
    """Emits the definition of a dataset in the kind asked for (explicit form); returns the source expression that is
    handed to dataset(...) / overload(...).  Every kind is picklable by the rules of pickle: a module-level function,
    a module-level CLASS (the constructor's defaults are the dependencies, the value is the instance), a
    functools.partial of a module-level function (positional / keyword), a bound method of a module-level instance,
    a classmethod, a staticmethod (a function with a dotted qualified name), a callable instance."""
    dk = ds.get("defkind")
    if not dk:
        out.extend(_body(fname, ds))
        return fname
    ps = ds.get("params", [])
    sig = ", ".join(f"{p}={_src(s)}" for p, s in ps)
    names = [p for p, _ in ps]
    if dk == "class":
        pre, ret = _stmts(fname, ds, names)
        out.append(f"class {fname}:")
        out.append(f"    def __init__(self{', ' + sig if sig else ''}):")
        out.extend("        " + x for x in pre)
        out.append(f"        self.value = {ret}")
        out.append("")
        out.append("    def as_tuple(self):")
        out.append("        return self.value")
        out.append("")
        return fname
    if dk in ("partial", "partialkw"):
        pre, ret = _stmts(fname, ds, names, lead=["k"])
        out.append(f"def {fname}(k{', ' + sig if sig else ''}):")
        out.extend("    " + x for x in pre)
        out.append(f"    return {ret}")
        out.append("")
        return f"functools.partial({fname}, {'k=' if dk == 'partialkw' else ''}{'k_' + ds['name']!r})"
    tag = fname + "_cls.run" if dk == "staticmethod" else fname
    lead = {"method": ["self.tag"], "callable": ["self.tag"], "classmethod": ["cls.__name__"], "staticmethod": []}[dk]
    pre, ret = _stmts(tag, ds, names, lead=lead)
    first = {"method": "self", "callable": "self", "classmethod": "cls", "staticmethod": ""}[dk]
    args = ", ".join(x for x in (first, sig) if x)
    out.append(f"class {fname}_cls:")
    out.append("    def __init__(self, tag):")
    out.append("        self.tag = tag")
    out.append("")
    if dk in ("classmethod", "staticmethod"):
        out.append(f"    @{dk}")
    out.append(f"    def {'__call__' if dk == 'callable' else 'run'}({args}):")
    out.extend("        " + x for x in pre)
    out.append(f"        return {ret}")
    out.append("")
    out.append(f"{fname}_obj = {fname}_cls({'t_' + ds['name']!r})")
    return {"method": f"{fname}_obj.run", "callable": f"{fname}_obj", "classmethod": f"{fname}_cls.run",
            "staticmethod": f"{fname}_cls.run"}[dk]


def fn_name(ds):
    return ds["name"] if ds["form"] == "decorator" else ds["name"] + "_impl"


def _emit_dataset(ds, out):
    base, kw = _factory(ds)
    fname = fn_name(ds)
    if ds["form"] == "decorator":
        out.append("@" + base + ("(" + ", ".join(kw) + ")" if kw else ""))
        out.extend(_body(fname, ds))
    else:
        definition = _emit_definition(fname, ds, out)
        call = base + ("(" + ", ".join(kw) + ")" if kw else "")
        out.append(f"{ds['name']} = {call}({definition})")
    if ds.get("effects_disabled"):
        out.append(f"{ds['name']}.disable_effects()")      # the per-dataset toggle is part of the pickled state
    out.append("")
    for ov in ds.get("overloads", []):
        _emit_overload(ds["name"], ov, out)


def _emit_overload(owner, ov, out):
    how, aliases, tgt = ov["how"], ov["aliases"], ov["target"]
    if how == "register":
        expr = {"ds": lambda: tgt[1], "opt": lambda: f"Option({tgt[1]!r})", "const": lambda: f"Value({tgt[1]!r})"}[tgt[0]]()
        for a in aliases:
            out.append(f"{owner}.register({a!r}, {expr})")
        out.append("")
        return
    sub = tgt[1]
    fname = fn_name(sub)
    if how == "list":
        decos = [f"{owner}.overload({aliases!r})"]
    else:  # 'overload' (one alias) or 'stacked' (several decorators)
        decos = [f"{owner}.overload({a!r})" for a in aliases]
    if sub["form"] == "decorator":
        for d in decos:
            out.append("@" + d)
        out.extend(_body(fname, sub))
    else:
        expr = _emit_definition(fname, sub, out)
        for d in reversed(decos):
            expr = f"{d}({expr})"
        out.append(f"{sub['name']} = {expr}")
    out.append("")


def gen_source(spec):
    out = [HEADER]
    if spec.get("namespaces"):
        out.append(NAMESPACES)
    for ds in spec["datasets"]:
        _emit_dataset(ds, out)
    for dv in spec.get("derived", []):
        out.append(f"{dv['name']} = {dv['base']}.{dv['how']}({dv['options']!r})")
        out.append("")
    for cy in spec.get("cycles", []):
        # a CYCLIC graph: an overload of `owner` that is itself computed from `owner` (through a with_options copy that
        # pins the dispatch key to another value, so evaluation terminates)
        fname = cy["name"] + "_impl"
        out.append(f"def {fname}(b={cy['owner']}.with_options({_nest({cy['dk']: cy['pin']})!r}), a=Option('A', 0)):")
        out.append(f"    LOG.append(['call', {fname!r}])")
        out.append(f"    return ({fname!r}, b, a)")
        out.append(f"{cy['name']} = dataset({fname})")
        out.append(f"{cy['owner']}.register({cy['alias']!r}, {cy['name']})")
        out.append("")
    return "\n".join(out) + "\n"


def graph_names(spec):
    names = []
    for ds in spec["datasets"]:
        names.append(ds["name"])
        for ov in ds.get("overloads", []):
            if ov["target"][0] == "new":
                names.append(ov["target"][1]["name"])
    names += [dv["name"] for dv in spec.get("derived", [])]
    names += [cy["name"] for cy in spec.get("cycles", [])]
    return names


def fn_kinds(spec):
    """function name -> kind, for the model's function table"""
    kinds = {"eff_raise": "raise"}
    for ds in spec["datasets"]:
        kinds[def_qualname(ds)] = ds.get("kind", "tag")
        for ov in ds.get("overloads", []):
            if ov["target"][0] == "new":
                kinds[def_qualname(ov["target"][1])] = ov["target"][1].get("kind", "tag")
    for cy in spec.get("cycles", []):
        kinds[cy["name"] + "_impl"] = "tag"
    return kinds


# ============================================================================ generator

KEYS = ["A", "B", "C", "S.X", "S.Y", "T.U.V"]
DKEYS = ["D1", "D2", "M.SRC"]
ALIASES = ["x", "y", "zz", 1, 2, None]


def _nest(flat):
    out = {}
    for k, v in flat.items():
        cur = out
        segs = k.split(".")
        for s in segs[:-1]:
            cur = cur.setdefault(s, {})
        cur[segs[-1]] = v
    return out


def _rand_opts(rng, pool, lo=1, hi=3):
    ks = rng.sample(pool, rng.randint(lo, min(hi, len(pool))))
    # (a list under a dispatch key is unhashable: raw TypeError out of Switch, a generator artefact)
    return _nest({k: rng.choice([1, 2, "x", "y", "v", None] if k in DKEYS else [1, 2, 9, "v", "w", None, [1, 2]])
                  for k in ks})


def _params(rng, names, kind):
    n = rng.randint(1 if kind == "first" else 0, 3)
    ps = []
    for j in range(n):
        r = rng.random()
        key = rng.choice(KEYS)
        if kind == "first" and j == 0:
            src = ["optd", rng.choice(DKEYS), rng.choice(["x", "y", 1])] if r < 0.7 else ["opt", rng.choice(DKEYS)]
        elif names and r < 0.30:
            src = ["ds", rng.choice(names)]
        elif r < 0.62:
            src = ["opt", key]
        elif r < 0.80:
            src = ["optd", key, rng.choice([0, 7, None, "dflt"])]
        elif r < 0.90:
            src = ["optdo", key, rng.choice(KEYS)]
        else:
            src = ["const", rng.choice([3, "c"])]
        ps.append([f"p{j}", src])
    return ps


def gen_world(rng, modname, mixed, max_ds=6, impure=0.0, user=0.0):
    """impure: share of the bodies whose value embeds (os.getpid(), call counter) -- such graphs are outside the model
    user: share of the datasets that get a definition of another picklable kind (DEFKINDS), a user subclass of
    MemoryCache / Cache as cache, a user Effect subclass among the effects, a user PipelineStep subclass in the
    callback -- outside the model as well (no random draw is made for them when user == 0)"""
    names, firsts, dss = [], [], []
    n = rng.randint(3, max_ds)
    for i in range(n):
        name = f"g{i}"
        form = "decorator" if mixed and rng.random() < 0.4 else "explicit"
        kind = rng.choices(["tag", "raise_if", "first"], [0.68, 0.20, 0.12])[0]
        if impure and kind == "tag" and rng.random() < impure:
            kind = "stamp"
        ds = {"name": name, "form": form, "kind": kind, "params": _params(rng, names, kind)}
        if user and kind != "first" and rng.random() < user:       # a dependency on an option namespace
            ds["params"].append([f"p{len(ds['params'])}", rng.choice(NS_SOURCES)])
        r = rng.random()
        if r < 0.30:
            ds["dispatch"] = ["key", rng.choice(DKEYS)]
        elif r < 0.42:
            ds["dispatch"] = ["optd", rng.choice(DKEYS), rng.choice(["x", "y", 1])]
        elif r < 0.55 and firsts:
            ds["dispatch"] = ["ds", rng.choice(firsts)]
        if ds.get("dispatch") and rng.random() < 0.25 and kind != "first":
            ds["abstract"] = True
        if rng.random() < 0.30:
            ds["options"] = _rand_opts(rng, KEYS + DKEYS)
        if rng.random() < 0.30:
            ds["default_options"] = _rand_opts(rng, KEYS + DKEYS)
        if kind != "first":
            ds["callback"] = rng.choices([[], ["cb1"], ["cb1", "cb2"]], [0.6, 0.25, 0.15])[0]
            ds["effects"] = rng.choices([[], ["eff1"], ["eff1", "eff2"], ["eff_raise"], ["eff2", "eff_raise"]],
                                        [0.55, 0.22, 0.13, 0.05, 0.05])[0]
        if ds.get("effects") and rng.random() < 0.3:
            ds["effects_disabled"] = True
        if rng.random() < 0.15:
            ds["nocache"] = True
        if user:
            if form == "explicit" and kind != "first" and rng.random() < user:
                ds["defkind"] = rng.choice(DEFKINDS)
            if not ds.get("nocache") and rng.random() < user:
                ds["cache"] = rng.choice([["bounded", rng.choice([1, 2, 4])], ["tagged", "c_" + name]])
            if kind != "first" and rng.random() < user:
                ds["effects"] = ds.get("effects", []) + [rng.choice([f"TagEffect('t_{name}')", f"TagEffect('t_{name}', Option('E', 0))"])]
            if kind != "first" and rng.random() < user / 2:
                ds["callback"] = ds.get("callback", []) + [f"TagStep('s_{name}')"]
        ovs = []
        if ds.get("dispatch"):
            pool = list(ALIASES)
            rng.shuffle(pool)
            for k in range(rng.randint(0 if not ds.get("abstract") else 1, 3)):
                how = rng.choice(["register", "overload", "stacked", "list"])
                if how in ("stacked", "list"):
                    aliases = [pool.pop(), pool.pop()] if len(pool) >= 2 else [pool.pop()]
                else:
                    aliases = [pool.pop()]
                if how == "register":
                    r2 = rng.random()
                    if names and r2 < 0.5:
                        tgt = ["ds", rng.choice(names)]
                    elif r2 < 0.8:
                        tgt = ["opt", rng.choice(KEYS)]
                    else:
                        tgt = ["const", rng.choice([42, "k"])]
                else:
                    sub = {"name": f"{name}_o{k}", "kind": rng.choice(["tag", "tag", "raise_if"]),
                           "form": "decorator" if mixed and rng.random() < 0.4 else "explicit"}
                    if impure and sub["kind"] == "tag" and rng.random() < impure:
                        sub["kind"] = "stamp"
                    sub["params"] = _params(rng, names, sub["kind"])
                    if user and sub["form"] == "explicit" and rng.random() < user:
                        sub["defkind"] = rng.choice(DEFKINDS)
                    tgt = ["new", sub]
                ovs.append({"how": how, "aliases": aliases, "target": tgt})
        ds["overloads"] = ovs
        dss.append(ds)
        names.append(name)
        if kind == "first":
            firsts.append(name)
    derived = []
    for ds in dss:
        if rng.random() < 0.35:
            how = rng.choice(["with_options", "with_default_options"])
            derived.append({"name": ds["name"] + ("_w" if how == "with_options" else "_d"), "base": ds["name"],
                            "how": how, "options": _rand_opts(rng, KEYS + DKEYS)})
    cycles = []
    if impure:
        for ds in dss:
            d = ds.get("dispatch")
            if d and d[0] in ("key", "optd") and ds["form"] == "explicit" and rng.random() < 0.6 and len(cycles) < 2:
                own = [a for ov in ds["overloads"] for a in ov["aliases"]]
                cycles.append({"owner": ds["name"], "name": ds["name"] + "_c", "alias": "cyc_" + ds["name"], "dk": d[1],
                               "pin": rng.choice(own + ["nope"])})
    out = {"module": modname, "datasets": dss, "derived": derived, "cycles": cycles}
    if user:
        out["user"] = True
        out["namespaces"] = True
    return out


def userkinds_spec(modname):
    """A hand-written module (explicit form; runs every time): every kind of definition pickle can store (DEFKINDS) and a
    user subclass of each library class a dataset holds (MemoryCache, Cache, Effect, PipelineStep), each with state of
    its own that its behaviour depends on.  Outside Model/Pickle.v (plain functions, library classes): oracle only."""
    def sub(name, params, kind="tag", defkind=None):
        d = {"name": name, "form": "explicit", "kind": kind, "params": params}
        if defkind:
            d["defkind"] = defkind
        return d
    dss = [
        {"name": "u0", "form": "explicit", "kind": "tag", "params": [["a", ["opt", "A"]], ["b", ["optd", "S.X", 7]], ["ns", ["ns", "NS0"]]],
         "cache": ["bounded", 2], "effects": ["TagEffect('t0', Option('E', 0))"], "callback": ["TagStep('s0')"], "overloads": []},
        {"name": "u1", "form": "explicit", "kind": "tag", "defkind": "class", "params": [["a", ["opt", "A"]], ["w", ["ds", "u0"]]],
         "dispatch": ["key", "D1"], "default_options": {"A": 5},
         "overloads": [{"how": "register", "aliases": ["x"], "target": ["opt", "C"]},
                       {"how": "overload", "aliases": ["y"], "target": ["new", sub("u1_y", [["c", ["opt", "C"]]], defkind="partial")]},
                       {"how": "stacked", "aliases": [1, 2], "target": ["new", sub("u1_s", [["y", ["opt", "S.Y"]]], defkind="callable")]}]},
        {"name": "u2", "form": "explicit", "kind": "tag", "defkind": "partial", "params": [["b", ["optd", "B", 0]], ["n", ["ds", "u1"]], ["sub", ["ns", "NS0.SUB"]], ["c", ["nsm", "NS0.C"]]],
         "cache": ["tagged", "c2"], "overloads": []},
        {"name": "u3", "form": "explicit", "kind": "raise_if", "defkind": "partialkw", "params": [["a", ["opt", "A"]], ["c", ["optdo", "C", "T.U.V"]]],
         "effects": ["eff1", "TagEffect('t3')"], "overloads": []},
        {"name": "u4", "form": "explicit", "kind": "tag", "defkind": "method", "params": [["a", ["opt", "A"]], ["x", ["optd", "S.X", 7]]],
         "callback": ["cb1", "TagStep('s4')"], "cache": ["bounded", 1], "options": {"S": {"Y": 2}}, "overloads": []},
        {"name": "u5", "form": "explicit", "kind": "tag", "defkind": "callable", "params": [["a", ["optd", "A", None]], ["m", ["ds", "u4"]]],
         "dispatch": ["optd", "D2", "x"], "cache": ["bounded", 3],
         "overloads": [{"how": "list", "aliases": ["zz", None], "target": ["new", sub("u5_l", [["k", ["const", 3]], ["b", ["opt", "B"]]], "raise_if", "class")]},
                       {"how": "register", "aliases": ["y"], "target": ["ds", "u3"]}]},
        {"name": "u6", "form": "explicit", "kind": "stamp", "defkind": "classmethod", "params": [["a", ["opt", "A"]]],
         "cache": ["bounded", 4], "effects": ["TagEffect('t6', Option('B'))"], "overloads": []},
        {"name": "u7", "form": "explicit", "kind": "tag", "defkind": "staticmethod", "params": [["a", ["opt", "A"]], ["s", ["ds", "u6"]]],
         "dispatch": ["key", "M.SRC"], "abstract": True,
         "overloads": [{"how": "overload", "aliases": [1], "target": ["new", sub("u7_x", [["t", ["opt", "T.U.V"]]], defkind="method")]},
                       {"how": "register", "aliases": ["y"], "target": ["ds", "u5"]}]},
        {"name": "u8", "form": "explicit", "kind": "tag", "defkind": "staticmethod", "params": [["a", ["opt", "A"]], ["b", ["optd", "B", 1]]],
         "overloads": []},
        # dependencies on option namespaces: whole namespace objects (bare, nested, named), members, a Map over a namespace,
        # a namespace member as the dispatch source
        {"name": "n0", "form": "explicit", "kind": "tag", "params": [["ns1", ["ns", "NS1"]], ["named", ["ns", "NS0.NAMED"]], ["x", ["nsm", "NS0.SUB.X"]], ["n", ["nsm", "NS0.N"]]],
         "overloads": []},
        {"name": "n1", "form": "explicit", "kind": "tag", "params": [["a", ["optd", "A", 0]], ["m", ["mapns", "NS0.SUB", "NS0.SUB.X", [1, 2]]]],
         "dispatch": ["nsm", "NS0.MODE"], "callback": ["cb1"],
         "overloads": [{"how": "register", "aliases": ["y"], "target": ["ds", "n0"]},
                       {"how": "overload", "aliases": [2], "target": ["new", sub("n1_o", [["inner", ["ns", "NS1.IN"]], ["b", ["nsm", "NS1.IN.B"]]])]}]},
        {"name": "n2", "form": "explicit", "kind": "raise_if", "defkind": "class", "params": [["whole", ["ns", "NS0"]], ["m", ["mapns", "NS1", "PKG-1.A", [3]]], ["d", ["ds", "n1"]]],
         "dispatch": ["nsm", "NS1.MODE"], "cache": ["bounded", 2], "default_options": {"NS0": {"A": 4}},
         "overloads": [{"how": "register", "aliases": ["x"], "target": ["opt", "B"]}]},
    ]
    derived = [{"name": "u1_w", "base": "u1", "how": "with_options", "options": {"D1": "y", "C": "pre"}},
               {"name": "u5_d", "base": "u5", "how": "with_default_options", "options": {"A": 3}},
               {"name": "u0_w", "base": "u0", "how": "with_options", "options": {"S": {"X": 1}}},
               {"name": "n1_w", "base": "n1", "how": "with_options", "options": {"NS0": {"MODE": "y", "SUB": {"X": 9}}}}]
    return {"module": modname, "datasets": dss, "derived": derived, "user": True, "namespaces": True}


def cyclic_spec(modname):
    """A hand-written module (explicit form) whose graphs are CYCLIC: a dataset has an overload that is computed from a
    with_options copy of that very dataset (the copy shares the overload table).  Outside Model/Pickle.v (trees): oracle only."""
    def sub(name, params, kind="tag"):
        return {"name": name, "form": "explicit", "kind": kind, "params": params}
    dss = [
        {"name": "b0", "form": "explicit", "kind": "tag", "params": [["x", ["opt", "A"]]], "dispatch": ["key", "D1"],
         "overloads": [{"how": "register", "aliases": ["x"], "target": ["opt", "C"]},
                       {"how": "overload", "aliases": ["y"], "target": ["new", sub("b0_y", [["b", ["opt", "B"]]])]}]},
        {"name": "b1", "form": "explicit", "kind": "stamp", "params": [["a", ["optd", "A", 1]], ["n", ["ds", "b0"]]],
         "dispatch": ["optd", "D2", "x"], "callback": ["cb1"], "effects": ["eff1"], "default_options": {"B": 4},
         "overloads": [{"how": "list", "aliases": [1, 2], "target": ["new", sub("b1_l", [["c", ["opt", "C"]]], "raise_if")]}]},
    ]
    derived = [{"name": "b0_w", "base": "b0", "how": "with_options", "options": {"D1": "y"}}]
    cycles = [{"owner": "b0", "name": "b0_c", "alias": "zz", "dk": "D1", "pin": "x"},
              {"owner": "b1", "name": "b1_c", "alias": "y", "dk": "D2", "pin": "nope"}]
    return {"module": modname, "datasets": dss, "derived": derived, "cycles": cycles}


def fixed_spec(modname, form):
    """A hand-written module that exercises every construct, in one form (runs first, every run)."""
    def sub(name, params, kind="tag"):
        return {"name": name, "form": form, "kind": kind, "params": params}
    dss = [
        {"name": "m0", "form": form, "kind": "first", "params": [["m", ["optd", "M.SRC", "x"]]], "overloads": []},
        {"name": "g0", "form": form, "kind": "tag",
         "params": [["a", ["opt", "A"]], ["b", ["optd", "S.X", 7]], ["c", ["optdo", "B", "T.U.V"]]],
         "dispatch": ["key", "D1"], "options": {"S": {"Y": 2}}, "default_options": {"A": 5, "T": {"U": {"V": 8}}},
         "callback": ["cb1"], "effects": ["eff1"],
         "overloads": [
             {"how": "register", "aliases": ["x"], "target": ["opt", "C"]},
             {"how": "overload", "aliases": ["y"], "target": ["new", sub("g0_y", [["c", ["opt", "C"]]])]},
             {"how": "stacked", "aliases": [1, 2], "target": ["new", sub("g0_s", [["y", ["opt", "S.Y"]]])]},
             {"how": "list", "aliases": ["zz", None], "target": ["new", sub("g0_l", [["k", ["const", 3]]], "raise_if")]}]},
        {"name": "g1", "form": form, "kind": "tag", "params": [], "dispatch": ["ds", "m0"], "abstract": True,
         "overloads": [
             {"how": "register", "aliases": ["x"], "target": ["ds", "g0"]},
             {"how": "overload", "aliases": ["y"], "target": ["new", sub("g1_y", [["a", ["opt", "A"]], ["g", ["ds", "g0"]]])]}]},
        {"name": "g2", "form": form, "kind": "raise_if", "params": [["p", ["opt", "B"]], ["q", ["ds", "g0"]]],
         "nocache": True, "callback": ["cb1", "cb2"], "effects": ["eff1", "eff2"], "overloads": []},
        {"name": "g3", "form": form, "kind": "tag", "params": [["a", ["optd", "A", None]]],
         "dispatch": ["optd", "D2", "x"], "effects": ["eff2", "eff_raise"], "options": {"D2": "x"},
         "overloads": [{"how": "register", "aliases": ["x"], "target": ["const", 42]},
                       {"how": "register", "aliases": ["y"], "target": ["ds", "g2"]}]},
        {"name": "g4", "form": form, "kind": "stamp", "params": [["a", ["opt", "A"]], ["x", ["optd", "S.X", 7]]],
         "effects": ["eff1"], "overloads": []},
        {"name": "g5", "form": form, "kind": "tag", "params": [["s", ["ds", "g4"]], ["b", ["opt", "B"]]],
         "dispatch": ["key", "D2"], "callback": ["cb1"],
         "overloads": [{"how": "overload", "aliases": ["y"], "target": ["new", sub("g5_y", [["c", ["opt", "C"]]], "stamp")]}]},
    ]
    derived = [{"name": "g0_w", "base": "g0", "how": "with_options", "options": {"D1": "y", "C": "pre"}},
               {"name": "g4_d", "base": "g4", "how": "with_default_options", "options": {"A": 3}},
               {"name": "g0_d", "base": "g0", "how": "with_default_options", "options": {"C": 9, "S": {"X": 1}}},
               {"name": "g1_w", "base": "g1", "how": "with_options", "options": {"M": {"SRC": "y"}}}]
    return {"module": modname, "datasets": dss, "derived": derived}


def used_aliases(spec):
    out = []
    for ds in spec["datasets"]:
        d = ds.get("dispatch")
        if d and d[0] == "optd":
            out.append(d[2])
        if d and d[0] == "nsm":
            out.append(NS_DISPATCH[d[1]][1])
        for ov in ds.get("overloads", []):
            out.extend(ov["aliases"])
    out.extend(cy["alias"] for cy in spec.get("cycles", []))
    seen, res = set(), []
    for a in out:
        if repr(a) not in seen:
            seen.add(repr(a))
            res.append(a)
    return res


def gen_dicts(rng, spec, quick):
    """The options dictionaries every graph of the module is observed on."""
    ns = bool(spec.get("namespaces"))
    dkeys = DKEYS + ([k for k, _ in NS_DISPATCH.values()] if ns else [])
    full_flat = {k: v for k, v in zip(KEYS, [1, 2, "three", 4, "five", 6])}
    als = used_aliases(spec) or ["x"]
    for i, dk in enumerate(dkeys):
        full_flat[dk] = als[i % len(als)]
    full_flat["E"] = 5
    missing = list(full_flat)                                   # each single key missing
    if quick:
        missing = rng.sample(missing, 6)
    if ns:                                                      # ... and each namespace member without a default
        full_flat.update(NS_FULL)
        missing += list(NS_FULL)
    dicts = [{}, _nest(full_flat)]
    for k in missing:
        f = dict(full_flat)
        del f[k]
        dicts.append(_nest(f))
    for dk in dkeys:                                            # dispatch values registered / unregistered
        vals = als + ["nope"]
        if quick and len(vals) > 3:
            vals = rng.sample(als, 2) + ["nope"]
        for a in vals:
            f = dict(full_flat)
            f[dk] = a
            dicts.append(_nest(f))
    f = dict(full_flat)
    for dk in dkeys:                                            # no dispatch key at all
        del f[dk]
    dicts.append(_nest(f))
    dicts.append(_nest(dict(full_flat, ZZ=1, **{"S.EXTRA": 2})))  # extra keys
    for k in rng.sample(KEYS, 2):                               # a value on which raise_if bodies raise
        dicts.append(_nest(dict(full_flat, **{k: "bad"})))
    dicts.append(_nest(dict(full_flat, **{"LABREA.EFFECTS.DISABLED": True})))
    dicts.append(_nest(dict(full_flat, **{"LABREA.CACHE.DISABLED": True, "A": 11})))
    # de-duplicate, keep order
    seen, out = set(), []
    for d in dicts:
        h = json.dumps(d, sort_keys=True)
        if h not in seen:
            seen.add(h)
            out.append(d)
    return out


def own_dispatch_key(spec, gname):
    """(option key that drives the top-level dispatch of a graph | None, read directly by the graph?)"""
    by = {ds["name"]: ds for ds in spec["datasets"]}
    for dv in spec.get("derived", []):
        if dv["name"] == gname:
            gname = dv["base"]
    ds = by.get(gname)
    if ds is None:
        return None, False
    d = ds.get("dispatch")
    if not d:
        return None, False
    if d[0] in ("key", "optd"):
        return d[1], True
    if d[0] == "nsm":
        return NS_DISPATCH[d[1]][0], True
    src = by[d[1]]["params"][0][1]
    return src[1], False


# ============================================================================ observation

def enc(v):
    """Neutral JSON encoding of a Python value (tuples are tagged results of user functions)."""
    from labrea._missing import MISSING
    if v is None:
        return None
    if v is MISSING:
        return {"M": 1}
    if isinstance(v, bool):
        return {"B": v}
    if isinstance(v, int):
        return {"I": v}
    if isinstance(v, str):
        return {"S": v}
    if isinstance(v, tuple):
        if is_stamp(v):
            return {"S": "@"}          # impure part of a value: masked here, judged by check_stamps
        return {"T": [enc(x) for x in v]}
    if isinstance(v, list):
        return {"L": [enc(x) for x in v]}
    if isinstance(v, dict):
        return {"O": [[k, enc(x)] for k, x in v.items()]}
    if callable(getattr(v, "as_tuple", None)):       # the value of a dataset defined by a CLASS: the instance
        return {"T": [enc("instance of " + type(v).__name__)] + [enc(x) for x in v.as_tuple()]}
    return {"?": type(v).__name__}


def is_stamp(v):
    return isinstance(v, tuple) and len(v) == 3 and v[0] == "@" and isinstance(v[1], int) and isinstance(v[2], int)


def stamps_of(v, out=None):
    """the stamps (os.getpid(), call counter) of impure bodies inside a value, in order"""
    out = [] if out is None else out
    if is_stamp(v):
        out.append(list(v))
    elif isinstance(v, (tuple, list)):
        for x in v:
            stamps_of(x, out)
    elif isinstance(v, dict):
        for x in v.values():
            stamps_of(x, out)
    elif callable(getattr(v, "as_tuple", None)):
        stamps_of(v.as_tuple(), out)
    return out


def classify(e):
    from labrea.exceptions import KeyNotFoundError
    from labrea.conditional import SwitchError
    chain, seen = [], set()
    while e is not None and id(e) not in seen:
        seen.add(id(e))
        chain.append(e)
        e = e.__cause__ if e.__cause__ is not None else (None if e.__suppress_context__ else e.__context__)
    if any(isinstance(x, KeyNotFoundError) for x in chain):
        return "missing"
    if any(isinstance(x, SwitchError) for x in chain):
        return "switch"
    root = chain[-1]
    if isinstance(root, RuntimeError) and type(root) is RuntimeError:
        return "user"
    if isinstance(root, TypeError):
        return "type"
    return "other:" + type(root).__name__


def attempt(f):
    try:
        return ["ok", f()]
    except Exception as e:  # noqa: BLE001
        return ["fail", classify(e)]


def observe(obj, dicts, log, stamps=None):
    out = []
    for o in dicts:
        n0 = len(log)
        raw = []

        def ev():
            raw.append(obj.evaluate(copy.deepcopy(o)))
            return enc(raw[0])
        v = attempt(ev)
        if stamps is not None:
            stamps.append(stamps_of(raw[0]) if raw else [])
        k = attempt(lambda: sorted(obj.keys(copy.deepcopy(o))))
        va = attempt(lambda: obj.validate(copy.deepcopy(o)) and None)
        x = attempt(lambda: sorted(obj.explain(copy.deepcopy(o))))
        out.append({"v": v, "k": k, "va": va, "x": x, "log": [enc(e) for e in log[n0:]]})
    return out


def strip_log(obs):
    return [{k: v for k, v in o.items() if k != "log"} for o in obs]


# ============================================================================ reflection

LOCK_TYPES = (type(threading.Lock()), type(threading.RLock()))


def importable(f):
    m = sys.modules.get(getattr(f, "__module__", None))
    cur = m
    try:
        for part in f.__qualname__.split("."):
            cur = getattr(cur, part)
    except AttributeError:
        return False
    return cur is f


def generic_state(root):
    """Canonical, JSON-able image of everything reachable through __dict__ / containers.
    Locks -> 'LOCK', functions and classes -> qualified names, shared objects -> back references
    (so the sharing structure is part of the image).  No repr text, no addresses."""
    memo, keep = {}, []

    def go(o):
        if o is None or isinstance(o, (bool, int, float, str)):
            return o
        if isinstance(o, bytes):
            return ["bytes", o.decode("latin-1")]
        if isinstance(o, LOCK_TYPES):
            return ["LOCK"]
        if isinstance(o, (types.FunctionType, types.BuiltinFunctionType)):
            return ["func", getattr(o, "__module__", None), getattr(o, "__qualname__", None)]
        if isinstance(o, types.MethodType):       # a bound method: the function AND the state of what it is bound to
            return ["method", go(o.__func__), go(o.__self__)]
        if isinstance(o, type):
            return ["type", o.__module__, o.__qualname__]
        import enum
        if isinstance(o, enum.Enum):
            return ["enum", type(o).__qualname__, o.name]
        if id(o) in memo:
            return ["ref", memo[id(o)]]
        memo[id(o)] = len(memo)
        keep.append(o)
        if isinstance(o, (list, tuple)):
            return [type(o).__name__] + [go(x) for x in o]
        if isinstance(o, dict):
            return ["dict"] + [[go(k), go(v)] for k, v in o.items()]
        import functools
        if isinstance(o, functools.partial):
            return ["partial", go(o.func), go(o.args), go(o.keywords), go(getattr(o, "__dict__", None))]
        if isinstance(o, (set, frozenset)):
            return ["set"] + sorted((go(x) for x in o), key=lambda s: json.dumps(s, sort_keys=True, default=str))
        d = getattr(o, "__dict__", None)
        cls = type(o)
        if d is None:
            slots = [s for c in cls.__mro__ for s in getattr(c, "__slots__", ())]
            if slots:
                return ["obj", cls.__module__, cls.__qualname__] + [[s, go(getattr(o, s, None))] for s in sorted(slots)]
            return ["opaque", cls.__module__, cls.__qualname__]
        return ["obj", cls.__module__, cls.__qualname__] + [[k, go(d[k])] for k in sorted(d)]

    return go(root)


def reach_funcs(root):
    """qualified name -> importable, for every plain function reachable from a graph (through __dict__ / containers)"""
    out, seen, stack = {}, set(), [root]
    while stack:
        o = stack.pop()
        if id(o) in seen or o is None or isinstance(o, (bool, int, float, str, bytes, type) + LOCK_TYPES):
            continue
        seen.add(id(o))
        if isinstance(o, types.FunctionType):
            if o.__module__ == getattr(root, "__module__", o.__module__) or not o.__module__.startswith("labrea"):
                out[o.__qualname__] = importable(o)
            continue
        if isinstance(o, (list, tuple, set, frozenset)):
            stack.extend(o)
        elif isinstance(o, dict):
            stack.extend(o.keys())
            stack.extend(o.values())
        elif hasattr(o, "__dict__") and type(o).__module__.startswith("labrea"):
            stack.extend(vars(o).values())
    return out


class Unmodelled(Exception):
    pass


IMPURE = "impure body (its value embeds the process id and a call counter)"
CYCLIC = "cyclic graph (the model's states are trees)"
USER = "user: "      # prefix: a user subclass of a library class / a definition that is not a plain function; outside the
#                      model ONLY in modules generated with such parts (spec["user"]); elsewhere the CODE left the model
OUTSIDE = {IMPURE: "impure_graph_states", CYCLIC: "cyclic_graph_states"}


def outside_model(spec, reason):
    """a reason for which a graph of this module is judged by the oracle alone -> the statistic it is counted under"""
    if reason in OUTSIDE:
        return OUTSIDE[reason]
    if spec.get("user") and str(reason).startswith(USER):
        return "user_kind_graph_states"
    if spec.get("namespaces") and str(reason).startswith("class labrea."):     # Namespace, Map, Apply (Option.auto >> f)
        return "namespace_graph_states"
    return None


def _user(o):
    return USER if not type(o).__module__.startswith("labrea") else ""


def _jsonable(v):
    if v is None or isinstance(v, (bool, int, str)):
        return True
    if isinstance(v, list):
        return all(_jsonable(x) for x in v)
    if isinstance(v, dict):
        return all(isinstance(k, str) and _jsonable(x) for k, x in v.items())
    return False


def model_state(root):
    """state_of: the image of a live graph in the constructors of Model/Pickle.v.
    Returns (tree, info) with info = {funcs: {name: importable}, ovs: [overloaded objects in
    pre-order], locks: [their lock slot]}.  Raises Unmodelled on anything outside the model."""
    from labrea._missing import MISSING
    from labrea.application import FunctionApplication
    from labrea.cache import MemoryCache, NoCache
    from labrea.computation import CallbackEffect
    from labrea.dataset import Dataset
    from labrea.option import Option
    from labrea.overload import Overloaded
    from labrea.pipeline import Pipeline, PipelineStep, _identity
    from labrea.template import Template
    from labrea.types import Value

    info = {"funcs": {}, "ovs": [], "locks": []}
    visiting = set()

    def need(o, *attrs):
        d = getattr(o, "__dict__", {})
        for a in attrs:
            if a not in d:
                raise Unmodelled(f"{type(o).__name__} has no attribute {a}")
        return [d[a] for a in attrs]

    def fname(f):
        if not isinstance(f, types.FunctionType):
            raise Unmodelled(f"{USER}definition is not a plain function: {type(f).__name__}")
        if "_stamp" in f.__code__.co_names:
            raise Unmodelled(IMPURE)
        info["funcs"][f.__qualname__] = importable(f)
        return f.__qualname__

    def vfunc(v):
        if type(v) is not Value:
            raise Unmodelled(f"expected Value(function), got {type(v).__name__}")
        (val,) = need(v, "value")
        return fname(val)

    def steps(p):
        if type(p) is not Pipeline:
            raise Unmodelled(f"{_user(p)}callback is {type(p).__name__}")
        tail, rest = need(p, "tail", "rest")
        out = steps(rest) if rest is not None else []
        if type(tail) is not PipelineStep:
            raise Unmodelled(f"{_user(tail)}pipeline tail {type(tail).__name__}")
        (st,) = need(tail, "step")
        if type(st) is Value and need(st, "value")[0] is _identity:
            return out
        return out + [vfunc(st)]

    def alias(k):
        if k is None or (isinstance(k, (int, str)) and not isinstance(k, bool)):
            return k
        raise Unmodelled(f"alias {k!r}")

    def go(o):
        if id(o) in visiting:
            raise Unmodelled(CYCLIC)
        visiting.add(id(o))
        try:
            return go1(o)
        finally:
            visiting.discard(id(o))

    def go1(o):
        t = type(o)
        if t is Value:
            (v,) = need(o, "value")
            if v is MISSING:
                return ["missingv"]
            if not _jsonable(v):
                raise Unmodelled(f"Value({type(v).__name__})")
            return ["value", v]
        if t is Template:
            tpl, params = need(o, "template", "params")
            if params or "{" in tpl or "}" in tpl or "\\" in tpl:
                raise Unmodelled("template with references")
            return ["value", tpl]
        if t is Option:
            key, default, typ, domain = need(o, "key", "default", "type", "domain")
            if domain is not MISSING:
                raise Unmodelled("option with domain")
            return ["option", key, None if default is MISSING else go(default)]
        if t is FunctionApplication:
            func, args = need(o, "func", "arguments")
            a, kw = need(args, "args", "kwargs")
            if need(a, "args")[0]:
                raise Unmodelled("positional arguments")
            (kwargs,) = need(kw, "kwargs")
            return ["apply", vfunc(func), [[n, go(x)] for n, x in kwargs.items()]]
        if t is Overloaded:
            dispatch, lookup, default, lock = need(o, "dispatch", "lookup", "default", "_lock")
            info["ovs"].append(o)
            info["locks"].append(lock)
            live = isinstance(lock, LOCK_TYPES)
            idx = len(info["ovs"]) - 1
            return ["overloaded", go(dispatch), [[alias(k), go(x)] for k, x in lookup.items()],
                    None if default is MISSING else go(default), live, idx]
        if t is Dataset:
            ov, effects, cache, options, dopts, cb, dis = need(
                o, "overloads", "effects", "cache", "options", "default_options", "callback", "_effects_disabled")
            effs = []
            for e in effects:
                if type(e) is not CallbackEffect:
                    raise Unmodelled(f"{_user(e)}effect {type(e).__name__}")
                effs.append(vfunc(need(e, "callback")[0]))
            if type(cache) is NoCache:
                c = ["nocache"]
            elif type(cache) is MemoryCache:
                ents = []
                for fp, val in need(cache, "_cache")[0].items():
                    try:
                        pairs = [[k, v] for item in json.loads(fp.decode()) for k, v in item.items()]
                    except Exception:  # noqa: BLE001  the model's cache is keyed by the fingerprint (JSON bytes)
                        raise Unmodelled(f"MemoryCache key of type {type(fp).__name__} is not the JSON fingerprint bytes")
                    ents.append([pairs, enc(val)])
                c = ["mem", ents]
            else:
                raise Unmodelled(f"{_user(cache)}cache {type(cache).__name__}")
            if not (_jsonable(options) and _jsonable(dopts)):
                raise Unmodelled("options")
            d = o.__dict__
            w = d.get("__wrapped__")
            wrapped = fname(w) if isinstance(w, types.FunctionType) else None
            return ["dataset", go(ov), effs, c, options, dopts, steps(cb), bool(dis), d.get("__name__"), wrapped]
        raise Unmodelled(f"class {t.__module__}.{t.__qualname__}")

    return go(root), info


# ============================================================================ rendering (Gallina terms and show strings)

class Render:
    def __init__(self):
        self.sym = lib.Sym(1)
        for r in RESERVED:
            self.sym(r)

    # --- atoms
    def seg(self, s):
        return ("x", int(s)) if s.isdigit() else ("n", self.sym(s))

    def fn(self, name):
        return self.sym("f:" + name)

    def pn(self, name):
        return self.sym("p:" + name)

    # --- Gallina
    def g_seg(self, s):
        k, n = self.seg(s)
        return f"(SName {n})" if k == "n" else f"(SIdx {n})"

    def g_key(self, key):
        return "[" + "; ".join(self.g_seg(s) for s in key.split(".")) + "]"

    def g_str(self, s):
        return "[" + "; ".join(f"TLit {ord(c)}" for c in s) + "]"

    def g_json(self, v):
        if v is None:
            return "JNull"
        if isinstance(v, bool):
            return f"(JBool {'true' if v else 'false'})"
        if isinstance(v, int):
            return f"(JInt ({v})%Z)"
        if isinstance(v, str):
            return f"(JStr {self.g_str(v)})"
        if isinstance(v, list):
            return "(JList [" + "; ".join(self.g_json(x) for x in v) + "])"
        if isinstance(v, dict):
            return "(JObj " + self.g_dict(v) + ")"
        raise Unmodelled(f"json {type(v).__name__}")

    def g_dict(self, d):
        return "[" + "; ".join(f"({self.g_seg(k)}, {self.g_json(v)})" for k, v in d.items()) + "]"

    def g_value(self, e):
        if e is None:
            return "(VJ JNull)"
        if "M" in e:
            return "VMissing"
        if "T" in e:
            items = e["T"]
            if items and isinstance(items[0], dict) and "S" in items[0]:
                return f"(VTag {self.fn(items[0]['S'])} [" + "; ".join(self.g_value(x) for x in items[1:]) + "])"
            raise Unmodelled("untagged tuple")
        return f"(VJ {self.g_json(dec_json(e))})"

    def g_hkey(self, a):
        if a is None:
            return "HNone"
        if isinstance(a, int):
            return f"(HInt ({a})%Z)"
        return f"(HStr {self.g_str(a)})"

    def g_opt(self, x, f):
        return "None" if x is None else f"(Some {f(x)})"

    def g_node(self, t, oid_of=None, lock_of=None):
        k = t[0]
        rec = lambda x: self.g_node(x, oid_of, lock_of)  # noqa: E731
        if k == "value":
            return f"(NValue {self.g_json(t[1])})"
        if k == "missingv":
            return "NMissingV"
        if k == "option":
            return f"(NOption {self.g_key(t[1])} {self.g_opt(t[2], rec)})"
        if k == "apply":
            return f"(NApply {self.fn(t[1])} [" + "; ".join(f"({self.pn(n)}, {rec(x)})" for n, x in t[2]) + "])"
        if k == "overloaded":
            idx = t[5]
            if t[4]:
                lock = f"(Live {oid_of[idx] if oid_of else idx + 1} {lock_of[idx] if lock_of else idx + 1})"
            else:
                lock = "(Pickled 0)"
            return (f"(NOverloaded {rec(t[1])} [" + "; ".join(f"({self.g_hkey(a)}, {rec(x)})" for a, x in t[2])
                    + f"] {self.g_opt(t[3], rec)} {lock})")
        if k == "dataset":
            c = "CNoCache" if t[3][0] == "nocache" else (
                "(CMemory [" + "; ".join(
                    "([" + "; ".join(f"({self.g_key(kk)}, {self.g_json(v)})" for kk, v in fp) + f"], {self.g_value(val)})"
                    for fp, val in t[3][1]) + "])")
            nm = "None" if t[8] is None else f"(Some {self.fn(t[8])})"
            w = "None" if t[9] is None else f"(Some {self.fn(t[9])})"
            return (f"(NDataset {rec(t[1])} [" + "; ".join(str(self.fn(e)) for e in t[2]) + f"] {c} "
                    f"{self.g_dict(t[4])} {self.g_dict(t[5])} [" + "; ".join(str(self.fn(e)) for e in t[6])
                    + f"] {'true' if t[7] else 'false'} (Meta {nm} {w}))")
        raise AssertionError(k)

    # --- show strings (mirror of Model/PickleRun.v, written independently of the Gallina printer)
    def s_seg(self, s):
        k, n = self.seg(s)
        return f"{k}{n}"

    def s_key(self, key):
        return ".".join(self.s_seg(s) for s in key.split("."))

    def s_str(self, s):
        return "s(" + ".".join(str(ord(c)) for c in s) + ")"

    def s_json(self, v):
        if v is None:
            return "n"
        if isinstance(v, bool):
            return "b" + ("T" if v else "F")
        if isinstance(v, int):
            return f"i{v}"
        if isinstance(v, str):
            return self.s_str(v)
        if isinstance(v, list):
            return "l[" + ",".join(self.s_json(x) for x in v) + "]"
        if isinstance(v, dict):
            return "o{" + ",".join(f"{self.s_seg(k)}:{self.s_json(x)}" for k, x in v.items()) + "}"
        return "?"

    def s_value(self, e):
        if e is None:
            return "n"
        if "M" in e:
            return "M"
        if "T" in e:
            items = e["T"]
            if items and isinstance(items[0], dict) and "S" in items[0]:
                return f"t{self.fn(items[0]['S'])}(" + ",".join(self.s_value(x) for x in items[1:]) + ")"
            return "?tuple"
        if "?" in e:
            return "?" + e["?"]
        return self.s_json(dec_json(e))

    def key_order(self, key):
        return [(0, n) if k == "x" else (1, n) for k, n in (self.seg(s) for s in key.split("."))]

    def s_keys(self, ks):
        return "[" + ",".join(self.s_key(k) for k in sorted(set(ks), key=self.key_order)) + "]"

    def s_res(self, r, f):
        return "ok:" + f(r[1]) if r[0] == "ok" else "fail:" + r[1]

    def s_obs(self, ob):
        return (self.s_res(ob["v"], self.s_value) + "|" + self.s_res(ob["k"], self.s_keys) + "|"
                + self.s_res(ob["va"], lambda _: ""))

    def s_hkey(self, a):
        return "n" if a is None else (f"i{a}" if isinstance(a, int) else self.s_str(a))

    def s_node(self, t):
        k = t[0]
        if k == "value":
            return f"V({self.s_json(t[1])})"
        if k == "missingv":
            return "MV"
        so = lambda x: "none" if x is None else f"some({self.s_node(x)})"  # noqa: E731
        if k == "option":
            return f"O({self.s_key(t[1])},{so(t[2])})"
        if k == "apply":
            return f"A({self.fn(t[1])}[" + ",".join(f"{self.pn(n)}={self.s_node(x)}" for n, x in t[2]) + "])"
        if k == "overloaded":
            return (f"OV({self.s_node(t[1])},[" + ",".join(f"{self.s_hkey(a)}=>{self.s_node(x)}" for a, x in t[2])
                    + f"],{so(t[3])},{'L' if t[4] else 'P'})")
        if k == "dataset":
            if t[3][0] == "nocache":
                c = "nocache"
            else:
                c = "mem[" + ",".join(
                    "[" + ",".join(f"{self.s_key(kk)}={self.s_json(v)}" for kk, v in sorted(fp, key=lambda p: self.key_order(p[0])))
                    + "]->" + self.s_value(val) for fp, val in t[3][1]) + "]"
            sn = lambda x: "none" if x is None else f"some({self.fn(x)})"  # noqa: E731
            return (f"D({self.s_node(t[1])},e[" + ",".join(str(self.fn(e)) for e in t[2]) + f"],{c},"
                    f"{self.s_json(t[4])},{self.s_json(t[5])},c[" + ",".join(str(self.fn(e)) for e in t[6])
                    + f"],{'T' if t[7] else 'F'},{sn(t[8])},{sn(t[9])})")
        raise AssertionError(k)

    def g_ftable(self, kinds):
        out = []
        for name, kind in sorted(kinds.items()):
            if kind == "first":
                out.append(f"({self.fn(name)}, KFirst)")
            elif kind == "raise_if":
                out.append(f"({self.fn(name)}, KRaiseIf (JStr {self.g_str('bad')}))")
            elif kind == "raise":
                out.append(f"({self.fn(name)}, KRaise)")
        return "[" + "; ".join(out) + "]"


def dec_json(e):
    if e is None:
        return None
    if "B" in e:
        return e["B"]
    if "I" in e:
        return e["I"]
    if "S" in e:
        return e["S"]
    if "L" in e:
        return [dec_json(x) for x in e["L"]]
    if "O" in e:
        return {k: dec_json(x) for k, x in e["O"]}
    raise Unmodelled("value " + json.dumps(e)[:40])


# ============================================================================ pickling

def _shadowed(f):
    """f is a function whose importable name is bound to an object wrapping it (decorator form)."""
    if not isinstance(f, types.FunctionType) or importable(f):
        return False
    m = sys.modules.get(f.__module__)
    holder = getattr(m, f.__qualname__, None) if "." not in f.__qualname__ else None
    return holder is not None and getattr(holder, "__dict__", {}).get("__wrapped__") is f


class BypassPickler(pickle.Pickler):
    """pickle, except that a function shadowed by its own dataset is stored by a persistent id:
    what a repair of D18 would have to achieve.  Used only to check everything else."""

    def persistent_id(self, obj):
        if isinstance(obj, types.FunctionType) and _shadowed(obj):
            return f"wrapped:{obj.__module__}:{obj.__qualname__}"
        return None


class BypassUnpickler(pickle.Unpickler):
    def persistent_load(self, pid):
        _, m, q = pid.split(":")
        return getattr(importlib.import_module(m), q).__dict__["__wrapped__"]


def dumps(obj, proto, bypass=False):
    if not bypass:
        return pickle.dumps(obj, protocol=proto)
    buf = io.BytesIO()
    BypassPickler(buf, protocol=proto).dump(obj)
    return buf.getvalue()


def loads(data, bypass=False):
    if not bypass:
        return pickle.loads(data)
    return BypassUnpickler(io.BytesIO(data)).load()


def with_timeout(f, timeout):
    """Run f() in a daemon thread; ('ok', result) | ('fail', class) | ('timeout', None)."""
    box = {}

    def run():
        try:
            box["r"] = ["ok", f()]
        except Exception as e:  # noqa: BLE001
            box["r"] = ["fail", classify(e)]

    th = threading.Thread(target=run, daemon=True)
    th.start()
    th.join(timeout)
    if th.is_alive():
        return ["timeout", None]
    return box["r"]


# ============================================================================ child interpreter

def child_main(jobfile):
    """Runs in a freshly started interpreter: unpickle every item, report state + observations,
    then register a further overload and observe again."""
    with open(jobfile) as fh:
        job = json.load(fh)
    res = []
    hung = [0]

    def reg(f):
        if hung[0] >= 2:
            return ["skipped", None]
        out = with_timeout(f, REGISTER_TIMEOUT)
        if out[0] == "timeout":
            hung[0] += 1
        return out

    for it in job["items"]:
        r = {"id": it["id"]}
        try:
            with open(it["path"], "rb") as fh:
                data = fh.read()
            h = loads(data, bypass=it["bypass"])
            mod = importlib.import_module(it["module"])
            if it.get("bundle"):
                r["gs"] = generic_state(h)
                target, obj = h
            else:
                r["gs"] = generic_state(h)
                try:
                    r["ms"] = model_state(h)[0]
                except Unmodelled as e:
                    r["ms"] = ["unmodelled", str(e)]
                r["st"] = []
                r["obs"] = observe(h, it["dicts"], mod.LOG, r["st"])
                target = obj = h
            r["pre"] = strip_log(observe(obj, it["reg_dicts"], mod.LOG))
            out = reg(lambda: target.register(it["new_alias"], mod.extra))
            r["register"] = out[0] if out[0] != "fail" else "fail:" + out[1]
            r["post"] = strip_log(observe(obj, it["reg_dicts"], mod.LOG)) if out[0] == "ok" else None
        except Exception as e:  # noqa: BLE001
            r["error"] = type(e).__name__
        res.append(r)
    with open(job["out"], "w") as fh:
        json.dump(res, fh)
    os._exit(0)   # a hung daemon thread (deadlocked register) must not keep the child alive


def start_child(scratch_dir, jobfile, hashseed):
    env = dict(os.environ)
    env["PYTHONPATH"] = os.pathsep.join([lib.REPO, os.path.join(lib.ROOT, "harness"), scratch_dir])
    env["PYTHONHASHSEED"] = str(hashseed)
    env["PYTHONDONTWRITEBYTECODE"] = "1"
    code = f"import props.c20 as m; m.child_main({jobfile!r})"
    return subprocess.Popen(["/venv/bin/python", "-W", "ignore", "-c", code], cwd=scratch_dir, env=env,
                            stdout=subprocess.PIPE, stderr=subprocess.PIPE, text=True)


# ============================================================================ one module, parent side

class ModuleRun:
    def __init__(self, ctx, spec, dicts, only=None):
        self.ctx, self.spec, self.dicts = ctx, spec, dicts
        self.only = only
        self.viol, self.mism = [], []
        self.model_cases = []          # (expr, impl string, payload)
        self.graphs = {}
        self.stats = {"observations": 0, "state_compares": 0, "pickles": 0, "d18_graphs": 0, "picklable_graphs": 0,
                      "unmodelled": 0, "register_checks": 0, "bundles": 0, "outcomes": {}}
        self.nontrivial = set()
        self.timeouts = 0

    # --- helpers
    def v(self, desc, gname, finding=None, **kw):
        self.viol.append(dict(desc=desc, graph=gname, finding=finding, module_spec=self.spec, **kw))

    def count_obs(self, obs):
        self.stats["observations"] += len(obs)
        for ob in obs:
            key = ob["v"][0] if ob["v"][0] == "ok" else "fail:" + ob["v"][1]
            self.stats["outcomes"][key] = self.stats["outcomes"].get(key, 0) + 1

    def load_module(self):
        path = os.path.join(self.ctx.scratch.dir, self.spec["module"] + ".py")
        with open(path, "w") as fh:
            fh.write(gen_source(self.spec))
        if self.ctx.scratch.dir not in sys.path:
            sys.path.insert(0, self.ctx.scratch.dir)
        importlib.invalidate_caches()
        out = with_timeout(lambda: importlib.import_module(self.spec["module"]), 60)
        if out[0] != "ok":
            raise RuntimeError(f"importing the generated module {self.spec['module']} failed: {out}")
        self.mod = out[1]
        self.R = Render()
        self.ftable = self.R.g_ftable(fn_kinds(self.spec))

    def snapshot(self, g, name, tag, rec):
        rec["gs" + tag] = generic_state(g)
        rec["mark" + tag] = self.mod.STAMPS[0]      # stamps up to here were computed before this snapshot
        try:
            ms, info = model_state(g)
            rec["ms" + tag], rec["info" + tag] = ms, info
        except Unmodelled as e:
            rec["ms" + tag], rec["info" + tag] = None, None
            rec["unmodelled"] = str(e)
            k = outside_model(self.spec, str(e))
            if k is not None:
                self.stats[k] = self.stats.get(k, 0) + 1
            else:      # the generator stays inside the model's universe: the CODE left it
                self.mism.append(dict(where="state_of(original) is outside Model/Pickle.v", graph=name, state=tag,
                                      error=str(e)[:200], module_spec=self.spec))
        by, byb = {}, {}
        for p in PROTOCOLS:
            try:
                by[p] = dumps(g, p)
            except Exception as e:  # noqa: BLE001
                by[p] = e
            self.stats["pickles"] += 1
        rec["bytes" + tag] = by
        if any(isinstance(b, Exception) for b in by.values()):
            for p in PROTOCOLS:
                try:
                    byb[p] = dumps(g, p, bypass=True)
                except Exception as e:  # noqa: BLE001
                    byb[p] = e
        rec["bypass" + tag] = byb

    def phase_ab(self):
        """States A (as found) and B (after one observation pass): snapshots, pickles, observations."""
        log = self.mod.LOG
        for name in graph_names(self.spec):
            if self.only and name != self.only:
                continue
            g = getattr(self.mod, name)
            rec = {"name": name}
            self.graphs[name] = rec
            self.snapshot(g, name, "A", rec)
            rec["stA"], rec["stB"] = [], []
            rec["obsA"] = observe(g, self.dicts, log, rec["stA"])
            self.snapshot(g, name, "B", rec)
            rec["obsB"] = observe(g, self.dicts, log, rec["stB"])
            self.count_obs(rec["obsA"])
            self.count_obs(rec["obsB"])
            if rec["msA"] is None:
                self.stats["unmodelled"] += 1
            if rec["msB"] is not None and rec["msB"][0] == "dataset" and rec["msB"][3][0] == "mem":
                self.stats["cache_entries_in_warm_pickles"] = (self.stats.get("cache_entries_in_warm_pickles", 0)
                                                               + json.dumps(rec["msB"]).count('"mem"'))
                self.stats["top_level_cache_entries_pickled"] = (self.stats.get("top_level_cache_entries_pickled", 0)
                                                                 + len(rec["msB"][3][1]))
            info = rec["infoA"]
            if info is None and outside_model(self.spec, rec.get("unmodelled")) is not None:
                info = {"funcs": reach_funcs(g)}      # the D18 zone is decided without the model's image
            d18_zone = info is not None and not all(info["funcs"].values())
            rec["d18_zone"] = d18_zone
            fails = {f"{p} (cold)": b for p, b in rec["bytesA"].items() if isinstance(b, Exception)}
            fails.update({f"{p} (warm)": b for p, b in rec["bytesB"].items() if isinstance(b, Exception)})
            rec["picklable"] = not fails
            if fails:
                classes = sorted({type(e).__name__ for e in fails.values()})
                is_d18 = d18_zone and classes == ["PicklingError"]
                self.v("pickle.dumps fails on a dataset graph", name, finding="D18" if is_d18 else None,
                       protocols=sorted(fails), error_classes=classes,
                       form="reaches a decorator-form function" if d18_zone else "all functions importable",
                       unimportable=sorted(k for k, ok in (info or {"funcs": {}})["funcs"].items() if not ok))
                if is_d18:
                    self.stats["d18_graphs"] += 1
            else:
                self.stats["picklable_graphs"] += 1
            # model: picklability, states, observations
            if rec["msA"] is not None:
                R = self.R
                imp = "[" + "; ".join(str(R.fn(f)) for f, ok in sorted(info["funcs"].items()) if ok) + "]"
                tA = R.g_node(rec["msA"])
                self.model_case(f"show_picklable {imp} {tA}", "T" if rec["picklable"] else "F",
                                dict(what="picklable", graph=name))
                for tag in ("A", "B"):
                    ms = rec["ms" + tag]
                    if ms is None:
                        continue
                    term = R.g_node(ms)
                    for i, (o, ob) in enumerate(zip(self.dicts, rec["obs" + tag])):
                        if tag == "B" and self.ctx.quick and i % 3:
                            continue            # warm state: a sample of the dictionaries in the quick tier
                        self.model_case(f"observe {self.ftable} {term} {R.g_dict(o)}", R.s_obs(ob),
                                        dict(what="observe", graph=name, state=tag, options=o))
            nontriv = self.graph_nontrivial(rec)
            for o, ob in zip(self.dicts, rec["obsA"]):
                if nontriv and ob["v"][0] == "ok":
                    self.nontrivial.add(lib.stable_hash([self.spec_of(name), o]))

    def spec_of(self, name):
        for ds in self.spec["datasets"]:
            if ds["name"] == name:
                return ds
            for ov in ds.get("overloads", []):
                if ov["target"][0] == "new" and ov["target"][1]["name"] == name:
                    return [ds, name]
        for dv in self.spec.get("derived", []):
            if dv["name"] == name:
                return [dv, [d for d in self.spec["datasets"] if d["name"] == dv["base"]]]
        return name

    def graph_nontrivial(self, rec):
        ms = rec.get("msA")
        if ms is None or ms[0] != "dataset":
            return True
        nested = json.dumps(ms).count('"dataset"') > 1
        return nested or bool(ms[1][2]) or bool(ms[4]) or bool(ms[5]) or bool(ms[6])

    def model_case(self, expr, impl, payload):
        self.model_cases.append((expr, impl, dict(payload, module=self.spec["module"])))

    def data_for(self, rec, tag, p):
        """bytes for (state, protocol): plain when picklable, else the D18-bypass pickle."""
        b = rec["bytes" + tag][p]
        if not isinstance(b, Exception):
            return b, False
        bb = rec["bypass" + tag].get(p)
        if bb is None or isinstance(bb, Exception):
            return None, True
        return bb, True

    def compare_copy(self, rec, h, tag, p, mode, log=None, obs=None, gs=None, want_gs=None):
        """Oracle: copy vs original in the given state (structure against the image of the very
        object that was pickled; behaviour against the original's pass from the same state)."""
        name = rec["name"]
        gs = generic_state(h) if gs is None else gs
        want_gs = rec["gs" + tag] if want_gs is None else want_gs
        self.stats["state_compares"] += 1
        if gs != want_gs:
            self.v("structural state differs after the round trip", name, protocol=p, mode=mode, state=tag,
                   diff=first_diff(want_gs, gs))
        if obs is None:
            st = []
            obs = observe(h, self.dicts, log, st)
            if want_gs is None:
                self.check_stamps(rec, tag, st, p, mode)
        self.count_obs(obs)
        want = rec["obs" + tag]
        for o, a, b in zip(self.dicts, want, obs):
            if a != b:
                fields = [k for k in a if a[k] != b.get(k)]
                self.v("unpickled dataset behaves differently from the original", name, protocol=p, mode=mode,
                       state=tag, options=o, fields=fields, original={k: a[k] for k in fields},
                       unpickled={k: b.get(k) for k in fields})
                break
        return gs, obs

    def check_stamps(self, rec, tag, got, p, mode):
        """Oracle (impure bodies): what the original, in the state that was pickled, served from its cache -- stamps
        computed before that snapshot -- the copy serves unchanged: the memoized entries travel and are still found.
        (Stamps the original computed afresh are unconstrained: the copy computes its own.)"""
        me = os.getpid()
        mark = rec["mark" + tag]
        for o, a, b in zip(self.dicts, rec["st" + tag], got):
            if len(a) != len(b):
                continue                      # the values differ in shape: reported by the comparison of values
            for x, y in zip(a, b):
                if x[1] == me and x[2] <= mark:
                    self.stats["memoized_stamps_checked"] = self.stats.get("memoized_stamps_checked", 0) + 1
                    if list(y) != list(x):
                        self.v("a result memoized before pickling is not served by the unpickled dataset: for the same options the "
                               "original returns the stored value, the copy computes a new one (the impure body shows it)",
                               rec["name"], protocol=p, mode=mode, state=tag, options=o,
                               original={"stamp (pid, call)": x[1:], "this process": me},
                               unpickled={"stamp (pid, call)": list(y)[1:]}, fields=["v"])
                        return

    def phase_copies(self, protos_warm):
        log = self.mod.LOG
        for name, rec in self.graphs.items():
            if name == "__bundles__":
                continue
            for tag in ("A", "B"):
                for p in PROTOCOLS:
                    if tag == "B" and p not in protos_warm:
                        continue
                    data, bypass = self.data_for(rec, tag, p)
                    if data is None:
                        if bypass:
                            self.v("graph cannot be pickled even with the decorator-form functions stored by name",
                                   name, protocol=p, state=tag, error=type(rec["bypass" + tag].get(p)).__name__)
                        continue
                    mode = "in-process" + ("/d18-bypass" if bypass else "")
                    try:
                        h = loads(data, bypass)
                    except Exception as e:  # noqa: BLE001
                        self.v("pickle.loads fails", name, protocol=p, mode=mode, state=tag, error=type(e).__name__)
                        continue
                    self.compare_copy(rec, h, tag, p, mode, log=log)
                    # a second generation: pickle the copy again
                    if tag == "A" and p == 4:
                        try:
                            gs_h = generic_state(h)     # h has gone through the same pass as the original: state B
                            h2 = loads(dumps(h, p, bypass), bypass)
                            self.compare_copy(rec, h2, "B", p, mode + "/second-generation", log=log, want_gs=gs_h)
                        except Exception as e:  # noqa: BLE001
                            self.v("re-pickling an unpickled dataset fails", name, protocol=p, mode=mode,
                                   error=type(e).__name__)
                    # the copy accepts a registration; the fresh interpreter must see the very same
                    status, pre, post = self.register_and_observe(h, rec)
                    if self.judge_registration(rec, status, pre, post, p, mode):
                        rec.setdefault("inproc", {})[(tag, p)] = [status, strip_log(pre), strip_log(post)]

    def phase_state_model(self):
        """Model correspondence on states: fresh copies (no observation in between)."""
        R = self.R
        for name, rec in self.graphs.items():
            if name == "__bundles__":
                continue
            for tag in ("A", "B"):
                ms, info = rec["ms" + tag], rec["info" + tag]
                if ms is None:
                    continue
                # the process: _LOCKS holds the original's ids with the original's locks
                lock_names, oid_of, lock_of = {}, {}, {}
                for i, (ov, lk) in enumerate(zip(info["ovs"], info["locks"])):
                    oid_of[i] = 100 + [id(x) for x in info["ovs"]].index(id(ov))
                    lock_of[i] = lock_names.setdefault(id(lk), 1 + len(lock_names))
                table = sorted({(oid_of[i], lock_of[i]) for i in oid_of})
                P = ("{| locks := [" + "; ".join(f"({a}, {b})" for a, b in table)
                     + "]; next_lock := 5000; next_id := 9000 |}")
                term = R.g_node(ms, oid_of, lock_of)
                for p in (PROTOCOLS if tag == "A" else [5]):
                    data, bypass = self.data_for(rec, tag, p)
                    if data is None:
                        continue
                    try:
                        h = loads(data, bypass)
                        msh, infoh = model_state(h)
                    except Exception as e:  # noqa: BLE001
                        self.mism.append(dict(where="state_of(unpickled copy)", graph=name, protocol=p, state=tag,
                                              error=type(e).__name__ + ": " + str(e)[:200], module_spec=self.spec))
                        continue
                    self.model_case(f"show_roundtrip {P} {term}", R.s_node(msh),
                                    dict(what="state after round trip", graph=name, state=tag, protocol=p, mode="in-process"))
                    if p == 5:
                        locks = []
                        for lk in infoh["locks"]:
                            if not isinstance(lk, LOCK_TYPES):
                                locks.append("int")
                            elif id(lk) in lock_names:
                                locks.append(f"o{lock_names[id(lk)]}")
                            else:
                                locks.append("new")
                        self.model_case(f"show_locks {P} {term}", "[" + ",".join(locks) + "]",
                                        dict(what="lock objects after round trip (same process)", graph=name, state=tag, protocol=p))

    def reg_dicts(self, name):
        """[{}, full, full with the graph's own dispatch key = the new alias, ... = an unregistered value]"""
        dk, _ = own_dispatch_key(self.spec, name)
        full = self.dicts[1]
        alias = "new_" + name
        out = [{}, full]
        if dk is not None:
            out.append(_nest_set(full, dk, alias))
            out.append(_nest_set(full, dk, "nope"))
        return alias, out

    # --- registration after the round trip
    NEW_ALIAS_IDX = 2     # index in reg_dicts of the dictionary selecting the new alias (when there is one)

    def register_and_observe(self, h, rec, target=None):
        """pre-observation, register(alias, extra) under a timeout, post-observation.
        Returns (status, pre, post)."""
        log = self.mod.LOG
        pre = observe(h, rec["rdicts"], log)
        if self.timeouts >= 3:
            return "skipped", pre, None
        t = h if target is None else target
        out = with_timeout(lambda: t.register(rec["alias"], self.mod.extra), REGISTER_TIMEOUT)
        self.stats["register_checks"] += 1
        if out[0] == "timeout":
            self.timeouts += 1
            return "timeout", pre, None
        if out[0] == "fail":
            return "fail:" + out[1], pre, None
        post = observe(h, rec["rdicts"], log)
        self.count_obs(pre)
        self.count_obs(post)
        return "ok", pre, post

    def judge_registration(self, rec, status, pre, post, p, mode):
        """Oracle on one object: it accepts the registration; dispatch values other than the new
        alias behave as before."""
        name = rec["name"]
        if status == "timeout":
            self.v("register on the unpickled dataset does not return (lock never released): deadlock",
                   name, protocol=p, mode=mode, timeout_s=REGISTER_TIMEOUT, alias=rec["alias"])
            return False
        if status.startswith("fail"):
            self.v("unpickled dataset rejects a further registration", name, protocol=p, mode=mode,
                   error=status[5:], alias=rec["alias"])
            return False
        if status != "ok":
            return False
        for i, o in enumerate(rec["rdicts"]):
            if i == self.NEW_ALIAS_IDX and len(rec["rdicts"]) > 2:
                continue
            a, b = strip_log([pre[i]])[0], strip_log([post[i]])[0]
            if a != b:
                self.v("a further registration on the unpickled dataset changed the behaviour for OTHER dispatch values",
                       name, protocol=p, mode=mode, options=o, alias=rec["alias"], before=a, after=b)
                return False
        return True

    def phase_register_copies(self):
        """Cold copies (state A): accept a registration; the model predicts the observations."""
        R = self.R
        for name, rec in self.graphs.items():
            if name == "__bundles__":
                continue
            for p in (0, 3, 5):
                data, bypass = self.data_for(rec, "A", p)
                if data is None:
                    continue
                mode = "in-process" + ("/d18-bypass" if bypass else "")
                try:
                    h = loads(data, bypass)
                except Exception:  # noqa: BLE001  (already reported)
                    continue
                status, pre, post = self.register_and_observe(h, rec)
                if not self.judge_registration(rec, status, pre, post, p, mode):
                    continue
                if rec["msA"] is not None and p == 5:
                    term = R.g_node(rec["msA"])
                    P = "{| locks := []; next_lock := 5000; next_id := 9000 |}"
                    try:
                        extra_ms = model_state(self.mod.extra)[0]
                    except Unmodelled as e:      # the registered dataset left the model's universe: say so, go on
                        self.mism.append(dict(where="state_of(registered dataset) is outside Model/Pickle.v", graph=name,
                                              error=str(e)[:200], module_spec=self.spec))
                        continue
                    for o, ob in zip(rec["rdicts"], post):
                        self.model_case(
                            f"observe_registered {self.ftable} {P} {term} {R.g_hkey(rec['alias'])} {R.g_node(extra_ms)} {R.g_dict(o)}",
                            R.s_obs(ob), dict(what="observe after register on the copy", graph=name, options=o, protocol=p))

    def phase_bundles(self):
        """base + derivative pickled together (state B): sharing of the overload table survives;
        a registration on the unpickled base is seen through the unpickled derivative."""
        for dv in self.spec.get("derived", []):
            if self.only and self.only not in (dv["name"], dv["base"]):
                continue
            base, der = getattr(self.mod, dv["base"]), getattr(self.mod, dv["name"])
            bundle = [base, der]
            gs0 = generic_state(bundle)
            alias = "newb_" + dv["name"]
            dk, _ = own_dispatch_key(self.spec, dv["base"])
            full = self.dicts[1]
            rdicts = [{}, full] + ([_nest_set(full, dk, alias), _nest_set(full, dk, "nope")] if dk else [])
            rec = {"name": dv["name"], "gs": gs0, "alias": alias, "rdicts": rdicts, "inproc": {}, "bytes": {}}
            self.graphs.setdefault("__bundles__", {})[dv["name"]] = rec
            for p in (2, 5):
                bypass = False
                try:
                    data = dumps(bundle, p)
                except Exception:  # noqa: BLE001
                    bypass = True
                    try:
                        data = dumps(bundle, p, bypass=True)
                    except Exception as e:  # noqa: BLE001
                        self.v("bundle cannot be pickled even with the D18 bypass", dv["name"], protocol=p,
                               error=type(e).__name__)
                        continue
                rec["bytes"][p] = (data, bypass)
                self.stats["bundles"] += 1
                try:
                    hb = loads(data, bypass)
                except Exception as e:  # noqa: BLE001
                    self.v("pickle.loads fails on a bundle", dv["name"], protocol=p, error=type(e).__name__)
                    continue
                gs = generic_state(hb)
                self.stats["state_compares"] += 1
                if gs != gs0:
                    self.v("structural state (incl. sharing between a dataset and its with_options derivative) differs "
                           "after the round trip", dv["name"], protocol=p, mode="in-process bundle", diff=first_diff(gs0, gs))
                status, pre, post = self.register_and_observe(hb[1], rec, target=hb[0])
                if self.judge_registration(rec, status, pre, post, p, "in-process bundle"):
                    rec["inproc"][p] = [status, strip_log(pre), strip_log(post)]

    def phase_register_same_state(self):
        """"Exactly as on the original": snapshot the original NOW, unpickle, apply the same
        registration to the copy and to the original, compare everything (same state, same history).
        This is the only phase that mutates the module's own graphs."""
        for name, rec in self.graphs.items():
            if name == "__bundles__":
                continue
            g = getattr(self.mod, name)
            copies = []
            for p in (1, 4):
                try:
                    bypass = not rec["picklable"]
                    h = loads(dumps(g, p, bypass), bypass)
                except Exception as e:  # noqa: BLE001
                    self.v("re-pickling the original in its current state fails", name, protocol=p, error=type(e).__name__)
                    continue
                mode = "in-process, same state as the original" + ("/d18-bypass" if bypass else "")
                status, pre, post = self.register_and_observe(h, rec)
                if self.judge_registration(rec, status, pre, post, p, mode):
                    copies.append((p, mode, pre, post))
            status, pre_g, post_g = self.register_and_observe(g, rec)
            if status != "ok":
                self.v("register on the ORIGINAL dataset fails", name, error=status)
                continue
            for p, mode, pre, post in copies:
                for what, a_list, b_list in (("before", pre_g, pre), ("after", post_g, post)):
                    for o, a, b in zip(rec["rdicts"], a_list, b_list):
                        if a != b:
                            fields = [k for k in a if a[k] != b.get(k)]
                            self.v(f"{what} a further registration the unpickled dataset behaves differently from the original "
                                   f"{what} the same registration", name, protocol=p, mode=mode, options=o, alias=rec["alias"],
                                   fields=fields, original={k: a[k] for k in fields}, unpickled={k: b.get(k) for k in fields})
                            break
            dk, direct = own_dispatch_key(self.spec, name)
            if dk is not None and direct and not self.dispatch_pinned(name, dk):
                v = post_g[self.NEW_ALIAS_IDX]["v"]
                if v[0] == "ok" and "extra_impl" not in json.dumps(v[1]):
                    self.v("after register(k, v) the ORIGINAL does not dispatch to v for k", name,
                           options=rec["rdicts"][self.NEW_ALIAS_IDX], value=v)
        for dname, rec in self.graphs.get("__bundles__", {}).items():
            dv = [d for d in self.spec["derived"] if d["name"] == dname][0]
            base, der = getattr(self.mod, dv["base"]), getattr(self.mod, dv["name"])
            try:
                bypass = False
                try:
                    data = dumps([base, der], 5)
                except Exception:  # noqa: BLE001
                    bypass = True
                    data = dumps([base, der], 5, bypass=True)
                hb = loads(data, bypass)
            except Exception as e:  # noqa: BLE001
                self.v("re-pickling a bundle in its current state fails", dname, error=type(e).__name__)
                continue
            st_h, pre_h, post_h = self.register_and_observe(hb[1], rec, target=hb[0])
            st_g, pre_g, post_g = self.register_and_observe(der, rec, target=base)
            if not self.judge_registration(rec, st_h, pre_h, post_h, 5, "in-process bundle, same state as the originals"):
                continue
            if st_g == "ok" and (pre_h, post_h) != (pre_g, post_g):
                i = next(i for i in range(len(rec["rdicts"])) if (pre_h[i], post_h[i]) != (pre_g[i], post_g[i]))
                self.v("registration on the unpickled base is not seen through the unpickled with_options derivative "
                       "as it is on the originals", dname, protocol=5, mode="in-process bundle, same state as the originals",
                       options=rec["rdicts"][i], original=[pre_g[i], post_g[i]], unpickled=[pre_h[i], post_h[i]])

    def dispatch_pinned(self, name, dk):
        g = getattr(self.mod, name)

        def has(d, key):
            cur = d
            for s in key.split("."):
                if not isinstance(cur, dict) or s not in cur:
                    return False
                cur = cur[s]
            return True
        return has(g.options, dk)

    # --- child jobs
    def child_items(self, protos_cold, protos_warm):
        items = []
        d = self.ctx.scratch.dir
        for name, rec in self.graphs.items():
            if name == "__bundles__":
                continue
            for tag, protos in (("A", protos_cold), ("B", protos_warm)):
                for p in protos:
                    data, bypass = self.data_for(rec, tag, p)
                    if data is None:
                        continue
                    iid = f"{self.spec['module']}:{name}:{tag}:{p}"
                    path = os.path.join(d, iid.replace(":", "_") + ".pkl")
                    with open(path, "wb") as fh:
                        fh.write(data)
                    items.append({"id": iid, "path": path, "bypass": bypass, "module": self.spec["module"],
                                  "dicts": self.dicts, "new_alias": rec["alias"], "reg_dicts": rec["rdicts"]})
        for dname, rec in self.graphs.get("__bundles__", {}).items():
            for p, (data, bypass) in rec["bytes"].items():
                iid = f"{self.spec['module']}:{dname}:bundle:{p}"
                path = os.path.join(d, iid.replace(":", "_") + ".pkl")
                with open(path, "wb") as fh:
                    fh.write(data)
                items.append({"id": iid, "path": path, "bypass": bypass, "module": self.spec["module"], "bundle": True,
                              "new_alias": rec["alias"], "reg_dicts": rec["rdicts"]})
        return items

    def check_child(self, r, hashseed):
        _, name, tag, p = r["id"].split(":")
        p = int(p)
        mode = f"fresh interpreter (PYTHONHASHSEED={hashseed})"
        norm = lambda x: json.loads(json.dumps(x))  # noqa: E731
        if tag == "bundle":
            rec = self.graphs["__bundles__"][name]
            mode += " bundle"
            want_gs, inproc, key = norm(rec["gs"]), rec["inproc"], p
        else:
            rec = self.graphs[name]
            if isinstance(rec["bytes" + tag][p], Exception):
                mode += "/d18-bypass"
            want_gs, inproc, key = norm(rec["gs" + tag]), rec.get("inproc", {}), (tag, p)
        if "error" in r:
            self.v("unpickling in a fresh interpreter fails", name, protocol=p, mode=mode, state=tag, error=r["error"])
            return
        self.stats["state_compares"] += 1
        if r["gs"] != want_gs:
            self.v("structural state differs after the round trip", name, protocol=p, mode=mode, state=tag,
                   diff=first_diff(want_gs, r["gs"]))
        if tag != "bundle":
            self.count_obs(r["obs"])
            self.check_stamps(rec, tag, r.get("st", []), p, mode)
            for o, a, b in zip(self.dicts, norm(rec["obs" + tag]), r["obs"]):
                if a != b:
                    fields = [k for k in a if a[k] != b.get(k)]
                    self.v("unpickled dataset behaves differently from the original", name, protocol=p, mode=mode,
                           state=tag, options=o, fields=fields, original={k: a[k] for k in fields},
                           unpickled={k: b.get(k) for k in fields})
                    break
        # registration: judged on its own, then against the in-process copy made from the same bytes
        if r["register"] != "skipped":
            self.stats["register_checks"] += 1
            ok = self.judge_registration(rec, r["register"], r["pre"], r["post"], p, mode)
            ref = inproc.get(key)
            if ok and ref is not None and [r["pre"], r["post"]] != norm(ref[1:]):
                i = next(i for i in range(len(rec["rdicts"])) if (r["pre"][i], r["post"][i]) != (norm(ref[1][i]), norm(ref[2][i])))
                self.v("before/after a further registration the dataset unpickled in a fresh interpreter behaves differently "
                       "from the one unpickled in the pickling process", name, protocol=p, mode=mode, state=tag,
                       options=rec["rdicts"][i], alias=rec["alias"], same_process=[norm(ref[1][i]), norm(ref[2][i])],
                       fresh_interpreter=[r["pre"][i], r["post"][i]])
        # correspondence: the state found in the child (taken right after loading) vs the model's
        # setstate (getstate t) in a process whose _LOCKS does not know the old ids
        if tag != "bundle" and rec["ms" + tag] is not None and isinstance(r.get("ms"), list) and p in (0, 2, 5):
            if r["ms"][0] == "unmodelled":
                self.mism.append(dict(where="state_of(unpickled copy) outside the model", graph=name, protocol=p, state=tag,
                                      mode=mode, error=r["ms"][1], module_spec=self.spec))
            else:
                P = "{| locks := []; next_lock := 5000; next_id := 9000 |}"
                self.model_case(f"show_roundtrip {P} {self.R.g_node(rec['ms' + tag])}", self.R.s_node(r["ms"]),
                                dict(what="state after round trip", graph=name, state=tag, protocol=p, mode=mode))


def _nest_set(d, key, val):
    out = copy.deepcopy(d)
    cur = out
    segs = key.split(".")
    for s in segs[:-1]:
        cur = cur.setdefault(s, {})
    cur[segs[-1]] = val
    return out


def first_diff(a, b, path=""):
    """Where two canonical images first differ (short, for the replay file)."""
    if type(a) != type(b):
        return {"at": path, "original": _short(a), "unpickled": _short(b)}
    if isinstance(a, list):
        if len(a) != len(b):
            return {"at": path, "original_len": len(a), "unpickled_len": len(b), "original": _short(a), "unpickled": _short(b)}
        for i, (x, y) in enumerate(zip(a, b)):
            if x != y:
                label = x[0] if isinstance(x, list) and x and isinstance(x[0], str) and isinstance(y, list) and y and x[0] == y[0] else i
                return first_diff(x, y, f"{path}/{label}")
        return None
    if a != b:
        return {"at": path, "original": _short(a), "unpickled": _short(b)}
    return None


def _short(x):
    s = json.dumps(x, default=str)
    return s if len(s) < 300 else s[:300] + "…"


# ============================================================================ D18 witness

D18_SPEC = {"module": None, "derived": [],
            "datasets": [{"name": "deco", "form": "decorator", "kind": "tag", "params": [["a", ["opt", "A"]]], "overloads": []},
                         {"name": "expl", "form": "explicit", "kind": "tag", "params": [["a", ["opt", "A"]]], "overloads": []}]}


def d18_witness(ctx, modname):
    spec = dict(D18_SPEC, module=modname)
    path = os.path.join(ctx.scratch.dir, modname + ".py")
    with open(path, "w") as fh:
        fh.write(gen_source(spec))
    if ctx.scratch.dir not in sys.path:
        sys.path.insert(0, ctx.scratch.dir)
    importlib.invalidate_caches()
    mod = importlib.import_module(modname)
    out = {}
    for n in ("deco", "expl"):
        try:
            h = pickle.loads(pickle.dumps(getattr(mod, n)))
            out[n] = ["ok", h.evaluate({"A": 1}) == getattr(mod, n).evaluate({"A": 1})]
        except Exception as e:  # noqa: BLE001
            out[n] = ["fail", type(e).__name__]
    still = out["deco"][0] == "fail"
    return still, out


# ============================================================================ run / replay

def run_specs(ctx, specs_dicts, hashseeds, only=None, quick=True):
    runs = []
    for spec, dicts in specs_dicts:
        mr = ModuleRun(ctx, spec, dicts, only=only)
        mr.load_module()
        mr.phase_ab()
        runs.append(mr)
    protos_warm = [5] if quick else PROTOCOLS
    for mr in runs:
        # aliases / registration dictionaries are needed by the child jobs
        for name, rec in mr.graphs.items():
            if name != "__bundles__":
                rec["alias"], rec["rdicts"] = mr.reg_dicts(name)
        mr.phase_bundles()
    # children: everything pickled so far; the first hash seed gets every protocol (its items are
    # split over a few interpreters), the others a sample
    children = []
    for hi, hs in enumerate(hashseeds):
        full = (hi == 0) or not quick
        per_mod = [mr.child_items(PROTOCOLS if full else [2], (protos_warm if full else protos_warm[:1]))
                   for mr in runs]
        n_chunks = min(len(per_mod), (3 if quick else 6) if full else (1 if quick else 6))
        for c in range(n_chunks):
            items = [it for k, its in enumerate(per_mod) if k % n_chunks == c for it in its]
            if not items:
                continue
            jobfile = os.path.join(ctx.scratch.dir, f"job_{hs}_{c}.json")
            outfile = os.path.join(ctx.scratch.dir, f"out_{hs}_{c}.json")
            with open(jobfile, "w") as fh:
                json.dump({"items": items, "out": outfile}, fh)
            children.append((hs, start_child(ctx.scratch.dir, jobfile, hs), outfile, len(items), time.time()))
    for mr in runs:
        mr.phase_copies(protos_warm)
        mr.phase_state_model()
        mr.phase_register_copies()
        mr.phase_register_same_state()
    child_stats = []
    budget = 150 if quick else 1500
    for hs, proc, outfile, n, t0 in children:
        try:
            _, err = proc.communicate(timeout=max(5, budget - (time.time() - t0)))
        except subprocess.TimeoutExpired:
            proc.kill()
            runs[0].v("the freshly started interpreter did not finish unpickling/observing within the time limit",
                      "(all)", mode=f"fresh interpreter (PYTHONHASHSEED={hs})", timeout_s=budget)
            continue
        if not os.path.exists(outfile):
            runs[0].mism.append(dict(where="child interpreter produced no output", hashseed=hs, stderr=err[-1500:]))
            continue
        with open(outfile) as fh:
            res = json.load(fh)
        child_stats.append({"hashseed": hs, "items": n, "wall_s": round(time.time() - t0, 1)})
        by_mod = {mr.spec["module"]: mr for mr in runs}
        for r in res:
            by_mod[r["id"].split(":")[0]].check_child(r, hs)
    return runs, child_stats


def py_digest(s):
    h = 7
    for b in s.encode("ascii"):
        h = (h * 1000003 + b) % 2305843009213693951
    return str(h)


def model_compare(ctx, runs, name="Cases_C20"):
    """One vm_compute run over all cases.  Long outputs (whole states) travel as a rolling hash
    computed inside Coq; a disagreeing case is re-evaluated alone to report the model's text."""
    cases = [c for mr in runs for c in mr.model_cases]
    mism = []
    if not cases:
        return 0, mism
    req = ["Model.Base", "Model.Pickle", "Model.PickleRun"]
    exprs = [f"digest ({c[0]})" if c[0].startswith("show_roundtrip") else c[0] for c in cases]
    uniq = list(dict.fromkeys(exprs))      # the same model expression serves every protocol / interpreter
    uniq.sort(key=len)                     # shards of similar cost
    n_sh = max(1, min(16, len(uniq) // 40), -(-len(uniq) // 400))
    order = [u for k in range(n_sh) for u in uniq[k::n_sh]]
    per = -(-len(order) // n_sh)
    got = dict(zip(order, ctx.coq_eval(name, req, "Open Scope N_scope.", order, shard=per)))
    lines = [got[e] for e in exprs]
    bad = []
    for (expr, impl, payload), ml in zip(cases, lines):
        want = py_digest(impl) if expr.startswith("show_roundtrip") else impl
        if ml != want:
            bad.append((expr, impl, payload, ml))
    for i, (expr, impl, payload, ml) in enumerate(bad[:5]):
        if expr.startswith("show_roundtrip"):
            try:
                ml = ctx.coq_eval(f"{name}_full{i}", req, "Open Scope N_scope.", [expr])[0]
            except Exception as e:  # noqa: BLE001
                ml = f"(digest {ml}; full text unavailable: {e!r})"[:300]
        mism.append(dict(where="Model/Pickle.v vs labrea (" + payload.get("what", "") + ")", scenario=payload,
                         impl=_around(impl, ml), model=_around(ml, impl), total_mismatches=len(bad)))
    return len(cases), mism


def _around(a, b, width=260):
    """the part of a where it first differs from b"""
    i = 0
    while i < min(len(a), len(b)) and a[i] == b[i]:
        i += 1
    lo = max(0, i - 80)
    return ("…" if lo else "") + a[lo:lo + width] + ("…" if lo + width < len(a) else "")


def run(ctx):
    rng = ctx.rng
    quick = ctx.quick
    n_mod = 4 if quick else 40
    tagid = f"{ctx.seed}_{os.getpid()}"
    specs = []
    for form in ("explicit", "decorator"):
        spec = fixed_spec(f"c20f_{tagid}_{form}", form)
        specs.append((spec, gen_dicts(rng, spec, quick)))
    spec = cyclic_spec(f"c20c_{tagid}")
    specs.append((spec, gen_dicts(rng, spec, quick)))
    import random
    spec = userkinds_spec(f"c20u_{tagid}")      # its dictionaries come from a generator of their own: the streams below are what they were
    specs.append((spec, gen_dicts(random.Random(f"C20-user-{ctx.seed}"), spec, quick)))
    for k in range(n_mod):
        mixed = (k % 2 == 1)
        spec = gen_world(rng, f"c20m_{tagid}_{k}", mixed, max_ds=5 if quick else 6)
        specs.append((spec, gen_dicts(rng, spec, quick)))
    for k in range(1 if quick else 10):      # modules with impure bodies (oracle only: outside Model/Pickle.v)
        spec = gen_world(rng, f"c20i_{tagid}_{k}", k % 2 == 1, max_ds=5 if quick else 6, impure=0.45, user=0.35)
        specs.append((spec, gen_dicts(rng, spec, quick)))
    hashseeds = [0, rng.randint(1, 4_000_000)] if quick else [0] + [rng.randint(1, 4_000_000) for _ in range(3)]
    runs, child_stats = run_specs(ctx, specs, hashseeds, quick=quick)
    n_model, mism = model_compare(ctx, runs)
    for mr in runs:
        mism += mr.mism
    viol = [v for mr in runs for v in mr.viol]
    viol.sort(key=lambda v: v.get("finding") is not None)      # unexplained failures first
    still, wit = d18_witness(ctx, f"c20w_{tagid}")
    stats = {}
    for mr in runs:
        for k, v in mr.stats.items():
            if isinstance(v, dict):
                d = stats.setdefault(k, {})
                for kk, vv in v.items():
                    d[kk] = d.get(kk, 0) + vv
            else:
                stats[k] = stats.get(k, 0) + v
    nontrivial = set()
    for mr in runs:
        nontrivial |= mr.nontrivial
    samples = []
    for mr in runs[:2]:
        for name, rec in list(mr.graphs.items())[:2]:
            if name == "__bundles__":
                continue
            samples.append({"module": mr.spec["module"], "graph": name, "picklable": rec["picklable"],
                            "options": mr.dicts[1], "observation": rec["obsA"][1]})
    forms = {"explicit": 0, "decorator": 0}
    feats = {"dispatch": 0, "abstract": 0, "options": 0, "default_options": 0, "callback": 0, "effects": 0, "nocache": 0,
             "overloads": 0, "derived": 0}
    for spec, _ in specs:
        for ds in spec["datasets"]:
            forms[ds["form"]] += 1
            for f in feats:
                if f == "overloads":
                    feats[f] += len(ds.get("overloads", []))
                elif f != "derived" and ds.get(f):
                    feats[f] += 1
        feats["derived"] += len(spec["derived"])
        feats["cycles"] = feats.get("cycles", 0) + len(spec.get("cycles", []))
    # keep the replay payloads small: the spec of the module, the graph, protocol, dictionary
    return {
        "evaluations": stats.get("observations", 0) + stats.get("state_compares", 0),
        "distinct_nontrivial": len(nontrivial),
        "rule": "generated importable modules (3-6 datasets each, explicit and decorator form, nested datasets, dispatch by key / "
                "Option with default / another dataset, overloads via register/overload/stacked/list aliases, pre-set and default "
                "options, callbacks, effects, nocache, with_options derivatives; every body logs its own call; the hand-written modules and one "
                "more generated module per four contain IMPURE bodies whose value embeds (os.getpid(), call counter); that module and a "
                "hand-written one contain CYCLIC graphs: an overload computed from a with_options copy of its own dataset; a further hand-written module and the "
                "impure generated one contain datasets defined by a class / functools.partial / bound method / classmethod / staticmethod / callable instance and "
                "datasets holding user subclasses of MemoryCache (bounded: misses as well as hits on the copy), Cache, Effect, PipelineStep with own state) x ~35 option dictionaries (sufficient, each key "
                "missing, every registered/unregistered dispatch value, extra keys, raising values, LABREA switches) x protocols 0-5 "
                "x {in-process, fresh interpreter with fixed and varied hash seed} x {cold, warm cache}; an evaluation = one "
                "(object, dictionary) observation (evaluate+keys+validate+explain+effect log) or one structural-state comparison; "
                "distinct by hash of (dataset definition, dictionary); non-trivial = the graph has nested datasets, overloads, "
                "pre-set/default options or a callback AND the evaluation succeeds",
        "samples": samples,
        "traces_validated_against_impl": n_model,
        "correspondence_mismatches": mism[:5],
        "violations": viol[:40],
        "known": [{"id": "D18", "still_fails": still, "what": D18_WHAT, "witness": wit}],
        "distribution": dict(stats, modules=len(specs), forms=forms, features=feats, children=child_stats, hashseeds=hashseeds,
                             model_cases=n_model, mismatches=len(mism), violations_total=len(viol),
                             violations_tagged_D18=sum(1 for v in viol if v.get("finding") == "D18")),
        "exhaustive": False,
        "assumptions": [
            "user functions are importable module-level functions; deterministic in their arguments (bodies return tagged tuples) except the "
            "bodies of kind 'stamp' (process id + call counter inside the value): their graphs are outside the model, judged by the oracle only "
            "(values compared with the stamp masked; stamps the original served from its cache must come back unchanged from the copy)",
            "option values are JSON without template braces, no scalar parents (D6 zone), aliases are str/int/None",
            "pickle.dumps/loads faithfully reconstruct attribute state: CPython, not a theorem; checked here for protocols 0-5",
            "MemoryCache contents are pickled with the dataset: cached values travel (checked: warm-state pickles)",
            "sharing between graphs survives only inside one pickle (checked on base + with_options derivative bundles)",
        ],
        "trusted_base": ["CPython pickle/copyreg (protocols 0-5), importlib: exercised, not modelled",
                         "reflection over __dict__ (state_of) and its two independent renderers (Gallina term / show string)"],
    }


def replay(ctx, payload):
    spec = payload.get("module_spec")
    if not spec:
        still, wit = d18_witness(ctx, f"c20w_replay_{os.getpid()}")
        return still, {"d18_witness": wit}
    spec = dict(spec, module=f"c20r_{os.getpid()}_{int(time.time()) % 100000}")
    import random
    dicts = gen_dicts(random.Random(0), spec, True)
    if payload.get("options") is not None and payload["options"] not in dicts:
        dicts.append(payload["options"])
    only = payload.get("graph") if payload.get("graph") not in (None, "(all)") else None
    if only and only not in graph_names(spec):
        only = None
    import re
    m = re.search(r"PYTHONHASHSEED=(\d+)", str(payload.get("mode", "")))
    other = int(m.group(1)) if m and int(m.group(1)) != 0 else 2718281       # always also a hash seed unlike the pickling process's
    runs, _ = run_specs(ctx, [(spec, dicts)], [0, other], only=only, quick=False)
    n, mism = model_compare(ctx, runs, name="Replay_C20")
    viol = [v for mr in runs for v in mr.viol]
    want = payload.get("finding")
    same = [v for v in viol if v.get("finding") == want and (only is None or v.get("graph") == only)]
    slim = [{k: v for k, v in x.items() if k != "module_spec"} for x in (same or viol)[:3]]
    return bool(same) or bool(mism), {"violations": slim, "correspondence_mismatches": mism[:2], "model_cases": n}
