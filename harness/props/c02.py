"""C02 - memoization is effective: one body run per relevant option assignment.

Correspondence: histories over long-lived dataset DAGs (diamonds, overloads, pre-set / default
options, nocache nodes, effects, with_options derivatives, dependencies pinned by a forced pre-set
section / scalar below cached consumers, bodies returning None / falsy constants) with exact repeats,
repeats in which the caller supplies / omits / changes what a forced pre-set overrides, repeats with
never-mentioned keys added, repeats with the top-level order permuted, relevant changes.

Oracle (implementation only; the model is not consulted): execution counters read off the call
log of the harness bodies / effects / recording caches:
  O1  per dataset evaluated at the root: among the successful cache-enabled evaluations that see the
      same values under every top-level option name the UNCACHED evaluation looks up (recorded by
      wrapping confectioner's lookups during a cache-disabled evaluation of a fresh copy), at most
      one runs the body; a caller's entry that a forced pre-set (options= / with_options / forced
      WithOptions node) overrides at every lookup below it - a scalar or a whole section, supplied,
      omitted or changed - is not part of that assignment;
  O2  an exact repeat / a repeat with never-mentioned top-level keys / a repeat with the top-level
      order permuted of a successful evaluation runs no body, no callback, no effect of the
      dataset, writes no cache entry, issues no log request (exactly exists+get when keys() of the
      graph runs no code);
  O3  within one evaluation a dataset reached through several consumers under unmodified options
      runs its body (and each effect) at most once;
  O4  effects: one call per body execution, right after it (and its callback), with its value,
      in registration order; never more calls than body executions;
  O5  a NoCache dataset evaluated at the root runs its body every time.
O1 also covers DEPENDENCIES: a cached dataset reached below the root under the root's own (unmodified)
dictionary belongs to the class of that dictionary, exactly as if it had been evaluated at the root.

Further families (added after seeded changes the families above did not notice):
  * LONG histories (sweep_scenarios, in the correspondence too): more than a hundred distinct assignments
    of the option one dataset depends on, then exact / extra-key / permuted repeats of early, middle and
    late ones - entries are never evicted; and, oracle only, api_sweep: thousands of distinct assignments
    on graphs built directly with labrea's public entry points (@dataset, dataset(cache=MemoryCache),
    cache=<instance>, set_cache, cached(...)), counted by counters inside the bodies and effects;
  * MUTATOR histories (mut_scenarios): public mutators of a dataset called BETWEEN evaluations of one
    long-lived graph - add_effects / add_effect (callbacks or Effect objects), disable_effects /
    enable_effects, set_cache (instance / callable / NoCache), set_dispatch, register, overload (decorator
    applied to an existing dataset), with_options / with_default_options derivatives taken after the first
    evaluation.  The history is read statically as a sequence of dataset tables (static_envs: what each
    mutator does to the description, mirroring dataset.py), which gives the model term (the same cache
    ids shared along the phases) and the per-operation table the oracle O1-O5 is evaluated against.
  * CACHE ENTRY POINTS x SPELLINGS OF A CACHE FACTORY: (a) entry_scenarios, in the correspondence too: the DAG profile
    above with every dataset created through one of labrea's other public ways of saying "this dataset is cached"
    (cache=<callable>, a kept and reused dataset(cache=<callable>) factory - plain, with further configuration, .where -,
    set_cache(<instance> | <callable>), dataset.nocache then set_cache), the callable being a function, a lambda, a
    functools.partial, a class, a bound method, a callable instance, a genuine Cache subclass given as the class, a
    partial of it, a function with defaulted keyword-only parameters (props/c01.py entry_builder_class: recording caches,
    one per dataset, so the model - one cache per dataset - applies unchanged); (b) oracle only, api_sweeps: every entry
    point (SPELLED_ENTRIES) x every spelling (SPELLINGS: the class MemoryCache, a user Cache class, a user MemoryCache
    subclass, partials, lambdas, functions, bound / static / class methods, callable objects), counters in the bodies.
"""
import contextlib

import coreprop as cp
import core
import gen
import lib
from gen import K
from witnesses import FIXED, WITNESSES, corpus_for

PID = "C02"
COQ_TARGETS = cp.COQ_TARGETS
NEVER = (40, 41)            # option names no generated graph / template / preset mentions
NEVER_NESTED = 26           # a never-mentioned name inside the section SEC
KNOWN = []                  # no defect of labrea recorded against C02 (see findings/C02.json)


# ----------------------------------------------------------------------------- generator

class Gen02(gen.Gen):
    """profile: graphs are mostly datasets consuming datasets (sharing), with effects / callbacks /
    nocache nodes / derivatives at higher rates than the generic profile"""

    def effect(self):
        rng = self.rng
        if rng.random() < 0.12:     # an effect callback that reads an option (zone of D9)
            dflt = ("value", ("j", 1)) if rng.random() < 0.5 else None
            return ("pstep", self.newf(("tag",)), [("option", rng.choice([K(13), K(10)]), dflt, None)])
        if self.f["with_failing"] and rng.random() < 0.08:
            return ("pstep", self.newf(("raise", rng.randint(1, 7))), [])
        return ("pstep", self.newf(("tag",)), [])

    def body_fid(self):
        """bodies whose RESULT is None or another falsy constant (sink / publish steps kept for their effects):
        a stored None / 0 / '' / [] / False must be served like any other stored value"""
        rng = self.rng
        if rng.random() < 0.07:
            self.note("const_body")
            return self.newf(("const", ("j", rng.choice([None, None, None, 0, False, core.lit(""), []]))))
        return super().body_fid()

    def forced_preset(self):
        """a dictionary to pin a dataset with: a section (one or both leaves), a scalar, a deep section, and
        the keys by which a dataset can read what it fixes (the whole entry, or a leaf)"""
        rng = self.rng
        r = rng.random()
        if r < 0.45:
            return {gen.SEC: {rng.choice([gen.SX, gen.SY]): rng.choice([1, 2, core.lit("a")])}}, [K(gen.SEC), K(gen.SEC), K(gen.SEC, gen.SX), K(gen.SEC, gen.SY)]
        if r < 0.65:
            return {gen.SEC: {gen.SX: rng.choice([1, 2]), gen.SY: rng.choice([0, core.lit("b")])}}, [K(gen.SEC), K(gen.SEC), K(gen.SEC, gen.SX)]
        if r < 0.85:
            k = rng.choice(gen.FLAT)
            return {k: rng.choice([1, 2, core.lit("a"), None])}, [K(k)]
        return {gen.DEEP[0]: {gen.DEEP[1]: {gen.DEEP[2]: rng.choice([1, 2])}}}, [K(gen.DEEP[0]), K(*gen.DEEP[:2]), K(*gen.DEEP)]

    def pinned(self, nxt):
        """base <- pin (with_options derivative | the dataset's own pre-set options | an explicit forced
        WithOptions node) <- one cached consumer, or two consumers and a top: what the pin fixes is read whole
        or by leaf BELOW the pin, so whatever the caller supplies there is overridden.  -> next free id"""
        rng = self.rng
        preset, readers = self.forced_preset()
        kwargs = [("option", rng.choice(readers), ("value", ("j", 0)) if rng.random() < 0.2 else None, None)]
        if rng.random() < 0.3:
            kwargs.insert(rng.randint(0, 1), self.leaf())
        base = nxt
        self.env[base] = dict(fid=self.body_fid(), kwargs=kwargs)
        nxt += 1
        how = rng.random()
        if how < 0.5:
            self.env[nxt] = dict(derived=base, how="with_options", preset=preset)
            pin = ("dataset", nxt)
            nxt += 1
        elif how < 0.75:
            self.env[base]["options"] = preset
            pin = ("dataset", base)
        else:
            pin = ("with", True, preset, ("dataset", base))
        n_cons = 1 if rng.random() < 0.6 else 2
        cons = []
        for _ in range(n_cons):
            kw = [pin]
            if rng.random() < 0.4:
                kw.insert(rng.randint(0, 1), ("option", K(rng.choice(gen.FLAT)), ("value", ("j", 0)), None))
            self.env[nxt] = dict(fid=self.body_fid(), kwargs=kw)
            if rng.random() < 0.5:
                self.env[nxt]["effects"] = [("pstep", self.newf(("tag",)), [])]
            cons.append(nxt)
            nxt += 1
        if n_cons == 2:
            self.env[nxt] = dict(fid=self.body_fid(), kwargs=[("dataset", c) for c in cons])
            nxt += 1
        self.note("pinned")
        return nxt

    def forced_presets_of(self, roots):
        """every forced pre-set dictionary of the scenario (datasets' options, with_options derivatives,
        forced WithOptions nodes)"""
        out = []
        for d in self.env.values():
            if d.get("options"):
                out.append(d["options"])
            if d.get("derived") is not None and d["how"] == "with_options":
                out.append(d["preset"])
        items = [roots] + [[d.get("kwargs", []), d.get("dispatch"), [im for _, im in d.get("overloads", [])]] for d in self.env.values()]
        for t in cp.sub_exprs(items):
            if t and t[0] == "with" and t[1]:
                out.append(t[2])
        return out

    def shadow_variant(self, base, preset):
        """the dictionary with the caller's entries under the names a forced pre-set mentions rewritten: dropped,
        replaced by the pre-set shape with other leaf values, replaced by the pre-set itself, or with exactly
        the overridden leaves changed (other leaves kept)"""
        rng = self.rng

        def releaf(p):
            if isinstance(p, dict):
                return {k: releaf(v) for k, v in p.items()}
            return rng.choice([0, 1, 2, 5, 7, core.lit("a"), core.lit("z"), None])

        def overwrite(cur, p):
            if isinstance(p, dict):
                out = dict(cur) if isinstance(cur, dict) else {}
                for k, v in p.items():
                    out[k] = overwrite(out.get(k), v)
                return out
            return releaf(p)
        o = {k: (dict(v) if isinstance(v, dict) else v) for k, v in base.items()}
        for k, p in preset.items():
            r = rng.random()
            if r < 0.25:
                o.pop(k, None)
            elif r < 0.55:
                o[k] = releaf(p)
            elif r < 0.7:
                o[k] = {a: (dict(b) if isinstance(b, dict) else b) for a, b in p.items()} if isinstance(p, dict) else p
            else:
                o[k] = overwrite(o.get(k), p)
        return o

    def decorate(self, d):
        rng = self.rng
        if d.get("derived") is not None:
            return
        if rng.random() < 0.35 and not d.get("effects"):
            d["effects"] = [self.effect() for _ in range(rng.randint(1, 2))]
            d.pop("effects_disabled", None)
            if rng.random() < 0.1:
                d["effects_disabled"] = True
        if rng.random() < 0.1:
            d["cache"] = "none"

    def consumer(self, dsid, deps, extra_leaf=0.3):
        rng = self.rng
        kwargs = [("dataset", x) for x in deps]
        if rng.random() < extra_leaf:
            kwargs.insert(rng.randint(0, len(kwargs)), self.leaf())
        d = dict(fid=self.body_fid(), kwargs=kwargs)
        if rng.random() < 0.15:
            d["callback"] = ("pstep", self.newf(("tag",)), [])
        if self.f["with_presets"] and rng.random() < 0.12:
            d["options" if rng.random() < 0.5 else "default_options"] = gen.rand_preset(rng)
        self.env[dsid] = d
        self.note("consumer_def")

    def scenario02(self, n_ops=14, switches=False):
        rng = self.rng
        nds = rng.randint(1, 3)
        for i in range(1, nds + 1):
            self.dataset(i)
        nxt = nds + 1
        extra_root = None
        shape = rng.random()
        if shape < 0.45:        # diamond: top <- a, b <- n
            n = rng.choice(list(self.env))
            a, b, top = nxt, nxt + 1, nxt + 2
            self.consumer(a, [n])
            self.consumer(b, [n])
            deps = [a, b] + ([n] if rng.random() < 0.3 else [])
            rng.shuffle(deps)
            self.consumer(top, deps)
            nxt += 3
            self.note("diamond")
        elif shape < 0.65:      # the same dependency twice among the parameters of one body
            n = rng.choice(list(self.env))
            self.consumer(nxt, [n, n])
            nxt += 1
            self.note("twice")
        elif shape < 0.8:       # a chain
            n = rng.choice(list(self.env))
            self.consumer(nxt, [n])
            self.consumer(nxt + 1, [nxt])
            nxt += 2
            self.note("chain")
        if rng.random() < 0.3:  # a derivative: pre-set on a never-mentioned name, or a random one
            bases = [j for j in self.env if self.env[j].get("derived") is None]
            b = rng.choice(bases)
            preset = {rng.choice(NEVER): rng.choice([1, 2])} if rng.random() < 0.6 else gen.rand_preset(rng)
            self.env[nxt] = dict(derived=b, how=rng.choice(["with_options", "with_default_options"]), preset=preset)
            nxt += 1
            self.note("derived_def")
            if rng.random() < 0.5 and not self.env[b].get("dispatch"):
                # the derivative of a dataset that has a callback AND effects: both belong to the derivative too
                self.env[b].setdefault("callback", ("pstep", self.newf(("tag",)), []))
                if not self.env[b].get("effects"):
                    self.env[b]["effects"] = [("pstep", self.newf(("tag",)), [])]
                extra_root = ("dataset", nxt - 1)
        concrete = [j for j in self.env if self.env[j].get("derived") is None and not self.env[j].get("abstract")]
        if concrete and rng.random() < 0.12:  # a sink: some dataset of the DAG returns None and is kept for its effect
            n = rng.choice(concrete)
            self.env[n]["fid"] = self.newf(("const", ("j", None)))
            self.env[n].pop("callback", None)
            self.env[n]["effects"] = [("pstep", self.newf(("tag",)), [])]
            self.env[n].pop("effects_disabled", None)
            self.note("sink")
        if rng.random() < 0.3:   # a pinned dependency below cached consumers (becomes the main root)
            nxt = self.pinned(nxt)
        if self.f["with_presets"] and rng.random() < 0.3:     # a scalar pre-set on a key some dataset reads
            for i, d in self.env.items():
                flat = [e[1][0][1] for e in d.get("kwargs", []) if e[0] == "option" and len(e[1]) == 1 and e[1][0][1] in gen.FLAT]
                if flat and d.get("derived") is None and not d.get("options"):
                    d["options"] = {rng.choice(flat): gen.rand_scalar(rng)}
                    break
        for d in self.env.values():
            self.decorate(d)
        ids = list(self.env)
        roots = [("dataset", max(ids))]
        others = [i for i in ids if i != max(ids)]
        if extra_root is not None and extra_root not in roots:
            roots.append(extra_root)
        for _ in range(rng.randint(1, 2)):
            r = rng.random()
            if r < 0.75 and others:
                roots.append(("dataset", rng.choice(others)))
            else:
                roots.append(self.expr(2, root=True))
        pool = self.dict_pool()
        if rng.random() < 0.7:      # a rich dictionary, so that whole DAGs evaluate successfully
            rich = dict(pool[0])
            for k in gen.FLAT:
                if k not in rich and rng.random() < 0.85:
                    rich[k] = rng.choice([0, 1, 2, core.lit("a")])
            if not isinstance(rich.get(gen.SEC), dict):
                rich[gen.SEC] = {}
            rich[gen.SEC] = dict(rich[gen.SEC])
            for k in (gen.SX, gen.SY):
                if k not in rich[gen.SEC] and rng.random() < 0.8:
                    rich[gen.SEC][k] = rng.choice([1, 2, core.lit("b")])
            if gen.LST not in rich and rng.random() < 0.6:
                rich[gen.LST] = [1, 2]
            pool = [rich, rich] + pool
        ops, meta = [], []
        forced = self.forced_presets_of(roots)
        for t in range(n_ops):
            r = rng.random()
            prior = [j for j, m in enumerate(ops) if m[0] == "evaluate"]
            cc = lc = False
            if r < 0.30 or not prior:
                idx, o, kind, src = rng.randrange(len(roots)), dict(rng.choice(pool)), "fresh", None
                if switches and rng.random() < 0.2:
                    sw = rng.choice([(2, 3), (2, 4), (5, 3), (6, 3)])
                    o[1] = {sw[0]: {sw[1]: rng.choice([True, True, False])}}
                cc = switches and rng.random() < 0.1
                lc = switches and rng.random() < 0.1
            else:
                src = rng.choice(prior)
                idx, base = ops[src][1], ops[src][4]
                if forced and rng.random() < 0.3:
                    # what a forced pre-set overrides is supplied / omitted / changed by the caller
                    o, kind = self.shadow_variant(base, rng.choice(forced)), "shadow"
                    if rng.random() < 0.3:
                        o[rng.choice(NEVER)] = rng.choice([0, 1, core.lit("z")])
                elif r < 0.50:
                    o, kind = dict(base), "repeat"
                elif r < 0.68:
                    items = list(base.items())
                    for a in rng.sample(NEVER, rng.randint(1, 2)):
                        items = [(k, v) for k, v in items if k != a]
                        items.insert(rng.randint(0, len(items)), (a, rng.choice([0, 1, 5, core.lit("z"), [1], {NEVER_NESTED: 1}])))
                    o, kind = dict(items), "extra"
                elif r < 0.82:
                    items = list(base.items())
                    rng.shuffle(items)
                    o, kind = dict(items), "perm"
                elif r < 0.88:
                    o = {k: (dict(v) if isinstance(v, dict) else v) for k, v in base.items()}
                    sec = dict(o.get(gen.SEC)) if isinstance(o.get(gen.SEC), dict) else {}
                    sec[NEVER_NESTED] = rng.choice([1, 2])
                    o[gen.SEC] = sec
                    kind = "nested-extra"
                else:
                    o = {k: (dict(v) if isinstance(v, dict) else v) for k, v in base.items()}
                    k = rng.choice(gen.FLAT)
                    o[k] = gen.rand_leafval(rng, 0.0, K(k))
                    kind = "changed"
            m = "evaluate" if (kind != "fresh" or rng.random() < 0.85) else rng.choice(["validate", "keys"])
            ops.append((m, idx, cc, lc, o))
            meta.append((kind, src))
        return dict(ftable=dict(self.ftable), env=dict(self.env), exprs=roots, ops=ops, meta=meta)


def generate(ctx, n):
    scns = []
    for i in range(n):
        g = Gen02(ctx.rng, with_alloptions=False, with_map=(i % 3 == 0), preset_on_ds=0.25 if i % 2 else 0.0,
                  with_templates=(i % 4 != 1))
        scns.append(g.scenario02(n_ops=16, switches=(i % 6 == 0)))
    return scns


# ----------------------------------------------------------------------------- scenario syntax helpers

def base_of(env, i):
    while env[i].get("derived") is not None:
        i = env[i]["derived"]
    return i


def fids_in(x):
    """function atoms occurring in an expression description (not following dataset references)"""
    out = []
    for t in cp.sub_exprs(x):
        if t and t[0] in ("call", "pstep", "fnvalue") and isinstance(t[1], int):
            out.append(t[1])
    return out


def own_fids(env, i):
    """the functions that run only when dataset i's cached region is computed and that cannot be
    run by a keys() computation: its body, the bodies of its overload implementations, its
    callback, its effects (top function of each)"""
    d = env[base_of(env, i)]
    body = [] if d.get("abstract") else [d["fid"]]
    impls = [impl[1] for _, impl in d.get("overloads", []) if impl[0] == "call"]
    cb = [d["callback"][1]] if d.get("callback") is not None else []
    effs = [e[1] for e in d.get("effects", []) or []]
    return dict(body=body, impls=impls, callback=cb, effects=effs)


def closure(env, root):
    """dataset ids reachable from an expression description"""
    seen, todo = set(), [root]
    while todo:
        x = todo.pop()
        for t in cp.sub_exprs(x):
            if t and t[0] == "dataset" and t[1] not in seen:
                seen.add(t[1])
                d = env[t[1]]
                if d.get("derived") is not None:
                    todo.append(("dataset", d["derived"]))
                else:
                    todo.append([d.get("kwargs", []), d.get("dispatch"), [im for _, im in d.get("overloads", [])],
                                 d.get("callback"), d.get("effects", [])])
    return seen


def plain_dispatch(x):
    """constant, or plain Option (no domain) whose default is such"""
    if x is None:
        return True
    if x[0] == "value":
        return True
    if x[0] == "option":
        return x[3] is None and plain_dispatch(x[2])
    return False


def keys_runs_no_code(env, root):
    """the Python twin of the fragment [kstatic] of the theorems: keys() of the graph evaluates
    nothing but constants and plain options"""
    for i in closure(env, root):
        d = env[i]
        if d.get("derived") is None and not plain_dispatch(d.get("dispatch")):
            return False
    items = [root] + [[d.get("kwargs", []), [im for _, im in d.get("overloads", [])], d.get("callback")]
                      for i, d in env.items() if i in closure(env, root) and d.get("derived") is None]
    for t in cp.sub_exprs(items):
        if not t:
            continue
        if t[0] in ("case", "coalesce", "map", "alloptions"):
            return False
        if t[0] in ("switch", "bind") and not plain_dispatch(t[1]):
            return False
    return True


def modifies_options(env, root):
    """some node below the root evaluates a sub-graph under changed options"""
    for i in closure(env, root):
        d = env[i]
        if d.get("options") or d.get("default_options") or d.get("derived") is not None:
            return True
    items = [root] + [[d.get("kwargs", []), d.get("dispatch"), [im for _, im in d.get("overloads", [])],
                       d.get("callback"), d.get("effects", [])]
                      for i, d in env.items() if i in closure(env, root) and d.get("derived") is None]
    return any(t and t[0] in ("with", "map", "template") for t in cp.sub_exprs(items))


def reliable(scn, i):
    """every function of the dataset's own region returns normally, and it has no overloads: a body
    run is always followed by its callback, effects and the cache write"""
    env = scn["env"]
    d = env[base_of(env, i)]
    if d.get("overloads") or d.get("abstract") or d.get("dispatch") is not None:
        return False
    f = own_fids(env, i)
    for fid in f["body"]:       # the body tags its arguments or returns a constant (None, falsy values, ...)
        if scn["ftable"].get(fid, ("tag",))[0] not in ("tag", "const"):
            return False
    for fid in f["callback"] + f["effects"]:
        if scn["ftable"].get(fid, ("tag",))[0] != "tag":
            return False
    return all(not e[2] for e in d.get("effects", []) or [])    # effect callbacks take no options


def body_value(scn, b, token):
    """the rendered value of one execution of body b, read off its call token"""
    desc = scn["ftable"].get(b, ("tag",))
    if desc[0] == "const":
        return core.show(core.py_value(desc[1]))
    return "t%d(%s" % (b, token[len(f"c{b}("):])


def cache_enabled(op):
    m, i, cc, lc, o = op
    if cc:
        return False
    lab = o.get(1)
    if isinstance(lab, dict) and isinstance(lab.get(2), dict) and (lab[2].get(3) or lab[2].get(4)):
        return False
    return not (1 in o and not isinstance(o.get(1), dict))


def effects_enabled(op):
    lab = op[4].get(1)
    return not (isinstance(lab, dict) and isinstance(lab.get(5), dict) and lab[5].get(3))


def count_calls(tokens, fid):
    p = f"c{fid}("
    return sum(1 for t in tokens if t.startswith(p))


def tokens_of(line):
    """event tokens of an observation line (a call token may contain spaces and brackets inside
    quoted strings)"""
    res, _, ev = line.partition("|")
    out, cur, depth, quote = [], "", 0, False
    for ch in ev:
        if ch == "'":
            quote = not quote
        elif not quote:
            if ch == " " and depth == 0:
                if cur:
                    out.append(cur)
                cur = ""
                continue
            if ch in "([{":
                depth += 1
            elif ch in ")]}":
                depth -= 1
        cur += ch
    if cur:
        out.append(cur)
    return out


# ----------------------------------------------------------------------------- independent "depends on"

@contextlib.contextmanager
def read_recorder(rec):
    """record the first segment of every dotted key labrea / confectioner look up, and whether the
    whole dictionary is read (AllOptions), while the block runs"""
    import confectioner.templating as ct
    import labrea.option as lo
    import labrea.types as lt
    import labrea.template as ltpl
    saved = [(ct, "get_dotted_key", ct.get_dotted_key), (ct, "dotted_key_exists", ct.dotted_key_exists),
             (lo, "get_dotted_key", lo.get_dotted_key), (lo, "dotted_key_exists", lo.dotted_key_exists),
             (lt, "get_dotted_key", lt.get_dotted_key), (lo, "resolve", lo.resolve), (ltpl, "resolve", ltpl.resolve)]
    depth = [0]
    orig_get, orig_exists, orig_resolve = ct.get_dotted_key, ct.dotted_key_exists, ct.resolve
    # the WithOptions layers (pre-set / default dictionaries of datasets, derivatives, explicit nodes) whose
    # evaluate() is on the Python stack when a lookup happens: [(forced?, that layer's dictionary)]
    layers = []
    orig_wo_evaluate = lo.WithOptions.evaluate

    def wo_evaluate(self, options):
        layers.append((bool(self.force), self.options))
        try:
            return orig_wo_evaluate(self, options)
        finally:
            layers.pop()

    def fixed_by_forced_layer(kind, dotted, answer):
        """the lookup was made below exactly ONE pre-set layer that mentions the top-level name, that layer
        is forced, and the answer is the very value the layer fixes for the looked-up key: whatever the
        caller supplies under that key is overridden, i.e. cannot be observed by this lookup"""
        name = str(dotted).split(".", 1)[0]
        mention = [(f, p) for f, p in layers if isinstance(p, dict) and name in p]
        if len(mention) != 1 or not mention[0][0]:
            return False
        found, v = plain_lookup(str(dotted), mention[0][1])
        if not found:
            return False
        if kind == "exists":
            return answer is True
        try:
            return bool(v == answer) and repr(v) == repr(answer)
        except Exception:
            return False

    def note(kind, dotted, outcome, fixed=False):
        name = str(dotted).split(".", 1)[0]
        rec["names"].add(name)
        rec["seen"].add((name, kind, str(dotted), outcome))
        rec["trace"].append((name, kind, str(dotted), outcome))     # in evaluation order (one entry per lookup SITE visit)
        if not fixed:
            rec.setdefault("open", set()).add(name)     # some lookup under the name may observe the caller's entry

    def get(dotted, options):
        top = depth[0] == 0
        depth[0] += 1
        try:
            r = orig_get(dotted, options)
            if top:
                note("get", dotted, repr(r), fixed_by_forced_layer("get", dotted, r))
            return r
        except Exception as e:
            if top:
                note("get", dotted, type(e).__name__)
            raise
        finally:
            depth[0] -= 1

    def exists(dotted, options):
        top = depth[0] == 0
        depth[0] += 1
        try:
            r = orig_exists(dotted, options)
            if top:
                note("exists", dotted, repr(r), fixed_by_forced_layer("exists", dotted, r))
            return r
        finally:
            depth[0] -= 1

    def resolve(o, options=None, **kw):
        if options is None:
            rec["all"] = True
        return orig_resolve(o, options, **kw)

    for mod, name, _ in saved:
        setattr(mod, name, {"get_dotted_key": get, "dotted_key_exists": exists, "resolve": resolve}[name])
    lo.WithOptions.evaluate = wo_evaluate
    try:
        yield rec
    finally:
        lo.WithOptions.evaluate = orig_wo_evaluate
        for mod, name, val in saved:
            setattr(mod, name, val)


def plain_lookup(dotted, d):
    """(found, value) of a dotted key in a plain JSON dictionary; written here, not confectioner's"""
    cur = d
    for part in dotted.split("."):
        if isinstance(cur, dict):
            if part not in cur:
                return False, None
            cur = cur[part]
        elif isinstance(cur, list) and part.lstrip("-").isdigit() and -len(cur) <= int(part) < len(cur):
            cur = cur[int(part)]
        else:
            return False, None
    return True, cur


def looked_up(scn, idx, options):
    """top-level option names the cache-free evaluation of a freshly built copy looks up"""
    rec = dict(names=set(), seen=set(), trace=[], all=False)
    with read_recorder(rec):
        line = cp.fresh_eval(scn, idx, options)
    return rec, line


def overlay(base, top):
    """base overlaid by top (top wins, sections merged key by key); written here, not confectioner's"""
    out = dict(base)
    for k, v in top.items():
        if isinstance(v, dict):
            out[k] = overlay(out[k] if isinstance(out.get(k), dict) else {}, v)
        else:
            out[k] = v
    return out


def preset_views(env, i):
    """(pre-set options, default options) of a dataset or derivative, merged along its derivation"""
    chain = []
    while env[i].get("derived") is not None:
        chain.append(env[i])
        i = env[i]["derived"]
    forced, defaults = dict(env[i].get("options") or {}), dict(env[i].get("default_options") or {})
    for d in reversed(chain):
        if d["how"] == "with_options":
            forced = overlay(forced, d["preset"])
        else:
            defaults = overlay(defaults, d["preset"])
    return forced, defaults


def preset_names(scn):
    """(names, sections): top-level names that occur in some pre-set / default dictionary, WithOptions
    node or Map key of the scenario; and those among them under which a SECTION is pre-set: there the
    caller's entry is merged with the pre-set one and a consumer's fingerprint (rightly) keeps the
    caller's whole entry.  Under a name with a DEFAULT (non-forced) pre-set the fingerprint also keeps
    the key exactly when the caller supplies it, so 'supplied or not' is part of the assignment."""
    names, sections = set(), set()

    def from_dict(p):
        for k, v in (p or {}).items():
            n = core.name_of(k) if isinstance(k, int) else str(k[1])
            names.add(n)
            if isinstance(v, dict):
                sections.add(n)
    for d in scn["env"].values():
        from_dict(d.get("options"))
        from_dict(d.get("default_options"))
        from_dict(d.get("preset"))
    for t in cp.sub_exprs([scn["exprs"], [list(d.get(f) or []) if isinstance(d.get(f), list) else d.get(f)
                                          for d in scn["env"].values() for f in ("kwargs", "dispatch", "callback", "effects")],
                           [[im for _, im in d.get("overloads", [])] for d in scn["env"].values()]]):
        if t and t[0] == "with":
            from_dict(t[2])
        if t and t[0] == "map":
            for kk, _ in t[2]:
                names.add(core.key_text(kk[:1]))
                if len(kk) > 1:
                    sections.add(core.key_text(kk[:1]))
    return names, sections


def assignment(scn, op, memo):
    """the class of an evaluation for O1: the dataset whose cache is used and, for every top-level
    option name the cache-free evaluation of a fresh copy looks up, the answers those lookups got
    in evaluation order (so a value fixed by a pre-set scalar counts as the same assignment whatever the
    caller supplies, and the same key read at two sites with the answers swapped does not);
    under a name where EVERY lookup was answered by the value a forced pre-set layer fixes for the looked-up
    key (scalar or whole section: the caller's entry is overridden wherever it could be read): the answers only;
    under the other names where sections are merged: what the caller supplies plus the sections it is merged with"""
    env = scn["env"]
    m, idx, cc, lc, o = op
    key = (idx, repr(o))
    if key not in memo:
        memo[key] = looked_up(scn, idx, o)
    rec, _ = memo[key]
    if "sections" not in memo:
        memo["preset_names"], memo["sections"] = preset_names(scn)
    root = scn["exprs"][idx][1]
    po = core.py_json(o)
    forced, defaults = preset_views(env, root)
    forced, defaults = core.py_json(forced), core.py_json(defaults)
    names = (set(po) | set(forced) | set(defaults)) if rec["all"] else rec["names"]
    sig = []
    for n in sorted(names):
        if not rec["all"] and n in memo["preset_names"] and n not in rec.get("open", ()):
            # EVERY lookup under this name was answered with the very value a forced pre-set layer fixes for
            # the looked-up key: the caller's entry under it (supplied or not, whatever its leaves) is
            # overridden everywhere it could be read -> not part of the assignment the dataset depends on
            sig.append((n, "fixed by forced pre-sets", tuple(x[1:] for x in rec["trace"] if x[0] == n)))
        elif rec["all"] or n in memo["sections"]:
            sig.append((n, "caller", repr(po[n]) if n in po else "<absent>",
                        repr(forced.get(n, "<none>")), repr(defaults.get(n, "<none>"))))
        else:
            # under a name some pre-set mentions, whether the (overlaid) caller dictionary supplies it
            # decides whether a nested WithOptions filter keeps the key: part of the assignment
            extra = (n in po, repr(forced.get(n, "<none>")), repr(defaults.get(n, "<none>"))) if n in memo["preset_names"] else None
            sig.append((n, "answers", tuple(x[1:] for x in rec["trace"] if x[0] == n), extra))
    return (base_of(env, root), tuple(sig))


# ----------------------------------------------------------------------------- the oracle

def cid_of(env, i):
    """the id of the cache object dataset i uses (its own id unless a set_cache mutator replaced it; derivatives
    use the cache of the dataset they were taken from)"""
    b = base_of(env, i)
    return env[b].get("cid", b)


def oracle(scn, il=None, envs=None, epochs=None, run=None):
    """-> list of failure dicts (desc, op_index, ...)
    envs / epochs (mutator histories only): the dataset table as it stands when operation j runs (static_envs)
    and a counter that changes whenever a mutator replaced a cache or changed what a dataset selects"""
    ops = scn["ops"]
    meta = scn.get("meta") or [("fresh", None)] * len(ops)
    if il is None:
        il = (run or core.run_impl)(scn)
    toks = [tokens_of(l) for l in il]
    ok = [cp.split(l)[0].startswith("ok:") for l in il]
    fails, checks = [], dict(O1=0, O2=0, O3=0, O4=0, O5=0, O1_overridden_entries=0, O1_dependencies=0)
    memos = {}

    def E(j):
        return scn["env"] if envs is None else envs[j]

    def S(j):
        return scn if envs is None else dict(scn, env=envs[j])

    def memo_of(j, tag=None):
        return memos.setdefault((id(E(j)), tag), {})

    def epoch(j):
        return 0 if epochs is None else epochs[j]

    def root_ds(j):
        x = scn["exprs"][ops[j][1]]
        return x[1] if x[0] == "dataset" and x[1] in E(j) else None

    def mem(j, i):
        env = E(j)
        return env[base_of(env, i)].get("cache", "mem") == "mem"

    # O1: at most one body-running successful evaluation per relevant assignment - of the dataset evaluated at
    # the root, and of every cached dataset reached below it under the root's own dictionary
    classes = {}
    for j, op in enumerate(ops):
        env = E(j)
        i = root_ds(j)
        if op[0] != "evaluate" or not cache_enabled(op):
            continue
        if i is not None and mem(j, i) and ok[j]:
            f = own_fids(env, i)
            ran = sum(count_calls(toks[j], x) for x in f["body"] + f["impls"])
            if f["body"] or f["impls"]:
                try:
                    cls = assignment(S(j), op, memo_of(j))
                except Exception as e:  # the reference evaluation itself broke: not a statement about the cache
                    cls = None
                if cls is not None:
                    cls = (cid_of(env, i), epoch(j), cls[1])
                    checks["O1"] += 1
                    if any(e[1] == "fixed by forced pre-sets" for e in cls[2]):
                        checks["O1_overridden_entries"] += 1     # (a sub-count of O1, not a further evaluation)
                    if ran:
                        if cls in classes:
                            fails.append(dict(oracle="O1", desc="the dataset's body ran again under the same assignment of the options it depends on",
                                              op_index=j, first_run_at=classes[cls], depends_on=[e[0] for e in cls[2]]))
                        else:
                            classes[cls] = j
        root = scn["exprs"][op[1]]
        if root[0] == "dataset" and root[1] not in env:
            continue
        if modifies_options(env, root):
            continue
        for d in sorted(closure(env, root)):
            if d == i or env[d].get("derived") is not None or not mem(j, d) or not reliable(S(j), d):
                continue
            b = own_fids(env, d)["body"][0]
            if not count_calls(toks[j], b):
                continue
            try:    # the class of the root's dictionary for d, exactly as if d had been evaluated at the root
                cls = assignment(dict(S(j), exprs=list(scn["exprs"]) + [("dataset", d)]), (op[0], len(scn["exprs"])) + tuple(op[2:]), memo_of(j, d))
            except Exception:
                continue
            cls = (cid_of(env, d), epoch(j), cls[1])
            checks["O1_dependencies"] += 1
            if cls in classes and classes[cls] != j:
                fails.append(dict(oracle="O1", desc=f"the body of dataset {d}, reached below the root under the root's own dictionary, ran again under "
                                                    "the same assignment of the options it depends on",
                                  op_index=j, first_run_at=classes[cls], dataset=d, depends_on=[e[0] for e in cls[2]]))
            else:
                classes.setdefault(cls, j)

    # O2: repeat / never-mentioned keys / permuted order run nothing
    for j, op in enumerate(ops):
        env = E(j)
        kind, src = meta[j]
        i = root_ds(j)
        if kind not in ("repeat", "extra", "perm") or op[0] != "evaluate" or i is None or not mem(j, i):
            continue
        if not (cache_enabled(op) and cache_enabled(ops[src]) and ok[src]):
            continue
        checks["O2"] += 1
        f = own_fids(env, i)
        cid = cid_of(env, i)
        bad = None
        if not ok[j]:
            bad = "fails although the original evaluation succeeded"
        else:
            for role in ("body", "impls", "callback", "effects"):
                for x in f[role]:
                    if count_calls(toks[j], x):
                        bad = f"runs its {role if role != 'impls' else 'overload implementation'} (function {x})"
            if f"set{cid}" in toks[j]:
                bad = bad or "writes its cache entry again"
            if not (f"ex{cid}T" in toks[j] and f"get{cid}T" in toks[j]):
                bad = bad or "is not served by exists+get of its cache"
            nocache_below = any(env[base_of(env, x)].get("cache", "mem") != "mem" for x in closure(env, ("dataset", i)))
            if not nocache_below and any(t in ("log", "emit") or t.startswith("set") for t in toks[j]):
                bad = bad or "issues a log request / writes a cache entry"
            if keys_runs_no_code(env, ("dataset", i)) and toks[j] != [f"ex{cid}T", f"get{cid}T"]:
                bad = bad or "does more than exists+get although keys() of the graph runs no code"
            if not bad and cp.split(il[j])[0] != cp.split(il[src])[0] and "[" not in cp.split(il[src])[0]:
                bad = "returns a different value"
        if bad:
            fails.append(dict(oracle="O2", desc=f"a {kind} evaluation {bad}", op_index=j, variant_of=src, events=toks[j][:12]))

    # O2 for a root that is a plain cached(...) node: served by exists+get, no second write
    for j, op in enumerate(ops):
        kind, src = meta[j]
        x = scn["exprs"][op[1]]
        if kind not in ("repeat", "extra", "perm") or op[0] != "evaluate" or x[0] != "cached" or x[1] is None:
            continue
        if not (cache_enabled(op) and cache_enabled(ops[src]) and ok[src]):
            continue
        checks["O2"] += 1
        cid = x[1]
        if not ok[j] or f"set{cid}" in toks[j] or not (f"ex{cid}T" in toks[j] and f"get{cid}T" in toks[j]):
            fails.append(dict(oracle="O2", desc=f"a {kind} evaluation of a cached node is not served by exists+get of its cache",
                              op_index=j, variant_of=src, events=toks[j][:12]))

    # O3: sharing inside one evaluation
    for j, op in enumerate(ops):
        env = E(j)
        if op[0] != "evaluate" or not cache_enabled(op) or not ok[j]:
            continue
        root = scn["exprs"][op[1]]
        if modifies_options(env, root):
            continue
        for i in closure(env, root):
            if env[i].get("derived") is not None or not mem(j, i) or not reliable(S(j), i):
                continue
            checks["O3"] += 1
            f = own_fids(env, i)
            for x in f["body"] + (f["effects"] if effects_enabled(op) and not env[i].get("effects_disabled") else []):
                n = count_calls(toks[j], x)
                if n > 1:
                    fails.append(dict(oracle="O3", desc=f"dataset {i} shared by several consumers ran function {x} {n} times in one evaluation",
                                      op_index=j, dataset=i))

    # O4: effects follow the body, once, with its value
    for j, op in enumerate(ops):
        if op[0] != "evaluate":
            continue
        if envs is not None:
            o4_variants(S(j), op, j, toks[j], fails, checks)
            continue
        env = E(j)
        for i, d in env.items():
            if d.get("derived") is not None or not d.get("effects") or not reliable(scn, i):
                continue
            f = own_fids(env, i)
            b = f["body"][0]
            # a with_options / with_default_options derivative is a NEW Dataset object whose effects are
            # enabled again (Dataset.__init__; mirrored by Derived.ds_with_options): when the dataset
            # has disable_effects() AND a derivative, which of the two objects ran is not visible in
            # the call log -> both "all effects" and "no effect" are accepted per body execution
            derived_too = any(x.get("derived") is not None and base_of(env, k) == i for k, x in env.items())
            on = effects_enabled(op) and not d.get("effects_disabled")
            ambiguous = effects_enabled(op) and d.get("effects_disabled") and derived_too
            T = toks[j]
            positions = [t for t, x in enumerate(T) if x.startswith(f"c{b}(")]
            if not positions and not any(count_calls(T, e) for e in f["effects"]):
                continue
            checks["O4"] += 1
            for e in f["effects"]:
                n = count_calls(T, e)
                if ambiguous:
                    if n > len(positions):
                        fails.append(dict(oracle="O4", desc=f"effect {e} of dataset {i} ran {n} times for {len(positions)} body executions",
                                          op_index=j, dataset=i))
                elif n != (len(positions) if on else 0):
                    fails.append(dict(oracle="O4", desc=f"effect {e} of dataset {i} ran {n} times for {len(positions)} body executions"
                                                        + ("" if on else " although effects are disabled"), op_index=j, dataset=i))
            for t in positions:
                val = body_value(scn, b, T[t])
                seq = []
                if f["callback"]:
                    seq.append(f"c{f['callback'][0]}({val})")
                    val = f"t{f['callback'][0]}({val})"
                cb_only = list(seq)
                seq += [f"c{e}({val})" for e in f["effects"]]
                got = T[t + 1:t + 1 + len(seq)]
                good = (got == seq) if on else (got[:len(cb_only)] == cb_only and
                                               (not ambiguous or got == seq or not any(g.startswith(f"c{e}(") for g in got for e in f["effects"])))
                if not good:
                    fails.append(dict(oracle="O4", desc=f"dataset {i}: body execution is not followed by its callback and effects, in order, applied to its value",
                                      op_index=j, dataset=i, expected=seq, got=got))

    # O5: NoCache datasets run every time
    for j, op in enumerate(ops):
        env = E(j)
        i = root_ds(j)
        if op[0] != "evaluate" or i is None or mem(j, i) or not ok[j] or env[i].get("derived") is not None or not reliable(S(j), i):
            continue
        checks["O5"] += 1
        n = count_calls(toks[j], own_fids(env, i)["body"][0])
        if n != 1:
            fails.append(dict(oracle="O5", desc=f"NoCache dataset {i} evaluated at the root ran its body {n} times", op_index=j, dataset=i))
    return fails, checks


def o4_variants(scn, op, j, T, fails, checks):
    """O4 on a mutator history: the datasets that can execute one body (the dataset itself and the derivatives
    taken from it at some moment, each with the effects it held THEN) are told apart by nothing in the call
    log, so every execution of the body must be followed by the callback and the effects of ONE of them, in
    order, applied to its value - and no effect of the family runs anywhere else.  scn's env is the table of
    this operation."""
    env = scn["env"]
    fam = {}
    root = scn["exprs"][op[1]]
    reach = closure(env, root) if not (root[0] == "dataset" and root[1] not in env) else set()
    for i, d in env.items():
        if d.get("derived") is not None or d.get("abstract"):
            continue
        fam.setdefault(d["fid"], []).append(i)
    for b, members in fam.items():
        if not all(reliable(scn, i) for i in members):
            continue
        variants, fids = [], set()
        for i in members:
            d = env[i]
            f = own_fids(env, i)
            fids.update(f["callback"] + f["effects"])
            # only the objects this operation's root reaches can have executed the body
            if not d.get("snapshot") and i in reach:      # the dataset itself
                variants.append((tuple(f["callback"]), tuple(f["effects"]), effects_enabled(op) and not d.get("effects_disabled")))
            for k, x in env.items():       # a derivative is a new Dataset object: its effects are enabled
                if x.get("derived") is not None and base_of(env, k) == i and k in reach:
                    variants.append((tuple(f["callback"]), tuple(f["effects"]), effects_enabled(op)))
        positions = [t for t, x in enumerate(T) if x.startswith(f"c{b}(")]
        stray = sum(count_calls(T, e) for e in fids)
        if not positions and not stray:
            continue
        checks["O4"] += 1
        for t in positions:
            tail = []
            for x in T[t + 1:]:
                if not any(x.startswith(f"c{e}(") for e in fids):
                    break
                tail.append(x)
            stray -= len(tail)
            expected = []
            for cb, effs, on in variants:
                val = body_value(scn, b, T[t])
                seq = []
                if cb:
                    seq.append(f"c{cb[0]}({val})")
                    val = f"t{cb[0]}({val})"
                if on:
                    seq += [f"c{e}({val})" for e in effs]
                expected.append(seq)
            if tail not in expected:
                fails.append(dict(oracle="O4", desc=f"body {b}: an execution is not followed by the callback and the effects attached to the dataset "
                                                    "at that moment, once each, in registration order, applied to its value",
                                  op_index=j, datasets=members, expected=expected[:3], got=tail))
        if stray:
            fails.append(dict(oracle="O4", desc=f"body {b}: {stray} callback / effect call(s) of its dataset(s) outside a body execution", op_index=j,
                              datasets=members))


# ----------------------------------------------------------------------------- fixed scenarios (always run)

def _ds(fid, kwargs, **kw):
    return dict(fid=fid, kwargs=kwargs, **kw)


def fixed_scenarios():
    A, B, Z = 10, 11, 12
    opt = lambda k, d=None: ("option", K(k), d, None)
    ev = lambda i, o: ("evaluate", i, False, False, o)
    out = []
    # the diamond of Properties/C02.v: top <- a, b <- n ; n has an effect
    env = {1: _ds(100, [opt(A)], effects=[("pstep", 110, [])]), 2: _ds(101, [("dataset", 1)]),
           3: _ds(102, [("dataset", 1)]), 4: _ds(103, [("dataset", 2), ("dataset", 3)])}
    o1, o1p = {A: 1, Z: 5}, {Z: 5, A: 1}
    o1x, o2 = {A: 1, Z: 6, NEVER[0]: 7}, {A: 2, Z: 5}
    out.append(("diamond", dict(ftable={}, env=env, exprs=[("dataset", 4), ("dataset", 1)],
                                ops=[ev(0, o1), ev(0, o1), ev(0, o1p), ev(0, o1x), ev(0, o2), ev(1, o1), ev(1, o2), ev(1, {A: 3})],
                                meta=[("fresh", None), ("repeat", 0), ("perm", 0), ("extra", 0), ("changed", 0),
                                      ("fresh", None), ("fresh", None), ("fresh", None)])))
    # pre-set options do not split cache entries; derivatives share the cache
    env = {1: _ds(100, [opt(A), opt(B, ("value", ("j", 0)))], options={A: 5}, callback=("pstep", 105, []),
                  effects=[("pstep", 110, []), ("pstep", 111, [])]),
           2: dict(derived=1, how="with_options", preset={NEVER[1]: 1}),
           3: dict(derived=1, how="with_default_options", preset={NEVER[0]: 2})}
    out.append(("presets+derived", dict(ftable={}, env=env, exprs=[("dataset", 1), ("dataset", 2), ("dataset", 3)],
                                        ops=[ev(0, {A: 1}), ev(0, {A: 2}), ev(0, {}), ev(1, {A: 9}), ev(2, {}), ev(0, {B: 1}), ev(1, {B: 1}),
                                             ev(2, {B: 1, A: 3}), ev(0, {B: 0}),
                                             # the derivatives run the body themselves (misses): callback and effects follow it
                                             ev(1, {B: 2}), ev(2, {B: 3, A: 1}), ev(0, {B: 2}), ev(0, {B: 3})],
                                        meta=[("fresh", None)] * 13)))
    # a key fixed by a dependency's pre-set options does not split the CONSUMER's entries either
    env = {1: _ds(100, [opt(A), opt(B, ("value", ("j", 0)))], options={A: 5}),
           2: _ds(101, [("dataset", 1), opt(Z, ("value", ("j", 0)))]),
           3: _ds(102, [("with", True, {B: 1}, ("dataset", 1))])}
    out.append(("preset below a consumer", dict(ftable={}, env=env, exprs=[("dataset", 2), ("dataset", 3)],
                                                ops=[ev(0, {A: 1}), ev(0, {A: 2}), ev(0, {A: 2, Z: 1}), ev(0, {A: 3, Z: 1}), ev(1, {A: 1, B: 3}),
                                                     ev(1, {A: 2, B: 4}), ev(1, {A: 2, B: 4, Z: 9})],
                                                meta=[("fresh", None)] * 7)))
    # nocache in the middle of a chain, effects disabled, overloads
    env = {1: _ds(100, [opt(A)], effects=[("pstep", 110, [])]),
           2: _ds(101, [("dataset", 1)], cache="none", effects=[("pstep", 111, [])]),
           3: _ds(102, [("dataset", 2), ("dataset", 1)]),
           4: _ds(103, [opt(B)], dispatch=opt(A, ("value", ("j", 0))),
                  overloads=[(("j", 1), ("call", 104, [opt(B)])), (("j", 2), opt(Z))], effects=[("pstep", 112, [])])}
    eff_off = {1: {5: {3: True}}}
    out.append(("nocache+overloads", dict(ftable={}, env=env, exprs=[("dataset", 3), ("dataset", 2), ("dataset", 4)],
                                          ops=[ev(0, {A: 1}), ev(0, {A: 1}), ev(1, {A: 1}), ev(1, {A: 1}), ev(1, {A: 2, **eff_off}), ev(1, {A: 2}),
                                               ev(2, {A: 1, B: 7}), ev(2, {B: 7, A: 1}), ev(2, {A: 2, Z: 3}), ev(2, {A: 2, Z: 3, B: 1}),
                                               ev(2, {B: 7}), ev(2, {B: 7, NEVER[0]: 0}), ev(2, {A: 2, Z: 0}), ev(2, {A: 2, Z: 0}),
                                               ev(2, {Z: 0, A: 2, NEVER[1]: 1})],
                                          meta=[("fresh", None), ("repeat", 0), ("fresh", None), ("repeat", 2), ("fresh", None), ("fresh", None),
                                                ("fresh", None), ("perm", 6), ("fresh", None), ("fresh", None), ("fresh", None), ("extra", 10),
                                                ("fresh", None), ("repeat", 12), ("extra", 12)])))
    # a sink (body returns None, kept for its effect) shared by two consumers, then repeated at the root
    env = {1: _ds(100, [opt(A)], effects=[("pstep", 110, [])]), 2: _ds(101, [("dataset", 1), opt(A)]),
           3: _ds(102, [("dataset", 1)]), 4: _ds(103, [("dataset", 2), ("dataset", 3)]),
           5: _ds(104, [opt(B, ("value", ("j", 0)))], callback=("pstep", 105, []), effects=[("pstep", 111, [])])}
    ft = {100: ("const", ("j", None)), 104: ("const", ("j", 0))}
    out.append(("sink diamond", dict(ftable=ft, env=env, exprs=[("dataset", 4), ("dataset", 1), ("dataset", 5)],
                                     ops=[ev(0, {A: 1}), ev(1, {A: 1}), ev(1, {A: 1, NEVER[0]: 3}), ev(1, {NEVER[1]: 0, A: 1}), ev(0, {A: 2, Z: 1}),
                                          ev(0, {Z: 1, A: 2}), ev(1, {A: 2}), ev(1, {A: 3}), ev(2, {}), ev(2, {}), ev(2, {B: 0, NEVER[0]: 1})],
                                     meta=[("fresh", None), ("fresh", None), ("extra", 1), ("perm", 2), ("fresh", None), ("perm", 4),
                                           ("fresh", None), ("fresh", None), ("fresh", None), ("repeat", 8), ("fresh", None)])))
    # a dependency pinned by a forced pre-set SECTION (read whole / by leaf) below cached consumers: what the
    # caller writes under the overridden leaves, or whether it supplies the section at all, splits nothing
    SEC, SX, SY = gen.SEC, gen.SX, gen.SY
    env = {1: _ds(100, [("option", K(SEC), None, None)]), 2: dict(derived=1, how="with_options", preset={SEC: {SX: 1}}),
           3: _ds(101, [("dataset", 2), opt(Z, ("value", ("j", 0)))], effects=[("pstep", 110, [])]),
           4: _ds(102, [("option", K(SEC, SX), None, None), ("option", K(SEC), None, None)], options={SEC: {SX: 2, SY: 3}}),
           5: _ds(103, [("dataset", 4), ("with", True, {SEC: {SY: 0}}, ("dataset", 1))])}
    out.append(("pinned section below consumers", dict(
        ftable={}, env=env, exprs=[("dataset", 3), ("dataset", 5)],
        ops=[ev(0, {SEC: {SX: 5}}), ev(0, {SEC: {SX: 5}}), ev(0, {SEC: {SX: 7}}), ev(0, {}), ev(0, {SEC: {SX: 1}}), ev(0, {NEVER[0]: 0, SEC: {SX: 7}}),
             ev(0, {SEC: {SX: 7}, Z: 1}), ev(0, {SEC: {SX: 7, SY: 2}}), ev(0, {SEC: {SX: 1, SY: 2}}),
             ev(1, {SEC: {SX: 5, SY: 6}}), ev(1, {SEC: {SY: 6}}), ev(1, {}), ev(1, {SEC: {SX: 9}})],
        meta=[("fresh", None), ("repeat", 0)] + [("fresh", None)] * 11)))
    return out


# ----------------------------------------------------------------------------- long histories (no eviction)

def sweep_scenarios(ctx):
    """one dataset (alone / below a consumer) evaluated under MORE THAN A HUNDRED distinct assignments of the option it
    depends on, then exact / extra-key / permuted repeats of early, middle and late assignments, and the dependency
    asked for at the root after it was computed below the consumer: every one of them is still stored"""
    rng = ctx.rng
    A, B = gen.FLAT[0], gen.FLAT[1]
    out = []
    for k in range(3 if ctx.quick else 10):
        shape = ("single", "section", "consumer")[k % 3]
        # (the printed result of one history must stay below what coqc can print: about 20 kB)
        n = rng.randint(131, 140) if ctx.quick else rng.choice([131, 150, 180] if shape == "consumer" else [131, 150, 200, 257])
        eff = [("pstep", 110, [])] if rng.random() < 0.7 else []
        key = K(gen.SEC, gen.SX) if shape == "section" else K(A)
        env = {1: _ds(100, [("option", key, None, None)], **({"effects": eff} if eff else {}))}
        roots = [("dataset", 1)]
        if shape == "consumer":
            env[2] = _ds(101, [("dataset", 1), ("option", K(B), ("value", ("j", 0)), None)])
            roots = [("dataset", 2), ("dataset", 1)]
        vals = list(range(n))
        if rng.random() < 0.5:
            vals = [v if v % 3 else core.lit("s%d" % v) for v in vals]      # strings and integers mixed

        def mk(v, extra=None):
            o = {gen.SEC: {gen.SX: v}} if shape == "section" else {A: v}
            if extra:
                o.update(extra)
            return o
        ops, meta = [], []
        const = {NEVER[0]: 1} if rng.random() < 0.5 else None       # an entry every dictionary of the sweep carries
        for v in vals:
            ops.append(("evaluate", 0, False, False, mk(v, const)))
            meta.append(("fresh", None))
        picks = [0, 1, 2, n // 2, n - 2, n - 1] + [rng.randrange(n) for _ in range(8)]
        rng.shuffle(picks)
        for t in picks:
            kind = rng.choice(["repeat", "extra", "perm"])
            base = ops[t][4]
            if kind == "extra":
                o = dict(base)
                o[NEVER[1]] = rng.choice([0, 5, core.lit("z")])
            elif kind == "perm" and len(base) > 1:
                o = dict(reversed(list(base.items())))
            else:
                kind, o = "repeat", dict(base)
            ops.append(("evaluate", 0, False, False, o))
            meta.append((kind, t))
            if len(roots) > 1 and rng.random() < 0.6:       # the dependency at the root: computed below the consumer long ago
                ops.append(("evaluate", 1, False, False, dict(base)))
                meta.append(("fresh", None))
        out.append(dict(ftable={}, env=env, exprs=roots, ops=ops, meta=meta))
    return out


API_ENTRIES = ("bare", "class", "instance", "set_cache", "factory")
# every PUBLIC place a cache can be handed to a dataset x every legitimate spelling of "a callable returning a Cache"
# (dataset.py: cache: Union[Cache, Callable[..., Cache], None]; set_cache likewise)
SPELLED_ENTRIES = ("cache_arg", "decorator_kw", "factory_reused", "factory_derived", "set_cache_arg", "nocache_set_cache_arg")
SPELLINGS = ("MemoryCache", "user_cache_class", "memory_subclass", "partial", "partial_of_user_class", "lambda", "lambda_default", "function",
             "bound_method", "callable_object", "staticmethod", "classmethod", "kwonly_default")


def cache_spelling(name):
    """a callable returning a fresh Cache, in one of its legitimate kinds"""
    import functools
    from labrea.cache import Cache, CacheGetFailure, MemoryCache

    class DictCache(Cache):
        """a user cache implementing exactly the two abstract methods"""

        def __init__(self):
            self.store = {}

        def get(self, evaluatable, options):
            try:
                return self.store[evaluatable.fingerprint(options)]
            except KeyError as e:
                raise CacheGetFailure(evaluatable, options, self) from e

        def set(self, evaluatable, options, value):
            self.store[evaluatable.fingerprint(options)] = value

    class Audited(MemoryCache):
        """a user subclass of the library's cache overriding one method"""

        def set(self, evaluatable, options, value):
            self.writes = getattr(self, "writes", 0) + 1
            super().set(evaluatable, options, value)

    class Provider:
        def __init__(self):
            self.made = 0

        def new_cache(self):
            self.made += 1
            return MemoryCache()

        def __call__(self):
            return DictCache()

        @staticmethod
        def static():
            return MemoryCache()

        @classmethod
        def klass(cls):
            return Audited()

    def new_cache():
        return MemoryCache()

    def kwonly(*, kind=DictCache):
        return kind()
    return {"MemoryCache": MemoryCache, "user_cache_class": DictCache, "memory_subclass": Audited, "partial": functools.partial(MemoryCache),
            "partial_of_user_class": functools.partial(DictCache), "lambda": (lambda: MemoryCache()), "lambda_default": (lambda kind=Audited: kind()),
            "function": new_cache, "bound_method": Provider().new_cache, "callable_object": Provider(), "staticmethod": Provider.static,
            "classmethod": Provider.klass, "kwonly_default": kwonly}[name]


def api_sweep(params):
    """ORACLE ONLY (graphs built directly with labrea's public API, counters inside the bodies and effects): n distinct
    assignments of the one option the graph depends on, each evaluated once; then every assignment again (exact / with a
    never-mentioned key / with the top-level order permuted) in the given order; then once more in the first order.
    -> failures: a body or an effect that ran more than once (or not exactly once) for an assignment, a wrong value"""
    import random
    from collections import Counter
    from labrea import Option, dataset, cached
    from labrea.application import FunctionApplication
    from labrea.cache import MemoryCache
    n, shape, entry, order = params["n"], params["shape"], params["entry"], params["order"]
    runs, effs = Counter(), Counter()
    memo = dataset(cache=MemoryCache)        # one configured factory, reused for every dataset of the graph
    spelled = cache_spelling(params["spelling"]) if params.get("spelling") else None     # ONE object, handed to every dataset of the graph
    kept = {}

    def make(f, **kw):
        if entry == "bare":
            return dataset(f, **kw)
        if entry == "class":
            return dataset(f, cache=MemoryCache, **kw)
        if entry == "instance":
            return dataset(f, cache=MemoryCache(), **kw)
        if entry == "factory":
            return memo(f, **kw)
        if entry == "set_cache":
            d = dataset.nocache(f, **kw)
            d.set_cache(MemoryCache)
            return d
        # the cache is given as `spelled` (a callable returning a Cache, in one of its legitimate spellings) ...
        if entry == "cache_arg":                # ... to the decorator itself
            return dataset(f, cache=spelled, **kw)
        if entry == "decorator_kw":             # ... @dataset(cache=..., <everything else>) applied to the function
            return dataset(cache=spelled, **kw)(f)
        if entry == "factory_reused":           # ... to a configured factory that is kept and used for every dataset
            if "memo" not in kept:
                kept["memo"] = dataset(cache=spelled)
            return kept["memo"](f, **kw)
        if entry == "factory_derived":          # ... to a factory from which further factories are derived (where / nested configuration)
            if "memo" not in kept:
                kept["memo"] = dataset(cache=spelled)
            defaults = kw.pop("defaults", {})
            return kept["memo"].where(**defaults)(**kw)(f)
        if entry == "set_cache_arg":            # ... to set_cache of an existing (cached) dataset
            d = dataset(f, **kw)
            d.set_cache(spelled)
            return d
        if entry == "nocache_set_cache_arg":    # ... to set_cache of a dataset created without a cache
            d = dataset.nocache(f, **kw)
            d.set_cache(spelled)
            return d
        raise TypeError(entry)

    def effect(name):
        return lambda value: effs.update([(name, value)])
    opt = Option("A")

    def base_body(a):
        runs[("base", a)] += 1
        return ("base", a)

    def top_body(a, b):
        runs[("top", a)] += 1
        return ("top", a, b)

    def left(a, b):
        runs[("left", a)] += 1
        return ("left", b)

    def right(a, b):
        runs[("right", a)] += 1
        return ("right", b)

    def top3(a, l, r):
        runs[("top", a)] += 1
        return ("top", l, r)
    if shape == "cached_node":
        root = cached(FunctionApplication(base_body, a=opt))
        names, value = ["base"], (lambda a: ("base", a))
    elif shape == "single":
        root = make(base_body, defaults=dict(a=opt), effects=[effect("base")])
        names, value = ["base"], (lambda a: ("base", a))
    elif shape == "chain":
        base = make(base_body, defaults=dict(a=opt), effects=[effect("base")])
        root = make(top_body, defaults=dict(a=opt, b=base), effects=[effect("top")])
        names, value = ["base", "top"], (lambda a: ("top", a, ("base", a)))
    else:   # diamond
        base = make(base_body, defaults=dict(a=opt), effects=[effect("base")])
        lds = make(left, defaults=dict(a=opt, b=base))
        rds = make(right, defaults=dict(a=opt, b=base))
        root = make(top3, defaults=dict(a=opt, l=lds, r=rds))
        names, value = ["base", "left", "right", "top"], (lambda a: ("top", ("left", ("base", a)), ("right", ("base", a))))
    vals = [(v if v % 2 else "s%d" % v) for v in range(n)]
    fails = []

    def ev(v, how):
        o = {"A": v, "W": 0}
        if how == 1:
            o["NEVER"] = v
        elif how == 2:
            o = {"W": 0, "A": v}
        got = root.evaluate(o) if how != 2 else root(o)
        if got != value(v) and len(fails) < 5:
            fails.append(dict(what="wrong value", A=v, got=repr(got)[:120], want=repr(value(v))[:120]))
    for v in vals:
        ev(v, 0)
    first = {k: c for k, c in runs.items() if c != 1}
    second = list(vals)
    if order == "reverse":
        second.reverse()
    elif order == "shuffle":
        random.Random(params.get("seed", 0)).shuffle(second)
    for t, v in enumerate(second):
        ev(v, t % 3)
    for v in vals:
        ev(v, 0)
    for name in names:
        bad = [(v, runs[(name, v)]) for v in vals if runs[(name, v)] != 1]
        if bad:
            fails.append(dict(what=f"body of `{name}` did not run exactly once per distinct assignment in a history of {n} distinct assignments, each repeated",
                              assignments=len(bad), examples=[dict(A=v, runs=c) for v, c in bad[:5]], already_in_first_pass=len(first)))
    # effects: as many calls as executions of the body they are attached to, each with that execution's value
    produced = {"base": (lambda v: ("base", v)), "top": (lambda v: ("top", v, ("base", v)))}
    for name in ("base", "top"):
        if any(k[0] == name for k in effs):
            bad = [(v, effs[(name, produced[name](v))], runs[(name, v)]) for v in vals if effs[(name, produced[name](v))] != runs[(name, v)]]
            if bad:
                fails.append(dict(what=f"effect of `{name}` did not run once per execution of the body", assignments=len(bad),
                                  examples=[dict(A=v, effect_calls=e, body_executions=r) for v, e, r in bad[:3]]))
    return fails


def api_sweeps(ctx):
    rng = ctx.rng
    plan = [dict(n=1100 if ctx.quick else 9000, shape="single", entry="bare", order="forward"),
            dict(n=300, shape="diamond", entry=rng.choice(API_ENTRIES), order="reverse"),
            dict(n=rng.randint(260, 400), shape="chain", entry=rng.choice(API_ENTRIES), order="shuffle", seed=rng.randrange(1000)),
            dict(n=rng.randint(260, 400), shape="cached_node", entry="bare", order=rng.choice(["forward", "reverse"]))]
    if not ctx.quick:
        plan += [dict(n=rng.randint(500, 2500), shape=sh, entry=en, order=rng.choice(["forward", "reverse", "shuffle"]), seed=rng.randrange(1000))
                 for sh in ("single", "chain", "diamond") for en in API_ENTRIES]
    # every entry point x every spelling of a cache factory, short histories (shape and order rotate; one graph per combination)
    shapes, orders = ("single", "chain", "diamond"), ("forward", "reverse", "shuffle")
    for a, entry in enumerate(SPELLED_ENTRIES):
        for b, spelling in enumerate(SPELLINGS):
            if ctx.quick and (a + b) % 2 and spelling not in ("MemoryCache", "partial", "lambda", "user_cache_class"):
                continue
            plan.append(dict(n=rng.randint(6, 14) if ctx.quick else rng.randint(20, 60), shape=shapes[(a + b) % 3], entry=entry, spelling=spelling,
                             order=orders[(a + 2 * b) % 3], seed=rng.randrange(1000)))
    out, evaluations = [], 0
    for params in plan:
        evaluations += 3 * params["n"]
        for f in api_sweep(params)[:2]:
            out.append(dict(desc="long history (api_sweep, oracle only): " + f["what"], detail=f, family="api_sweep", params=params, finding=None))
    return out, evaluations, plan


# ----------------------------------------------------------------------------- mutator histories

SNAP = 7000     # ids of the frozen copies a derivative is taken from


def _copy_ds(d):
    d = dict(d)
    for f in ("effects", "overloads"):
        if f in d:
            d[f] = list(d[f])
    return d


def static_envs(scn):
    """the history read statically: envs[j] = the dataset table as it stands when operation j runs, epochs[j] = a counter
    that moves whenever a mutator replaced a cache or changed what a dataset selects (set_cache, set_dispatch, register,
    overload).  Mirrors dataset.py: add_effects appends to the dataset's own list; disable_effects / enable_effects set
    its flag; set_cache replaces its cache object; set_dispatch gives it a NEW Overloaded (lookup copied); register /
    overload replace the lookup of the Overloaded object, which the dataset SHARES with the derivatives taken from it
    (and with the dataset a derivative was taken from) since the last set_dispatch; with_options / with_default_options
    make a new Dataset holding the overloads object, a COPY of the effects list, the cache object of that moment and
    effects enabled."""
    env = {k: _copy_ds(v) for k, v in scn["env"].items()}
    group = {k: k for k, v in env.items() if v.get("derived") is None}
    fresh = [10 ** 6]
    epoch, envs, epochs = 0, [], []
    for j in range(len(scn["ops"])):
        todo = [m for k, m in scn["muts"] if k == j]
        if todo:
            env = {k: _copy_ds(v) for k, v in env.items()}
        for m in todo:
            kind = m[0]
            if kind == "derive":
                _, new, base, how, preset = m
                snap = SNAP + new
                env[snap] = dict(_copy_ds(env[base]), cid=env[base].get("cid", base), snapshot=True)
                group[snap] = group[base]
                env[new] = dict(derived=snap, how=how, preset=preset)
                continue
            d = env[m[1]]
            if kind == "add_effects":
                d["effects"] = list(d.get("effects") or []) + list(m[2])
            elif kind == "add_effect":
                d["effects"] = list(d.get("effects") or []) + [m[2]]
            elif kind == "disable_effects":
                d["effects_disabled"] = True
            elif kind == "enable_effects":
                d["effects_disabled"] = False
            elif kind == "set_cache":
                if m[2] is None:
                    d["cache"] = "none"
                else:
                    d["cache"], d["cid"] = "mem", m[2]
                epoch += 1
            elif kind == "set_dispatch":
                d["dispatch"] = m[2]
                d["overloads"] = list(d.get("overloads") or [])
                fresh[0] += 1
                group[m[1]] = fresh[0]
                epoch += 1
            elif kind in ("register", "overload"):
                pairs = [(m[2], m[3])] if kind == "register" else [(v, ("dataset", m[3])) for v in m[2]]
                for r, g in group.items():
                    if g == group[m[1]] and r in env:
                        env[r]["overloads"] = list(env[r].get("overloads") or []) + pairs
                epoch += 1
            else:
                raise TypeError(m)
        envs.append(env)
        epochs.append(epoch)
    return envs, epochs


class _LateRoot:
    """a root of the history that is a derivative taken later (with_options / with_default_options mutator)"""

    def __init__(self, builder, dsid):
        self.b, self.dsid = builder, dsid

    def evaluate(self, o):
        return self.b.ds[self.dsid].evaluate(o)

    def validate(self, o):
        return self.b.ds[self.dsid].validate(o)

    def keys(self, o):
        return self.b.ds[self.dsid].keys(o)

    def explain(self, o=None):
        return self.b.ds[self.dsid].explain(o)


class _HookedOps:
    def __init__(self, ops, hook):
        self.ops, self.hook = ops, hook

    def __iter__(self):
        for k, op in enumerate(self.ops):
            self.hook(k)
            yield op

    def __len__(self):
        return len(self.ops)


def apply_live(b, m):
    """one mutator, applied to the live labrea objects through the public API"""
    from labrea.cache import NoCache
    from labrea.computation import CallbackEffect
    kind = m[0]
    if kind == "derive":
        _, new, base, how, preset = m
        ds, p = b.dataset(base), core.py_json(preset)
        b.ds[new] = ds.with_options(p) if how == "with_options" else ds.with_default_options(p)
        return
    ds = b.dataset(m[1])
    if kind == "add_effects":
        built = [b.build(e) for e in m[2]]
        ds.add_effects(*([CallbackEffect(x) for x in built] if m[3] else built))
    elif kind == "add_effect":
        x = b.build(m[2])
        ds.add_effect(CallbackEffect(x) if m[3] else x)
    elif kind == "disable_effects":
        ds.disable_effects()
    elif kind == "enable_effects":
        ds.enable_effects()
    elif kind == "set_cache":
        cid, form = m[2], m[3]
        if cid is None:
            ds.set_cache(NoCache() if form == "instance" else NoCache)
        elif form == "instance":
            ds.set_cache(b.w.cache(cid))
        else:
            ds.set_cache(lambda: b.w.cache(cid))
    elif kind == "set_dispatch":
        ds.set_dispatch(b.build(m[2]))
    elif kind == "register":
        ds.register(core.py_value(m[2]), b.build(m[3]))
    elif kind == "overload":
        vals = [core.py_value(v) for v in m[2]]
        ds.overload(vals if len(vals) > 1 else vals[0])(b.dataset(m[3]))
    else:
        raise TypeError(m)


def run_phased(scn):
    """core.run_impl on ONE long-lived graph, with the scenario's mutators applied to the live objects right before the
    operation they are scheduled at (the operations are handed to run_impl through an iterable that fires them; the
    Builder run_impl instantiates is captured to reach the datasets)"""
    holder = []
    orig = core.Builder

    class Live(orig):
        def __init__(self, world, env):
            super().__init__(world, env)
            holder.append(self)

        def dataset(self, dsid):
            if dsid not in self.ds and dsid not in self.env:
                return _LateRoot(self, dsid)
            return super().dataset(dsid)

    def hook(k):
        for kk, m in scn["muts"]:
            if kk == k:
                apply_live(holder[0], m)
    core.Builder = Live
    try:
        return core.run_impl(dict(scn, ops=_HookedOps(scn["ops"], hook)))
    finally:
        core.Builder = orig


class PhasedPrinter(core.CoqPrinter):
    def cache_id(self, dsid):
        b = base_of(self.env, dsid)
        return self.env[b].get("cid", b)


def coq_phased(scn):
    """the model's reading of a mutator history: the roots are printed once per phase, against the dataset table of that
    phase (the cache ids are the same along the phases, so the model's store carries over exactly as the live cache
    objects do); an operation of phase p on root i addresses expression p * len(roots) + i"""
    envs, _ = static_envs(scn)
    roots, es, index, phase = scn["exprs"], [], [], {}
    for j, env in enumerate(envs):
        if id(env) not in phase:
            phase[id(env)] = len(phase)
            pr = PhasedPrinter(env)
            for e in roots:
                es.append(pr.expr(e) if not (e[0] == "dataset" and e[1] not in env) else "(EValue VMissing)")
        index.append(phase[id(env)] * len(roots))
    ops = "[" + "; ".join(
        "{| op_meth := %s; op_expr := %d%%nat; op_cfg := {| cache_ctx_off := %s; log_ctx_off := %s |}; op_opts := %s |}" % (
            core.METH[m], index[j] + i, "true" if cc else "false", "true" if lc else "false", core.coq_dict(o))
        for j, (m, i, cc, lc, o) in enumerate(scn["ops"])) + "]"
    return f"run_scenario {core.coq_ftable(scn['ftable'])} [{'; '.join(es)}] {ops}"


MUT_KINDS = ("add_effects", "add_effects", "add_effects", "add_effect", "add_effect", "disable_effects", "enable_effects",
             "set_cache", "set_dispatch", "register", "overload", "derive", "derive")


def mut_scenario(rng, serial):
    """a small long-lived DAG (a dataset with effects / callback, a consumer of it, a dataset with a dispatch), a history of
    evaluations over a few dictionaries, and 1-3 public mutators scheduled between them: directed so that the target has
    been evaluated (or only asked for its keys / validated / explained) before, is then hit under a stored assignment and
    misses under a new one"""
    A, B, Z = gen.FLAT
    opt = lambda k, d=None: ("option", K(k), d, None)
    fid = [100]

    def newf():
        fid[0] += 1
        return fid[0]
    eff = lambda: ("pstep", newf(), [])
    env = {1: _ds(100, [opt(A)] + ([opt(B, ("value", ("j", 0)))] if rng.random() < 0.4 else []))}
    if rng.random() < 0.6:
        env[1]["effects"] = [eff() for _ in range(rng.randint(1, 2))]
        if rng.random() < 0.25:
            env[1]["effects_disabled"] = True
    if rng.random() < 0.25:
        env[1]["callback"] = ("pstep", newf(), [])
    env[2] = _ds(newf(), [("dataset", 1)] + ([opt(Z, ("value", ("j", 0)))] if rng.random() < 0.4 else []))
    if rng.random() < 0.4:
        env[2]["effects"] = [eff()]
    roots = [("dataset", 1), ("dataset", 2)]
    if rng.random() < 0.6:
        env[3] = _ds(newf(), [opt(A)], dispatch=opt(Z, ("value", ("j", 0))), overloads=[(("j", 1), ("call", newf(), [opt(B, ("value", ("j", 0)))]))])
        if rng.random() < 0.5:
            env[3]["effects"] = [eff()]
        roots.append(("dataset", 3))
    n_ops = rng.randint(12, 18)
    muts, late = [], {}
    next_cid, next_ds = [60], [4]
    slots = sorted(rng.sample(range(0 if rng.random() < 0.15 else 1, n_ops - 3), rng.randint(1, 3)))
    disabled = {i for i, d in env.items() if d.get("effects_disabled")}
    has_dispatch = {3} if 3 in env else set()
    for k in slots:
        kind = rng.choice(MUT_KINDS)
        target = rng.choice([1, 1, 2] + ([3] if 3 in env else []))
        if kind == "add_effects":
            m = ("add_effects", target, [eff() for _ in range(rng.randint(1, 2))], rng.random() < 0.3)
        elif kind == "add_effect":
            m = ("add_effect", target, eff(), rng.random() < 0.3)
        elif kind == "disable_effects":
            m = ("disable_effects", target)
            disabled.add(target)
        elif kind == "enable_effects":
            target = rng.choice(sorted(disabled)) if disabled else target
            m = ("enable_effects", target)
            disabled.discard(target)
        elif kind == "set_cache":
            r = rng.random()
            if r < 0.2:
                m = ("set_cache", target, None, rng.choice(["instance", "callable"]))
            else:
                next_cid[0] += 1
                m = ("set_cache", target, next_cid[0], rng.choice(["instance", "callable"]))
        elif kind == "set_dispatch":
            m = ("set_dispatch", target, opt(Z, ("value", ("j", rng.choice([0, 1])))) if rng.random() < 0.7 else opt(B, ("value", ("j", 0))))
            has_dispatch.add(target)
        elif kind == "register":
            impl = rng.choice([("call", newf(), [opt(A)]), opt(B, ("value", ("j", 7))), ("value", ("j", core.lit("r")))])
            m = ("register", target, ("j", rng.choice([0, 1, 2])), impl)
        elif kind == "overload":
            # the dataset registered as an overload must not consume the target (dataset 2 consumes dataset 1)
            able = sorted(has_dispatch - {1})
            if not able:
                m = ("add_effect", target, eff(), False)
            else:
                target = rng.choice(able)
                other = rng.choice([i for i in (1, 2) if i != target])
                m = ("overload", target, [("j", v) for v in rng.sample([1, 2, 5], rng.randint(1, 2))], other)
        else:
            base = rng.choice([1, 1, 2])
            how = rng.choice(["with_options", "with_default_options"])
            preset = rng.choice([{NEVER[0]: 1}, {B: 2}, {A: 9}, {Z: 1}])
            new = next_ds[0]
            next_ds[0] += 1
            m = ("derive", new, base, how, preset)
            late[len(roots)] = k
            roots.append(("dataset", new))
        muts.append((k, m))
    moving = {k for k, m in muts if m[0] in ("set_cache", "set_dispatch", "register", "overload")}
    pool = [{A: 1}, {A: 2}, {A: 1, B: 1}, {A: 3, Z: 1}, {A: 2, B: 1, Z: 1}]
    ops, meta, unseen = [], [], [20]
    for t in range(n_ops):
        avail = [i for i in range(len(roots)) if late.get(i, -1) <= t]
        prior = [j for j, o in enumerate(ops) if o[0] == "evaluate" and not any(j < k <= t for k in moving)]
        just_mutated = [m for k, m in muts if k == t or k == t - 1]
        r = rng.random()
        if prior and r < 0.4:
            src = rng.choice(prior)
            idx, base = ops[src][1], ops[src][4]
            kind = rng.choice(["repeat", "extra", "perm"])
            if kind == "extra":
                o = dict(base)
                o[rng.choice(NEVER)] = rng.choice([0, 1, core.lit("z")])
            elif kind == "perm" and len(base) > 1:
                o = dict(reversed(list(base.items())))
            else:
                kind, o = "repeat", dict(base)
            ops.append(("evaluate", idx, False, False, o))
            meta.append((kind, src))
            continue
        if just_mutated and rng.random() < 0.7:
            m = just_mutated[-1]
            tgt = m[1]
            cands = [i for i in avail if roots[i][1] == tgt or (rng.random() < 0.4 and roots[i][1] == 2 and tgt == 1)]
            idx = rng.choice(cands or avail)
        else:
            idx = rng.choice(avail)
        if r > 0.8 or (just_mutated and rng.random() < 0.5):
            unseen[0] += 1
            o = {A: unseen[0]}          # an assignment nothing has been stored for: the body executes
            if rng.random() < 0.3:
                o[Z] = 1
        else:
            o = dict(rng.choice(pool))
        meth = "evaluate" if (t > 0 or rng.random() < 0.7) else rng.choice(["keys", "validate", "explain"])
        ops.append((meth, idx, False, False, o))
        meta.append(("fresh", None))
    return dict(ftable={}, env=env, exprs=roots, ops=ops, meta=meta, muts=muts)


def mut_fixed():
    """the histories of the seeded changes' kind, spelled out: define, evaluate, attach / toggle / replace, evaluate again"""
    A, B, Z = gen.FLAT
    opt = lambda k, d=None: ("option", K(k), d, None)
    ev = lambda i, o: ("evaluate", i, False, False, o)
    env = {1: _ds(100, [opt(A)], effects=[("pstep", 110, [])]), 2: _ds(101, [("dataset", 1), opt(B, ("value", ("j", 0)))])}
    out = []
    out.append(dict(ftable={}, env=env, exprs=[("dataset", 1), ("dataset", 2)],
                    ops=[ev(0, {A: 1}), ev(0, {A: 1}), ev(0, {A: 1, NEVER[0]: 1}), ev(0, {A: 2}), ev(1, {A: 3, B: 1}), ev(1, {A: 3, B: 2}),
                         ev(0, {A: 4}), ev(0, {A: 5}), ev(0, {A: 1}), ev(0, {A: 6})],
                    meta=[("fresh", None), ("repeat", 0), ("extra", 0), ("fresh", None), ("fresh", None), ("fresh", None), ("fresh", None),
                          ("fresh", None), ("repeat", 0), ("fresh", None)],
                    muts=[(2, ("add_effects", 1, [("pstep", 111, [])], False)), (6, ("disable_effects", 1)), (7, ("enable_effects", 1)),
                          (7, ("add_effect", 1, ("pstep", 112, []), True))]))
    env = {1: _ds(100, [opt(A)], effects=[("pstep", 110, [])], callback=("pstep", 105, [])), 2: _ds(101, [("dataset", 1)], effects=[("pstep", 113, [])])}
    out.append(dict(ftable={}, env=env, exprs=[("dataset", 1), ("dataset", 2), ("dataset", 4), ("dataset", 5)],
                    ops=[("keys", 0, False, False, {A: 1}), ev(0, {A: 1}), ev(2, {A: 1}), ev(2, {A: 2}), ev(0, {A: 2}), ev(0, {A: 3}), ev(2, {A: 4}),
                         ev(1, {A: 5}), ev(0, {A: 1}), ev(0, {A: 1}), ev(3, {A: 1}), ev(3, {A: 7}), ev(1, {A: 7})],
                    meta=[("fresh", None)] * 9 + [("repeat", 8)] + [("fresh", None)] * 3,
                    muts=[(1, ("add_effect", 1, ("pstep", 111, []), False)), (2, ("derive", 4, 1, "with_options", {NEVER[0]: 1})),
                          (4, ("add_effects", 1, [("pstep", 112, []), ("pstep", 114, [])], False)), (8, ("set_cache", 1, 61, "callable")),
                          (10, ("derive", 5, 1, "with_default_options", {B: 1})), (12, ("add_effects", 2, [("pstep", 115, [])], True))]))
    # the Overloaded object is SHARED by a dataset and the derivatives taken from it until set_dispatch replaces it:
    # register / overload on either reaches both, set_dispatch only its own dataset
    env = {1: _ds(100, [opt(A)]),
           3: _ds(102, [opt(A)], dispatch=opt(Z, ("value", ("j", 0))), overloads=[(("j", 1), ("call", 103, [opt(B, ("value", ("j", 0)))]))],
                  effects=[("pstep", 110, [])])}
    out.append(dict(ftable={}, env=env, exprs=[("dataset", 3), ("dataset", 4), ("dataset", 1), ("dataset", 5)],
                    ops=[ev(0, {A: 1}), ev(0, {A: 1, Z: 1}), ev(1, {A: 1, Z: 2}), ev(1, {A: 2, Z: 2}), ev(0, {A: 3, Z: 2}), ev(1, {A: 3, Z: 5}),
                         ev(0, {A: 3, Z: 5}), ev(1, {A: 4, Z: 5}), ev(0, {A: 4, B: 1}), ev(1, {A: 5, B: 1}), ev(1, {A: 5, Z: 1}),
                         ev(3, {A: 6, Z: 2}), ev(3, {A: 6, B: 1}), ev(0, {A: 6, B: 1})],
                    meta=[("fresh", None)] * 14,
                    muts=[(2, ("derive", 4, 3, "with_options", {NEVER[0]: 1})), (2, ("register", 3, ("j", 2), ("call", 104, [opt(A)]))),
                          (5, ("overload", 3, [("j", 5)], 1)), (8, ("set_dispatch", 3, opt(B, ("value", ("j", 0))))),
                          (8, ("register", 3, ("j", 1), ("value", ("j", core.lit("r"))))), (11, ("derive", 5, 3, "with_default_options", {Z: 2}))]))
    return out


def mut_scenarios(ctx, n):
    return mut_fixed() + [mut_scenario(ctx.rng, i) for i in range(n)]


def check_phased(ctx, scns, name):
    """correspondence (labrea's live history vs the model's reading of it) + the counting oracle, for mutator histories"""
    impls = [run_phased(s) for s in scns]
    outs = ctx.coq_eval(name, cp.REQ, "", [coq_phased(s) for s in scns], shard=shard_for([sum(len(l) + 1 for l in il) for il in impls]))
    models = [o.split(" ## ") for o in outs]
    mism, violations, totals, ops = [], [], {}, 0
    kinds = {}
    for s, il, ml in zip(scns, impls, models):
        ops += len(il)
        for _, m in s["muts"]:
            kinds[m[0]] = kinds.get(m[0], 0) + 1
        if len(il) != len(ml):
            mism.append(dict(where="Model/Eval.v vs labrea (mutator history, line count)", scenario_repr=cp.dump_scn(s)))
        else:
            for oi, (a, b) in enumerate(zip(il, ml)):
                if not cp.same(a, b, False):
                    mism.append(dict(where="Model/Eval.v (read through static_envs) vs labrea, mutator history", op_index=oi, op=repr(s["ops"][oi]),
                                     impl=a, model=cp.strip_ghost(b), scenario_repr=cp.dump_scn(s)))
                    break
        envs, epochs = static_envs(s)
        fails, checks = oracle(s, il, envs=envs, epochs=epochs)
        for k, v in checks.items():
            totals[k] = totals.get(k, 0) + v
        for f in fails[:2]:
            j = f["op_index"]
            violations.append(dict(f, finding=None, impl_line=il[j][:300], mutators=repr(s["muts"]), scenario_repr=cp.dump_scn(s)))
    return impls, mism, violations, totals, ops, kinds


# ----------------------------------------------------------------------------- run / replay

def shard_size(scns, budget=14000, cap=30):
    """how many scenarios go into one generated Coq file: the largest count <= cap such that no block's
    observation text exceeds the budget (coqc overflows its stack when it prints a vm_compute result of
    about 30 kB; sized on the implementation's observation lines, which the model's mirror)"""
    return shard_for([sum(len(l) + 1 for l in core.run_impl(s)) for s in scns], budget, cap)


def shard_for(sizes, budget=14000, cap=30):
    for n in range(cap, 1, -1):
        if all(sum(sizes[k:k + n]) <= budget for k in range(0, len(sizes), n)):
            return n
    return 1


def check_scenarios(ctx, scns, name, shard=None):
    impls, models, mism, stats = cp.correspondence(ctx, scns, name, shard=shard or shard_size(scns))
    # an operation outside the modelled universe ("unmod": tolerated line by line) may have stored a value
    # in labrea that the model did not store: from there on the two histories are not comparable
    index = {cp.dump_scn(s): k for k, s in enumerate(scns)}
    kept = []
    for mm in mism:
        k = index.get(mm.get("scenario_repr"))
        j = mm.get("op_index")
        if k is not None and j is not None and any("unmod" in models[k][t] for t in range(j)):
            stats["mismatch_after_unmodelled_op"] = stats.get("mismatch_after_unmodelled_op", 0) + 1
            continue
        kept.append(mm)
    mism = kept
    violations, tagged, totals = [], {}, dict(O1=0, O2=0, O3=0, O4=0, O5=0, O1_overridden_entries=0)
    distinct = set()
    for scn, il, ml in zip(scns, impls, models):
        fails, checks = oracle(scn, il)
        for k, v in checks.items():
            totals[k] = totals.get(k, 0) + v
        for f in fails[:2]:
            j = f["op_index"]
            finding = None      # no recorded defect excuses a C02 failure; a failure in the zone of an
            # unreported-read finding (D1/D3/D4/D9/D19) is attributed only if the model reproduces it
            upto = range(min(j + 1, len(ml)))
            if KNOWN and any(cp.is_dirty(ml[t]) for t in upto) and cp.agrees(il, ml, scn, upto=j):
                z = cp.zone_of(scn)
                finding = z if z in KNOWN else None
            if finding:
                tagged[finding] = tagged.get(finding, 0) + 1
            violations.append(dict(f, finding=finding, impl_line=il[j][:300], scenario_repr=cp.dump_scn(scn)))
        hits = sum(1 for l in il if any(t.startswith("get") and t.endswith("T") for t in cp.split(l)[1]))
        runs = sum(1 for l in il if any(t.startswith("set") for t in cp.split(l)[1]))
        if hits and runs:
            distinct.add(lib.stable_hash(cp.dump_scn(scn)))
    return impls, mism, stats, violations, tagged, totals, distinct


CALLABLE_ENTRIES = ("callable", "factory", "factory_kw", "factory_where", "factory_derived", "set_cache_callable", "nocache_then_set")


def entry_scenarios(ctx):
    """the DAG profile of `generate`, every dataset created through a public cache entry point that takes a CALLABLE (one entry
    point and one spelling of the callable per scenario, mostly; see props/c01.py assign_entries)"""
    import random
    import props.c01 as c01
    rng = random.Random(f"{ctx.seed}-C02-entry-points")        # its own stream (VERIF_SEED decides it): the older streams stay what they were
    out = []
    for i in range(len(CALLABLE_ENTRIES) * (9 if ctx.quick else 90)):
        g = Gen02(rng, with_alloptions=False, with_map=False, preset_on_ds=0.2 if i % 2 else 0.0, with_templates=(i % 3 == 0))
        s = g.scenario02(n_ops=14)
        out.append(c01.assign_entries(rng, s, recorded=True, uniform=CALLABLE_ENTRIES[i % len(CALLABLE_ENTRIES)]))
    return out


def run(ctx):
    import props.c01 as c01
    with c01.entry_points():        # (descriptions that name no entry point are built exactly as before)
        return run_(ctx)


def run_(ctx):
    n = 400 if ctx.quick else 4000
    fixed = fixed_scenarios()
    # scenarios of the repaired defects that touch the anchored mechanisms (WithOptions.keys, with_options
    # derivatives, Option resolution): they must pass, and they make the reverse patches visible
    corpus = corpus_for(PID) + [(n, FIXED[n]["scn"]) for n in ("D2", "D2b", "D8", "D5") if PID not in FIXED[n]["props"]]
    scns = [s for _, s in fixed] + [dict(s, meta=[("fresh", None)] * len(s["ops"])) for _, s in corpus] + generate(ctx, n)
    impls, mism, stats, violations, tagged, totals, distinct = check_scenarios(ctx, scns, "Cases_C02")
    # long histories: each in a generated file of its own (their observation text is long)
    sweeps = sweep_scenarios(ctx)
    s_impls, s_mism, s_stats, s_viol, _, s_totals, s_distinct = check_scenarios(ctx, sweeps, "Sweep_C02", shard=1)
    # mutators called between evaluations of one long-lived graph
    muts = mut_scenarios(ctx, 150 if ctx.quick else 1500)
    m_impls, m_mism, m_viol, m_totals, m_ops, m_kinds = check_phased(ctx, muts, "Muts_C02")
    # oracle only: thousands of distinct assignments on graphs built through the public entry points
    a_viol, a_evals, a_plan = api_sweeps(ctx)
    # datasets created through the public cache entry points that take a callable, in every spelling of the callable
    entries = entry_scenarios(ctx)
    e_impls, e_mism, e_stats, e_viol, _, e_totals, e_distinct = check_scenarios(ctx, entries, "Entries_C02")
    mism = mism + s_mism + m_mism + e_mism
    violations = violations + s_viol + m_viol + a_viol + e_viol
    distinct |= s_distinct | e_distinct
    stats["ops"] += e_stats["ops"]
    for extra in (s_totals, m_totals, e_totals):
        for k, v in extra.items():
            totals[k] = totals.get(k, 0) + v
    stats["ops"] += s_stats["ops"] + m_ops
    # the recorded unreported-read defects (C01's findings) must not disturb the counting oracle
    wit = {}
    for fid, w in WITNESSES.items():
        f, _ = oracle(dict(w["scn"], meta=[("fresh", None), ("repeat", 0)] if len(w["scn"]["ops"]) == 2 and
                           w["scn"]["ops"][0][4] == w["scn"]["ops"][1][4] else None))
        wit[fid] = len(f)
    kinds = {}
    for s in scns:
        for k, _ in s.get("meta") or []:
            kinds[k] = kinds.get(k, 0) + 1
    return {
        "evaluations": stats["ops"] + sum(v for k, v in totals.items() if k in ("O1", "O2", "O3", "O4", "O5", "O1_dependencies")) + a_evals,
        "distinct_nontrivial": len(distinct),
        "rule": "dataset DAGs (diamonds, a dependency used twice, chains, overloads, pre-set/default options, with_options derivatives, NoCache nodes, "
                "effects, callbacks, random sub-expressions, dependencies pinned by a forced pre-set section / scalar / deep section (with_options, options=, "
                "forced WithOptions node) read whole or by leaf below one or two cached consumers, bodies returning None / falsy constants, sinks kept for "
                "their effect) x histories of 16 operations on one long-lived graph: fresh dictionaries, exact repeats, "
                "repeats with never-mentioned keys added, repeats with the top-level order permuted, relevant changes, repeats in which the caller "
                "supplies / omits / changes the entries a forced pre-set overrides; plus long histories (131+ distinct assignments of one dataset, "
                "then repeats of early / middle / late ones; oracle only: up to 1100 distinct assignments on graphs built with @dataset / "
                "dataset(cache=MemoryCache) / cache=<instance> / set_cache / a reused configured factory / cached(...)) and mutator histories "
                "(add_effects / add_effect / disable_effects / enable_effects / set_cache / set_dispatch / register / overload / with_options / "
"with_default_options called between the evaluations of one long-lived graph); datasets created through every public cache entry point "
                "that takes a callable, in every spelling of the callable (recording caches: correspondence + oracle; labrea's own caches: counters, "
                "oracle only); non-trivial = the history "
                "contains at least one storing miss and at least one cache hit; distinct by hash of the scenario",
        "samples": [dict(env=repr(s["env"])[:400], first_ops=[repr(o)[:140] for o in s["ops"][:3]], observed=il[:3]) for s, il in list(zip(scns, impls))[:3]],
        "traces_validated_against_impl": stats["ops"],
        "correspondence_mismatches": mism[:5],
        "violations": violations,
        "known": [],
        "distribution": dict(stats, oracle_checks=totals, op_kinds=kinds, scenarios=len(scns), fixed=[n for n, _ in fixed],
                             scenarios_with_constant_bodies=sum(1 for s in scns if any(d[0] == "const" and any(
                                 e.get("fid") == f for e in s["env"].values()) for f, d in s["ftable"].items())),
                             scenarios_with_none_bodies=sum(1 for s in scns if any(d == ("const", ("j", None)) and any(
                                 e.get("fid") == f for e in s["env"].values()) for f, d in s["ftable"].items())),
                             scenarios_with_forced_section_presets=sum(1 for s in scns if forced_section_presets(s)),
                             oracle_failures_tagged=tagged, oracle_failures_on_other_properties_witnesses=wit,
                             long_histories=[len(x["ops"]) for x in sweeps], api_sweeps_oracle_only=a_plan,
                             mutator_histories=len(muts), mutators=m_kinds, mutator_history_ops=m_ops,
                             entry_point_scenarios=len(entries), entry_points=c01_histogram(entries)),
        "exhaustive": False,
        "assumptions": ["user code is deterministic and total on the values it is given; bodies/effects are the harness's counting functions",
                        "'the options a dataset depends on' is measured per evaluation as the top-level option names a cache-free evaluation of a fresh "
                        "copy looks up (recorded inside confectioner's lookup functions, in evaluation order), with a pre-set scalar overriding the caller's value; "
                        "a caller's entry counts as overridden when every lookup under its name ran below exactly one pre-set layer mentioning the name "
                        "(the WithOptions objects whose public evaluate() is on the stack, recorded by wrapping it), that layer is forced, and the answer "
                        "is the value the layer fixes for the looked-up key; everywhere else (default layers, nested layers on one name, partly merged "
                        "sections) the caller's whole entry stays part of the assignment, as labrea's fingerprint keeps it",
                        "nested key order inside a section is not permuted (the fingerprint dumps sections in insertion order)"],
        "trusted_base": ["confectioner (mix / get_dotted_key / resolve) and CPython json/dict are modelled (Model/Base.v, Model/Template.v), validated by this correspondence run",
                         "the counting oracle reads the call log of harness/core.py's World (bodies, effects, recording MemoryCache subclasses)"],
    }


def c01_histogram(scns):
    h = {}
    for s in scns:
        for k, d in s["env"].items():
            if isinstance(k, int) and d.get("entry"):
                key = d["entry"] + "/" + d.get("flavour", "function")
                h[key] = h.get(key, 0) + 1
    return h


def forced_section_presets(scn):
    """forced pre-set dictionaries of the scenario that fix a section"""
    out = []
    for d in scn["env"].values():
        for p in ([d.get("options")] if d.get("options") else []) + ([d["preset"]] if d.get("derived") is not None and d["how"] == "with_options" else []):
            out.append(p)
    for t in cp.sub_exprs([scn["exprs"], [d.get("kwargs", []) for d in scn["env"].values()]]):
        if t and t[0] == "with" and t[1]:
            out.append(t[2])
    return [p for p in out if any(isinstance(v, dict) for v in p.values())]


def replay(ctx, payload):
    import props.c01 as c01
    with c01.entry_points():
        return replay_(ctx, payload)


def replay_(ctx, payload):
    if payload.get("family") == "api_sweep":        # oracle only: the graph is built directly with labrea's public API
        fails = api_sweep(payload["params"])
        return bool(fails), dict(oracle_failures=fails, params=payload["params"])
    scn = cp.load_scn(payload["scenario_repr"])
    if scn.get("muts") is not None:                 # a mutator history
        il = run_phased(scn)
        envs, epochs = static_envs(scn)
        fails, _ = oracle(scn, il, envs=envs, epochs=epochs)
        ml = ctx.coq_eval("Replay_C02", cp.REQ, "", [coq_phased(scn)])[0].split(" ## ")
        return bool(fails) or not cp.agrees(il, ml, scn), dict(oracle_failures=fails, mutators=repr(scn["muts"]), impl=il,
                                                               model=[cp.strip_ghost(x) for x in ml])
    il = core.run_impl(scn)
    fails, _ = oracle(scn, il)
    ml = ctx.coq_eval("Replay_C02", cp.REQ, "", [core.coq_scenario(scn)])[0].split(" ## ")
    return bool(fails) or not cp.agrees(il, ml, scn), dict(oracle_failures=fails, impl=il, model=[cp.strip_ghost(x) for x in ml])
