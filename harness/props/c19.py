"""C19 — dataset classes: correspondence of Model/DatasetClass.v with labrea.datasetclass, and the
property's own oracle on the implementation (members are evaluations, class operations are unions,
== follows the relevant options, repr shows them, the caller's dictionary is left alone; what the caller
does with its own dictionary object AFTER an instantiation -- in-place edits, further instantiations from
the same object -- changes nothing about the instances already built: oracle_reuse, shared oracle_pairs).

Classes are built through the public API only (`datasetclass`, `Option`, `dataset`); a world is a
JSON-able description from which both the live classes and the Gallina terms are produced."""
import ast
import copy
import itertools

import lib

PID = "C19"
COQ_TARGETS = ["Model/DatasetClassRun.vo"]
REQ = ["Model.Base", "Model.DatasetClass", "Model.DatasetClassRun"]
FINDING_L = "C19-L"

# ----------------------------------------------------------------------------- atoms

SEG_ATOMS = {n: i + 1 for i, n in enumerate(
    ["L", "S", "X", "Y", "T", "U", "V", "A", "B", "Q", "Z", "W", "K", "ZZ", "EXTRA", "M", "H"])}


def seg_atom(s):
    if s not in SEG_ATOMS:
        SEG_ATOMS[s] = len(SEG_ATOMS) + 1
    return SEG_ATOMS[s]


def is_idx(s):
    return s.isdigit()


def seg_sort(s):          # mirrors Base.seg_ltb: SIdx < SName, then numeric
    return (0, int(s)) if is_idx(s) else (1, seg_atom(s))


def show_seg(s):
    return f"i{int(s)}" if is_idx(s) else f"n{seg_atom(s)}"


def key_sort(k):
    return [seg_sort(s) for s in k.split(".")]


def show_key(k):
    return ".".join(show_seg(s) for s in k.split("."))


# ----------------------------------------------------------------------------- canonical strings

def show_j(v):
    if v is None:
        return "null"
    if v is True:
        return "T"
    if v is False:
        return "F"
    if isinstance(v, int):
        return str(v)
    if isinstance(v, str):
        return "s(" + ",".join(str(ord(c)) for c in v) + ")"
    if isinstance(v, list):
        return "[" + ",".join(show_j(x) for x in v) + "]"
    if isinstance(v, dict):
        items = sorted((seg_sort(k), show_seg(k), show_j(x)) for k, x in v.items())
        return "{" + ",".join(f"{s}:{x}" for _, s, x in items) + "}"
    if isinstance(v, tuple) and len(v) >= 2 and v[0] == "d":
        return f"d{v[1]}(" + ",".join(show_j(x) for x in v[2:]) + ")"
    return "?" + type(v).__name__


def strict_same(a, b):
    """identical JSON values: same types, same dictionary order"""
    if type(a) is not type(b):
        return False
    if isinstance(a, dict):
        return list(a.keys()) == list(b.keys()) and all(strict_same(a[k], b[k]) for k in a)
    if isinstance(a, list):
        return len(a) == len(b) and all(strict_same(x, y) for x, y in zip(a, b))
    return a == b


def canon_err(e):
    """Python exception -> the model's error enum (deepest KeyNotFoundError key, else TypeError)."""
    from labrea.exceptions import KeyNotFoundError
    chain, seen = [], set()
    while e is not None and id(e) not in seen:
        seen.add(id(e))
        chain.append(e)
        e = e.__cause__ or (None if e.__suppress_context__ else e.__context__)
    knf = [x for x in chain if isinstance(x, KeyNotFoundError)]
    if knf:
        return f"knf({show_key(str(knf[-1].key))})"
    if any(isinstance(x, TypeError) for x in chain):
        return "type"
    return "other:" + type(chain[-1]).__name__


def show_keys(f):
    try:
        ks = f()
    except Exception as e:  # noqa
        return f"raises({canon_err(e)})", None
    ks = set(ks)
    return "[" + ",".join(show_key(k) for k in sorted(ks, key=key_sort)) + "]", ks


# ----------------------------------------------------------------------------- Gallina terms

def coq_seg(s):
    return f"(SIdx {int(s)}%N)" if is_idx(s) else f"(SName {seg_atom(s)}%N)"


def coq_key(k):
    return "[" + "; ".join(coq_seg(s) for s in k.split(".")) + "]"


def coq_json(v):
    if v is None:
        return "JNull"
    if v is True:
        return "(JBool true)"
    if v is False:
        return "(JBool false)"
    if isinstance(v, int):
        return f"(JInt ({v})%Z)"
    if isinstance(v, str):
        return "(JStr [" + "; ".join(f"TLit {ord(c)}%N" for c in v) + "])"
    if isinstance(v, list):
        return "(JList [" + "; ".join(coq_json(x) for x in v) + "])"
    if isinstance(v, dict):
        return "(JObj " + coq_dict(v) + ")"
    raise AssertionError(v)


def coq_dict(o):
    return "[" + "; ".join(f"({coq_seg(k)}, {coq_json(x)})" for k, x in o.items()) + "]"


def coq_copt(p):
    d = f"(Some {coq_json(p['default'])})" if p["has_default"] else "None"
    return f"(COption {coq_key(p['key'])} {d})"


def coq_member(m):
    k = m["kind"]
    if k == "opt":
        return f"(MExpr (COpt {coq_copt(m['opt'])}))"
    if k == "data":
        b = f"(Some {coq_copt(m['b'])})" if m["b"] is not None else "None"
        return f"(MExpr (CData {m['tag']}%N {coq_copt(m['a'])} {b}))"
    if k == "edata":
        return f"(MExpr (CEData {m['tag']}%N {coq_copt(m['a'])} {coq_copt(m['eff'])}))"
    if k == "value":
        return f"(MExpr (CValue {coq_json(m['v'])}))"
    if k == "const":
        return f"(MConst (CJ {coq_json(m['v'])}))"
    raise AssertionError(m)


# ----------------------------------------------------------------------------- worlds

class World:
    """spec = {"classes": [{"id", "name", "body": [[name, member]...], "plain_base": [[name, member]...]|None,
                            "parent": index|None}], "dicts": [...]}"""

    def __init__(self, spec):
        self.spec = spec
        names = set()
        for c in spec["classes"]:
            for n, _ in c["body"]:
                names.add(n)
            for n, _ in (c["plain_base"] or []):
                names.add(n)
        self.name_atom = {n: i + 1 for i, n in enumerate(sorted(names))}   # python string order
        self.classes = []
        self.objs = []      # per class: {name: live member object} over the whole MRO (most derived wins)
        for c in spec["classes"]:
            self._build(c)

    # --- live objects, public API only
    def _mk_option(self, p):
        from labrea import Option
        return Option(p["key"], p["default"]) if p["has_default"] else Option(p["key"])

    def _mk_member(self, m):
        from labrea import dataset, pipeline_step
        k = m["kind"]
        if k == "opt":
            return self._mk_option(m["opt"])
        if k == "edata":
            # a dataset with an effect reading another option: explain() lists it, keys() does not
            tag = m["tag"]

            def effect(x, p=self._mk_option(m["eff"])):
                return None

            def ebody(a=self._mk_option(m["a"])):
                return ("d", tag, a)
            ebody.__name__ = f"edata{tag}"
            ebody.__qualname__ = f"edata{tag}_{id(self)}"
            return dataset(effects=[pipeline_step(effect)])(ebody)
        if k == "data":
            tag = m["tag"]
            if m["b"] is None:
                def body(a=self._mk_option(m["a"])):
                    return ("d", tag, a)
            else:
                def body(a=self._mk_option(m["a"]), b=self._mk_option(m["b"])):
                    return ("d", tag, a, b)
            body.__name__ = f"data{tag}"
            body.__qualname__ = f"data{tag}_{id(self)}"
            return dataset(body)
        return copy.deepcopy(m["v"])

    def _body(self, entries):
        d, ann, objs = {}, {}, {}
        for n, m in entries:
            obj = self._mk_member(m)
            d[n] = obj
            objs[n] = obj
            if m["kind"] == "value":
                ann[n] = object
        if ann:
            d["__annotations__"] = ann
        return d, objs

    def _build(self, c):
        from labrea import datasetclass
        objs = {}
        bases = ()
        if c["parent"] is not None:
            bases = (self.classes[c["parent"]],)
            objs.update(self.objs[c["parent"]])
        elif c["plain_base"] is not None:
            bd, bo = self._body(c["plain_base"])
            bases = (type("Base" + c["name"], (), bd),)
            objs.update(bo)
        d, o = self._body(c["body"])
        objs.update(o)
        cls = datasetclass(type(c["name"], bases, d))
        self.classes.append(cls)
        self.objs.append(objs)

    # --- model side
    def mro_bodies(self, ci):
        c = self.spec["classes"][ci]
        out = [c["body"]]
        if c["parent"] is not None:
            out += self.mro_bodies(c["parent"])
        elif c["plain_base"] is not None:
            out.append(c["plain_base"])
        return out

    def members(self, ci):
        """dir() view computed by the harness: name -> member spec, most derived definition"""
        out = {}
        for body in reversed(self.mro_bodies(ci)):
            for n, m in body:
                out[n] = m
        return out

    def coq_class(self, ci):
        c = self.spec["classes"][ci]
        bodies = []
        for body in self.mro_bodies(ci):
            ents = [f"mk_entry {self.name_atom[n]}%N {'true' if n.startswith('__') else 'false'} {coq_member(m)}"
                    for n, m in body]
            bodies.append("[" + "; ".join(ents) + "]")
        return f"(mk_class {c['id']}%N [" + "; ".join(bodies) + "])"


# ----------------------------------------------------------------------------- observation (impl)

def raw_class(e):
    """a non-labrea exception leaving the constructor: set_dotted_key on a non-dict parent raises
    TypeError (list['0'] = v) or AttributeError (list.setdefault) depending on how many segments
    follow; both are the model's one outcome 'the write raises' (Base.set_dotted = None)"""
    return "TypeError" if isinstance(e, (TypeError, AttributeError)) else type(e).__name__


def construct(cls, o):
    """-> (kind, payload): ('ok', inst) | ('member', canon) | ('raw', class name)"""
    from labrea.exceptions import EvaluationError
    try:
        return "ok", cls(o)
    except EvaluationError as e:
        return "member", canon_err(e)
    except Exception as e:  # noqa
        return "raw", raw_class(e)


def parse_repr(cls, inst):
    try:
        r = repr(inst)
    except Exception:  # noqa  a repr that raises shows nothing
        return None
    head = cls.__name__ + "("
    if not (r.startswith(head) and r.endswith(")")):
        return None
    try:
        return ast.literal_eval(r[len(head):-1])
    except Exception:  # noqa
        return None


def observe_impl(w, ci, o, after_build=None):
    """after_build(work): what the CALLER does with its own dictionary object after the instance was built and
    before anything of the instance is read (in-place edits, a second instantiation from the same object)"""
    cls = w.classes[ci]
    mem = w.members(ci)
    work = copy.deepcopy(o)
    kind, res = construct(cls, work)
    caller = "=" if strict_same(work, o) else show_j(work)
    if after_build is not None and kind == "ok":
        after_build(work)
    if kind == "ok":
        vis = sorted(n for n in mem if not n.startswith("__"))
        shown = []
        for n in vis:
            shown.append(f"{w.name_atom[n]}={show_j(getattr(res, n))}")
        rd = parse_repr(cls, res)
        first = "inst([" + ",".join(shown) + "];" + (show_j(rd) if isinstance(rd, dict) else "?repr") + ")"
    elif kind == "member":
        first = f"member_raises({res})"
    else:
        first = f"raw({res})"
    ks, kset = show_keys(lambda: cls.keys(copy.deepcopy(o)))
    ex, _ = show_keys(lambda: cls.explain(copy.deepcopy(o)))
    try:
        cls.validate(copy.deepcopy(o))
        va = "valid"
    except Exception as e:  # noqa
        va = f"raises({canon_err(e)})"
    side = "-" if kset is None else ("T" if all(not is_idx(s) for k in kset for s in k.split(".")) else "F")
    return "|".join([first, ks, ex, va, caller, side]), dict(kind=kind, keys=kset, side=side)


def refill(work, o):
    """the caller re-uses ONE dictionary object: emptied and filled again in place (fresh nested values)"""
    work.clear()
    work.update(copy.deepcopy(o))
    return work


def safe_eq(a, b):
    """a == b as 'T' / 'F', '!' when the comparison raises"""
    try:
        return "T" if (a == b) else "F"
    except Exception:  # noqa
        return "!"


def eq_matrix_impl(w, cis, dicts, shared=False):
    """shared: every instance is built from the SAME caller dictionary object, refilled in place between the
    instantiations; all comparisons happen after the last instantiation"""
    insts = []
    work = {}
    for ci in cis:
        for o in dicts:
            kind, res = construct(w.classes[ci], refill(work, o) if shared else copy.deepcopy(o))
            insts.append(res if kind == "ok" else None)
    if shared:
        refill(work, {})
    out = []
    for a in insts:
        row = ""
        for b in insts:
            if a is None or b is None:
                row += "-"
            else:
                row += safe_eq(a, b)
        out.append(row + "/")
    return "".join(out)


# ----------------------------------------------------------------------------- the oracle

def own_restrict(o, keys):
    """The options restricted to a set of dotted keys, computed top-down by the harness (not the
    way the implementation builds it): group the keys by first segment; a segment that is itself
    a key keeps the whole value; otherwise recurse into the value with the key tails.  A list on
    the path is entered by integer position and shown sparsely under the string segment (the
    reading of a dotted key as a path of strings)."""
    paths = [k.split(".") if isinstance(k, str) else k for k in keys]
    out = {}
    for seg in dict.fromkeys(p[0] for p in paths):
        tails = [p[1:] for p in paths if p[0] == seg]
        val = o[int(seg)] if isinstance(o, list) else o[seg]
        out[seg] = val if any(len(t) == 0 for t in tails) else own_restrict(val, tails)
    return out


def direct_eval(obj, m, o):
    """evaluation of one member on its own: ('ok', value) | ('err', canon)"""
    if m["kind"] in ("const", "value"):
        return "ok", obj
    try:
        return "ok", obj.evaluate(o)
    except Exception as e:  # noqa
        return "err", canon_err(e)


def union_of(w, ci, method, o):
    """union over the visible evaluatable members, in dir() order; ('ok', set) | ('err', canon)"""
    mem = w.members(ci)
    acc = set()
    for n in sorted(mem):
        if n.startswith("__") or mem[n]["kind"] in ("const", "value"):
            continue
        try:
            acc |= set(getattr(w.objs[ci][n], method)(o))
        except Exception as e:  # noqa
            return "err", canon_err(e)
    return "ok", acc


def oracle_single(w, ci, o, viol, scen):
    """The property's statement on one (class, dictionary); appends violation dicts; returns #checks."""
    cls = w.classes[ci]
    mem = w.members(ci)
    objs = w.objs[ci]
    checks = 0

    def bad(desc, **kw):
        viol.append(dict(desc=desc, finding=None, **scen, **kw))

    # members == direct evaluation of each member (first failing member in dir() order)
    vis = sorted(n for n in mem if not n.startswith("__"))
    direct, first_err = {}, None
    for n in vis:
        k, v = direct_eval(objs[n], mem[n], copy.deepcopy(o))
        direct[n] = (k, v)
        if k == "err" and first_err is None:
            first_err = (n, v)
    work = copy.deepcopy(o)
    kind, inst = construct(cls, work)
    checks += 1
    if not strict_same(work, o):
        bad("the constructor modified the caller's dictionary", after=work)
    if first_err is not None:
        checks += 1
        if not (kind == "member" and inst == first_err[1]):
            bad("a member's evaluation fails but the constructor does not fail with the first failing member's error",
                member=first_err[0], expected=first_err[1], got=[kind, inst if kind != "ok" else "instance"])
    else:
        checks += 1
        if kind != "ok":
            bad("every member evaluates but instantiation fails", got=[kind, inst], zone_hint="constructor")
    if kind == "ok":
        for n in vis:
            checks += 1
            got = getattr(inst, n)
            want = direct[n][1]
            if not (direct[n][0] == "ok" and show_j(got) == show_j(want) and got == want):
                bad("instance attribute differs from the member's own evaluation / constant", member=n,
                    got=show_j(got), want=show_j(want))
        for n in mem:
            if n.startswith("__"):
                checks += 1
                if n in vars(inst):
                    bad("a dunder attribute was set by the constructor", member=n)
        # evaluate == instantiate
        k2, inst2 = construct_eval(cls, copy.deepcopy(o))
        checks += 1
        if not (k2 == "ok" and safe_eq(inst2, inst) == "T" and all(show_j(getattr(inst2, n)) == show_j(getattr(inst, n)) for n in vis)):
            bad("cls.evaluate(options) differs from cls(options)")
    # class operations are unions
    for method in ("keys", "explain"):
        want = union_of(w, ci, method, copy.deepcopy(o))
        work = copy.deepcopy(o)
        try:
            got = ("ok", set(getattr(cls, method)(work)))
        except Exception as e:  # noqa
            got = ("err", canon_err(e))
        checks += 2
        if got != want:
            bad(f"class {method}() is not the union over the members", got=repr(got), want=repr(want))
        if not strict_same(work, o):
            bad(f"{method}() modified the caller's dictionary", after=work)
    checks += 1
    try:
        e0, e1 = cls.explain(), cls.explain({})
        if e0 != e1:
            bad("explain() differs from explain({})")
    except Exception as e:  # noqa
        try:
            cls.explain({})
            bad("explain() raises but explain({}) does not", error=repr(e))
        except Exception:  # noqa
            pass
    vfail = None
    for n in sorted(mem):
        if n.startswith("__") or mem[n]["kind"] in ("const", "value"):
            continue
        try:
            objs[n].validate(copy.deepcopy(o))
        except Exception as e:  # noqa
            vfail = canon_err(e)
            break
    work = copy.deepcopy(o)
    try:
        cls.validate(work)
        gotv = None
    except Exception as e:  # noqa
        gotv = canon_err(e)
    checks += 2
    if gotv != vfail:
        bad("class validate() does not pass exactly when every member's validate passes (first failing member's error)",
            got=gotv, want=vfail)
    if not strict_same(work, o):
        bad("validate() modified the caller's dictionary", after=work)
    # repr shows the reported keys with their values
    if kind == "ok":
        try:
            want = own_restrict(o, cls.keys(copy.deepcopy(o)))
        except Exception as e:  # noqa
            want = None
            bad("instance built but keys()/restriction failed", error=repr(e))
        shown = parse_repr(cls, inst)
        checks += 1
        if want is not None and not (isinstance(shown, dict) and show_j(shown) == show_j(want)):
            bad("repr does not show the options restricted to the reported keys",
                repr=safe_repr(inst), want=show_j(want))
    return checks


def construct_eval(cls, o):
    from labrea.exceptions import EvaluationError
    try:
        return "ok", cls.evaluate(o)
    except EvaluationError as e:
        return "member", canon_err(e)
    except Exception as e:  # noqa
        return "raw", raw_class(e)


def oracle_pairs(w, cis, dicts, viol, scen, stats, shared=False):
    """== over all pairs: same class -> iff the restricted dictionaries are equal; different class -> never.
    shared: all instances are built from ONE caller dictionary object that is refilled in place between the
    instantiations (a parameter sweep re-using its dictionary); the comparisons come after the last one"""
    checks = 0
    built = {}
    work = {}
    for ci in cis:
        cls = w.classes[ci]
        for di, o in enumerate(dicts):
            kind, inst = construct(cls, refill(work, o) if shared else copy.deepcopy(o))
            if kind != "ok":
                continue
            try:
                r = own_restrict(o, cls.keys(copy.deepcopy(o)))
            except Exception:  # noqa
                continue
            built[(ci, di)] = (inst, r)
    if shared:
        refill(work, {})
    for (ca, da), (ia, ra) in built.items():
        for (cb, db), (ib, rb) in built.items():
            checks += 1
            try:
                got = (ia == ib)
                ne = (ia != ib)
            except Exception as e:  # noqa
                got, ne = "raises " + type(e).__name__, None
            if ca == cb:
                want = (ra == rb)           # Python == on the restricted dictionaries
                if not shared:
                    if want and not strict_same(dicts[da], dicts[db]):
                        stats["equal_though_dicts_differ"] += 1
                    if not want:
                        stats["unequal"] += 1
            else:
                want = False
                if not shared:
                    stats["cross_class"] += 1
            if shared:
                stats["pairs_from_one_reused_dictionary_object"] += 1
            if got != want or ne == got:
                how = " (all instances built from one caller dictionary object, refilled in place between instantiations)" if shared else ""
                viol.append(dict(desc=("instance equality does not follow the restricted options"
                                       if ca == cb else "instances of different classes compare equal") + how,
                                 finding=None, **scen, class_a=ca, class_b=cb, dict_a=dicts[da], dict_b=dicts[db],
                                 restricted_a=show_j(ra), restricted_b=show_j(rb), eq=got, ne=ne, want=want))
    return checks


# ----------------------------------------------------------------------------- the caller keeps using its dictionary

EDIT_VALUES = [0, 1, 2, 3, 9, None, "u", "w", [1], [2, 3], {"X": 7}, {"Y": 1}, True, False]
NEW_TOP = ["A", "B", "Q", "AB", "ZZ"]
NEW_IN = ["X", "Y", "Z", "XY", "U", "K", "V", "W", "EXTRA"]
DELETE = ["<delete>"]


def edit_candidates(o):
    """paths of the caller's dictionary at which an entry can be assigned / deleted in place: every existing entry
    of every (nested) dictionary, and a few absent ones"""
    out = [list(p) for p in leaf_paths(o)]
    out += [[k] for k in NEW_TOP if k not in o]
    for p in leaf_paths(o):
        v = get_path(o, p)
        if isinstance(v, dict):
            out += [list(p) + [k] for k in NEW_IN if k not in v][:3]
    return out


def shares_value(path, keys):
    """The dictionary that the edit at `path` writes into is (inside) the VALUE of a reported key: that value
    object was handed to the instance as a member's evaluation (Option('S') evaluates to the caller's own nested
    dictionary), so editing it edits the member's value itself; such edits are not 'the options the instance was
    built from' changing afterwards and are left out (see aliasing_probe).  The top-level dictionary is never a
    value."""
    parent = path[:-1]
    return any(k.split(".") == parent[:len(k.split("."))] for k in keys) if parent else False


def relevant(path, keys):
    ks = [k.split(".") for k in keys]
    return any(k[:len(path)] == path or path[:len(k)] == k for k in ks)


def plan_edits(rng, o, keys):
    """1-3 in-place edits of the caller's dictionary (assignment of another value, deletion, a new entry), mostly
    at or around the reported keys; never inside a value object shared with the instance"""
    cands = [p for p in edit_candidates(o) if not shares_value(p, keys)]
    rel = [p for p in cands if relevant(p, keys)]
    edits, cur = [], copy.deepcopy(o)
    for _ in range(rng.choice([1, 1, 2, 3])):
        pool = rel if (rel and rng.random() < 0.8) else cands
        if not pool:
            break
        p = rng.choice(pool)
        try:
            parent = get_path(cur, p[:-1])
        except Exception:  # noqa  an earlier edit removed / replaced the parent
            continue
        if not isinstance(parent, dict):
            continue
        if p[-1] in parent and rng.random() < 0.2:
            edits.append([p, DELETE])
            del parent[p[-1]]
        else:
            old = parent.get(p[-1], DELETE)
            new = rng.choice([x for x in EDIT_VALUES if old is DELETE or show_j(x) != show_j(old)])
            edits.append([p, copy.deepcopy(new)])
            parent[p[-1]] = copy.deepcopy(new)
    return edits


def apply_edits(work, edits):
    for p, v in edits:
        parent = get_path(work, p[:-1])
        if v is DELETE or v == DELETE:
            del parent[p[-1]]
        else:
            parent[p[-1]] = copy.deepcopy(v)


def class_op(cls, method, o):
    try:
        r = getattr(cls, method)(o)
        return ("ok", None if method == "validate" else set(r))
    except Exception as e:  # noqa
        return ("err", canon_err(e))


def oracle_reuse(w, ci, o, viol, scen, rng, stats):
    """The caller goes on using the dictionary object it instantiated from: edits it in place (assignments, deletions,
    new entries, at top level and inside nested dictionaries), instantiates again from the same object, and only
    then reads / prints / compares the FIRST instance.  The property speaks of 'the options each was built from':
    members, repr and == of an instance are fixed when it is built; keys / explain / validate of the class on the
    edited object are those of a fresh copy of its new contents."""
    cls = w.classes[ci]
    mem = w.members(ci)
    objs = w.objs[ci]
    ka = class_op(cls, "keys", copy.deepcopy(o))
    if ka[0] != "ok":
        return 0, None
    keys_a = ka[1]
    try:
        want_a = own_restrict(o, keys_a)
    except Exception:  # noqa
        return 0, None
    edits = plan_edits(rng, o, keys_a)
    if not edits:
        return 0, None
    checks = 0

    def bad(desc, **kw):
        viol.append(dict(desc=desc + " [the caller's dictionary object was edited in place after the instantiation]",
                         finding=None, **scen, edits=edits, **kw))

    via_evaluate = rng.random() < 0.3
    arm = rng.random() < 0.5
    work = copy.deepcopy(o)
    kind, inst1 = (construct_eval if via_evaluate else construct)(cls, work)
    if kind != "ok":
        return 0, None
    if arm:      # the class-level operations saw this very object too
        for method in ("keys", "validate", "explain"):
            class_op(cls, method, work)
    apply_edits(work, edits)
    o_b = copy.deepcopy(work)
    kind2, inst2 = construct(cls, work)
    stats["reuse_scenarios"] += 1
    # class operations on the edited object
    for method in ("keys", "explain", "validate"):
        got, want = class_op(cls, method, work), class_op(cls, method, copy.deepcopy(o_b))
        checks += 1
        if got != want:
            bad(f"class {method}() on the caller's edited dictionary differs from {method}() on a fresh copy of its contents",
                got=repr(got), want=repr(want))
    if not strict_same(work, o_b):
        bad("a class operation / the constructor modified the caller's dictionary", after=work)
        refill(work, o_b)
    # the first instance is what it was built as
    vis = sorted(n for n in mem if not n.startswith("__"))
    for n in vis:
        k, v = direct_eval(objs[n], mem[n], copy.deepcopy(o))
        checks += 1
        try:
            got = show_j(getattr(inst1, n))
        except Exception as e:  # noqa
            got = "raises " + type(e).__name__
        if k != "ok" or got != show_j(v):
            bad("instance attribute differs from the member's evaluation under the options the instance was built from",
                member=n, got=got, want=show_j(v) if k == "ok" else v)
    shown = parse_repr(cls, inst1)
    checks += 1
    if not (isinstance(shown, dict) and show_j(shown) == show_j(want_a)):
        bad("repr does not show the options the instance was built from, restricted to the reported keys",
            repr=safe_repr(inst1), want=show_j(want_a))
    kf, fresh = construct(cls, copy.deepcopy(o))
    checks += 1
    if kf != "ok" or safe_eq(inst1, fresh) != "T" or safe_eq(fresh, inst1) != "T" or safe_ne(inst1, fresh) != "F":
        bad("an instance does not compare equal to a fresh instance built from the same options",
            eq=safe_eq(inst1, fresh), ne=safe_ne(inst1, fresh))
    if kind2 == "ok":
        kb = class_op(cls, "keys", copy.deepcopy(o_b))
        try:
            want_b = own_restrict(o_b, kb[1]) if kb[0] == "ok" else None
        except Exception:  # noqa
            want_b = None
        if want_b is not None:
            want_eq = "T" if want_a == want_b else "F"
            stats["reuse_restrictions_differ" if want_eq == "F" else "reuse_restrictions_equal"] += 1
            checks += 2
            if safe_eq(inst1, inst2) != want_eq or safe_eq(inst2, inst1) != want_eq or safe_ne(inst1, inst2) == want_eq:
                bad("equality of two instances built from one dictionary object (edited in between) does not follow the restricted "
                    "options each was built from", eq=safe_eq(inst1, inst2), ne=safe_ne(inst1, inst2), want=want_eq,
                    restricted_a=show_j(want_a), restricted_b=show_j(want_b), options_b=o_b)
            shown2 = parse_repr(cls, inst2)
            if not (isinstance(shown2, dict) and show_j(shown2) == show_j(want_b)):
                bad("repr of the second instance does not show the options it was built from", repr=safe_repr(inst2),
                    want=show_j(want_b), options_b=o_b)
            # ... and nothing moves when the caller empties its dictionary afterwards
            refill(work, {})
            checks += 2
            if show_j(parse_repr(cls, inst1)) != show_j(shown) or show_j(parse_repr(cls, inst2)) != show_j(shown2):
                bad("repr of an instance changed when the caller emptied its dictionary afterwards",
                    before=[show_j(shown), show_j(shown2)], after=[safe_repr(inst1), safe_repr(inst2)])
            if safe_eq(inst1, inst2) != want_eq:
                bad("equality of two instances changed when the caller emptied its dictionary afterwards",
                    eq=safe_eq(inst1, inst2), want=want_eq)

    def after_build(wk):
        apply_edits(wk, edits)
        construct(cls, wk)
    return checks, after_build


def safe_repr(x):
    try:
        return repr(x)
    except Exception as e:  # noqa
        return "repr raises " + type(e).__name__


def safe_ne(a, b):
    try:
        return "T" if (a != b) else "F"
    except Exception:  # noqa
        return "!"


# ----------------------------------------------------------------------------- generators

SCALARS = [0, 1, 2, 3, -1, True, False, None, "u", "vw", ""]
NAME_POOL = ["a", "b", "c", "B_", "_p", "_Q", "Z", "m1", "m10", "m2", "__h__", "__dd", "x_", "aa", "A"]
# "AB" / "S.XY": plain STRING prefixes of "A" / "S.X" with no dot boundary (startswith confusions)
NAME_KEYS = ["A", "B", "Q", "S", "S.X", "S.Y", "T", "T.U", "T.U.V", "T.K", "S.Z", "AB", "S.XY"]
INDEX_KEYS = ["L", "L.0", "L.1", "L.0.X", "L.3", "S.0"]


def gen_value(rng, depth=0):
    r = rng.random()
    if r < 0.75 or depth > 0:
        return rng.choice(SCALARS)
    if r < 0.9:
        return [rng.choice(SCALARS) for _ in range(rng.randint(0, 2))]
    return {rng.choice(["X", "Y", "K"]): rng.choice(SCALARS)}


def gen_dict(rng, malformed=False, with_list=True, strings_ok=True):
    """strings_ok=False: no string where a list-index key could be applied (indexing INTO a string
    returns a character in Python; outside the modelled universe, DESIGN 2.2)"""
    o = {}
    tops = ["A", "B", "Q", "S", "T", "AB"] + (["L"] if with_list else [])
    rng.shuffle(tops)
    for t in tops:
        if rng.random() < 0.08:
            continue
        if t == "S":
            if malformed and rng.random() < 0.5:
                o["S"] = rng.choice([5, None, True, "u", [1]] if strings_ok else [5, None, True, [1]])
            else:
                o["S"] = {k: gen_value(rng) for k in rng.sample(["X", "Y", "Z", "XY"], rng.choice([1, 2, 3, 3, 4]))}
        elif t == "T":
            if malformed and rng.random() < 0.3:
                o["T"] = rng.choice([7, {"U": 3}])
            else:
                inner = {k: gen_value(rng, 1) for k in rng.sample(["V", "W"], rng.choice([1, 2, 2]))}
                o["T"] = {}
                if rng.random() < 0.9:
                    o["T"]["U"] = inner
                if rng.random() < 0.8:
                    o["T"]["K"] = gen_value(rng, 1)
        elif t == "L":
            items = []
            for _ in range(rng.randint(0, 3)):
                items.append({"X": rng.choice([1, 2, None])} if rng.random() < 0.3 else rng.choice([0, 1, 2, 3, None, True]))
            o["L"] = items if rng.random() < 0.85 else rng.choice([4, {"0": 1}, None])
        else:
            o[t] = gen_value(rng)
    return o


def leaf_paths(o, prefix=()):
    out = []
    for k, v in o.items():
        p = prefix + (k,)
        out.append(p)
        if isinstance(v, dict):
            out += leaf_paths(v, p)
    return out


def set_path(o, p, v):
    for s in p[:-1]:
        o = o[s]
    o[p[-1]] = v


def del_path(o, p):
    for s in p[:-1]:
        o = o[s]
    del o[p[-1]]


def get_path(o, p):
    for s in p:
        o = o[s]
    return o


def permuted(rng, o):
    if isinstance(o, dict):
        ks = list(o.keys())
        rng.shuffle(ks)
        return {k: permuted(rng, o[k]) for k in ks}
    return copy.deepcopy(o)


def variants(rng, base, n_changes, strings_ok=True):
    """base + copies differing in exactly one (possibly nested) key, a permutation, extra keys, a removal"""
    out = [base, permuted(rng, base)]
    extra = copy.deepcopy(base)
    extra["ZZ"] = rng.choice([1, {"X": 2}])
    if isinstance(extra.get("S"), dict):
        extra["S"]["EXTRA"] = 9
    out.append(extra)
    paths = leaf_paths(base)
    rng.shuffle(paths)
    for p in paths[:n_changes]:
        v = copy.deepcopy(base)
        old = get_path(base, p)
        cands = [0, 1, 2, 3, None, "u", [1], {"X": 7}, True] if (strings_ok or len(p) > 1) else [0, 1, 2, 3, None, [1], {"X": 7}, True]
        new = rng.choice([x for x in cands if show_j(x) != show_j(old)])
        set_path(v, p, new)
        out.append(v)
    if paths:
        v = copy.deepcopy(base)
        del_path(v, paths[-1])
        out.append(v)
    return out


def gen_opt(rng, keys):
    has = rng.random() < 0.5
    return dict(key=rng.choice(keys), has_default=has,
                default=rng.choice([7, None, "u", [1, 2], False, 0]) if has else None)


def gen_member(rng, keys, tagc):
    r = rng.random()
    if r < 0.5:
        return dict(kind="opt", opt=gen_opt(rng, keys))
    if r < 0.68:
        return dict(kind="data", tag=next(tagc), a=gen_opt(rng, keys),
                    b=gen_opt(rng, keys) if rng.random() < 0.6 else None)
    if r < 0.78:
        # the effect's option: flat key, always with a default (it must never fail: see DatasetClassRun.v)
        return dict(kind="edata", tag=next(tagc), a=gen_opt(rng, keys),
                    eff=dict(key=rng.choice(["Q", "B", "A"]), has_default=True, default=rng.choice([0, "u", None])))
    if r < 0.88:
        return dict(kind="value", v=rng.choice([4, "u", None, [1], {"X": 1}, True]))
    return dict(kind="const", v=rng.choice([5, "vw", None, [2], False]))


def gen_world(rng, wid, stream):
    """stream: 'valid' (name keys, well-formed dictionaries), 'malformed' (name keys, scalar parents:
    finding D6's zone), 'defect' (list-index keys too: finding C19-L's zone)"""
    defect = stream == "defect"
    keys = NAME_KEYS + (INDEX_KEYS if defect else [])
    tagc = itertools.count(1)
    classes = []
    names = rng.sample(NAME_POOL, rng.randint(2, 6))
    body = [[n, gen_member(rng, keys, tagc)] for n in names]
    r = rng.random()
    plain_base = None
    if r < 0.35:
        bnames = rng.sample(NAME_POOL, rng.randint(1, 3))    # may overlap: overridden by the subclass
        plain_base = [[n, gen_member(rng, keys, tagc)] for n in bnames]
    classes.append(dict(id=1, name=f"W{wid}C1", body=body, plain_base=plain_base, parent=None))
    # a twin: same members, another class
    classes.append(dict(id=2, name=f"W{wid}C2", body=copy.deepcopy(body), plain_base=copy.deepcopy(plain_base), parent=None))
    if rng.random() < 0.5:
        # a dataset class deriving from the first dataset class
        sub = [[n, gen_member(rng, keys, tagc)] for n in rng.sample(NAME_POOL, rng.randint(1, 2))]
        classes.append(dict(id=3, name=f"W{wid}C3", body=sub, plain_base=None, parent=0))
    malformed = stream == "malformed" or (defect and rng.random() < 0.3)
    base = gen_dict(rng, malformed=malformed, with_list=True, strings_ok=not defect)
    dicts = variants(rng, base, 3, strings_ok=not defect)
    if rng.random() < 0.5:
        dicts.append(gen_dict(rng, malformed=malformed and rng.random() < 0.5, strings_ok=not defect))
    if rng.random() < 0.3:
        dicts.append({})
    return dict(classes=classes, dicts=dicts, stream=stream)


SYS_LEAVES = [
    dict(kind="opt", opt=dict(key="A", has_default=False, default=None)),
    dict(kind="opt", opt=dict(key="S", has_default=False, default=None)),
    dict(kind="opt", opt=dict(key="S.X", has_default=False, default=None)),
    dict(kind="opt", opt=dict(key="S.Y", has_default=True, default=7)),
    dict(kind="opt", opt=dict(key="T.U.V", has_default=False, default=None)),
    dict(kind="opt", opt=dict(key="T.U", has_default=True, default=None)),
    dict(kind="data", tag=1, a=dict(key="A", has_default=False, default=None), b=dict(key="S.X", has_default=False, default=None)),
    dict(kind="data", tag=2, a=dict(key="T", has_default=False, default=None), b=None),
    dict(kind="edata", tag=3, a=dict(key="S.Y", has_default=False, default=None), eff=dict(key="B", has_default=True, default=0)),
    dict(kind="value", v=4),
    dict(kind="const", v=5),
]
SYS_DEFECT_LEAVES = [
    dict(kind="opt", opt=dict(key="L", has_default=False, default=None)),
    dict(kind="opt", opt=dict(key="L.0", has_default=False, default=None)),
    dict(kind="opt", opt=dict(key="L.1.X", has_default=True, default=0)),
]
SYS_BASE = {"A": 1, "S": {"X": 2, "Y": 3}, "T": {"U": {"V": 4, "W": 5}, "K": 6}, "L": [1, {"X": 2}], "B": 0}


def sys_dicts():
    def ch(p, v):
        o = copy.deepcopy(SYS_BASE)
        set_path(o, p, v)
        return o

    def rm(p):
        o = copy.deepcopy(SYS_BASE)
        del_path(o, p)
        return o
    return [
        copy.deepcopy(SYS_BASE),
        {"B": 0, "L": [1, {"X": 2}], "T": {"K": 6, "U": {"W": 5, "V": 4}}, "S": {"Y": 3, "X": 2}, "A": True, "ZZ": 1},
        ch(("S", "X"), 9), ch(("S", "Y"), 9), ch(("T", "U", "V"), 9), ch(("T", "U", "W"), 9), ch(("T", "K"), 9),
        ch(("A",), 9), ch(("B",), 9), ch(("L",), [7, {"X": 2}]), ch(("L",), [1, {"X": 8}]),
        rm(("S", "Y")), rm(("A",)), rm(("T", "U")), ch(("S",), 5), {},
    ]


def systematic_worlds(defect, triples):
    leaves = SYS_LEAVES + (SYS_DEFECT_LEAVES if defect else [])
    names = ["b", "_a", "Z"]
    out = []
    combos = list(itertools.combinations(range(len(leaves)), 2))
    if defect:
        combos = [c for c in combos if any(i >= len(SYS_LEAVES) for i in c)] + \
                 [(i,) for i in range(len(SYS_LEAVES), len(leaves))]
    else:
        combos = [(i,) for i in range(len(leaves))] + combos
        if triples:
            combos += list(itertools.combinations(range(len(leaves)), 3))
    for wi, combo in enumerate(combos):
        body = [[names[j], copy.deepcopy(leaves[i])] for j, i in enumerate(combo)]
        for j, (n, m) in enumerate(body):
            if m["kind"] in ("data", "edata"):
                m["tag"] = 10 * (j + 1) + m["tag"]
        cls = dict(id=1, name=f"Y{'D' if defect else 'V'}{wi}", body=body, plain_base=None, parent=None)
        out.append(dict(classes=[cls], dicts=sys_dicts(), stream="defect-systematic" if defect else "systematic"))
    return out


# ----------------------------------------------------------------------------- option values of every KIND (oracle only)
#
# The unchanged constructor stores, under every reported key, the very value the caller gave (get_dotted_key /
# set_dotted_key): ANY Python object is accepted there, and Option('S.X') walks through any Mapping given as a
# section.  The property's "are equal" / "shows those keys with their values" are therefore Python == on, and the
# values of, the restricted options WHATEVER their kind: a tuple is not a list, 1 == 1.0 == True, an OrderedDict
# equals a dict with the same items, a set is not JSON at all.  Model/DatasetClass.v has JSON values only (JList
# cannot tell (2, 3) from [2, 3]; no floats, sets, bytes, Mapping kinds): this family is judged by the oracle alone.
# A scenario is JSON-able (replay): values are encoded, {"$": kind, "v": ...} for everything that is not plain JSON.
# Limits of the unchanged library that are kept OUT of the family (reported, not alarmed on):
#   * a key and a proper prefix of it both reported while the section at / below the prefix is an immutable Mapping
#     (MappingProxyType, a user Mapping without __setitem__): the constructor's set_dotted_key writes into it;
#   * defaultdict sections with a default factory (reading a missing key inserts it): factory None is used.

import collections
import collections.abc
import decimal
import fractions
import types as _types


class UserMapping(collections.abc.Mapping):
    """a caller's own read-only Mapping"""

    def __init__(self, d):
        self._d = dict(d)

    def __getitem__(self, k):
        return self._d[k]

    def __iter__(self):
        return iter(self._d)

    def __len__(self):
        return len(self._d)

    def __repr__(self):
        return f"UserMapping({self._d!r})"


class DictSub(dict):
    pass


Pair = collections.namedtuple("Pair", "x y")
NAN = float("nan")          # ONE nan object: Python's == on containers holds by identity, as for the caller's own nan

MAPPING_MAKERS = {
    "dict": dict,
    "dsub": DictSub,
    "odict": collections.OrderedDict,
    "ddict": lambda d: collections.defaultdict(None, d),
    "chain": collections.ChainMap,
    "udict": collections.UserDict,
    "umap": UserMapping,
    "mproxy": lambda d: _types.MappingProxyType(dict(d)),
}
MAPPING_KINDS = list(MAPPING_MAKERS)
MUTABLE_MAPPING_KINDS = [k for k in MAPPING_KINDS if k not in ("umap", "mproxy")]


def kenc(kind, v):
    return {"$": kind, "v": v}


def dec(e):
    """encoded scenario value -> a FRESH live Python value"""
    if isinstance(e, list):
        return [dec(x) for x in e]
    if not isinstance(e, dict):
        return e
    k = e.get("$")
    if k is None:
        return {a: dec(x) for a, x in e.items()}
    v = e["v"]
    if k in MAPPING_MAKERS:
        return MAPPING_MAKERS[k]({a: dec(x) for a, x in v.items()})
    if k == "tuple":
        return tuple(dec(x) for x in v)
    if k == "ntuple":
        return Pair(*[dec(x) for x in v])
    if k == "deque":
        return collections.deque(dec(x) for x in v)
    if k == "set":
        return set(dec(x) for x in v)
    if k == "frozenset":
        return frozenset(dec(x) for x in v)
    if k == "bytes":
        return v.encode("latin-1")
    if k == "bytearray":
        return bytearray(v.encode("latin-1"))
    if k == "float":
        return NAN if v == "nan" else float(v)
    if k == "complex":
        return complex(v[0], v[1])
    if k == "decimal":
        return decimal.Decimal(v)
    if k == "fraction":
        return fractions.Fraction(v[0], v[1])
    if k == "range":
        return range(v[0], v[1])
    if k == "int":
        return int(v)
    raise AssertionError(e)


def show_p(v, ordered=False):
    """canonical, KIND-faithful text of a Python value (type names, no addresses); ordered: dictionary order kept"""
    t = type(v)
    n = t.__name__
    if v is None or t in (bool, int, str, float, complex, range):
        return f"{n}:{v!r}"
    if t in (bytes, bytearray):
        return f"{n}:{bytes(v)!r}"
    if t in (decimal.Decimal, fractions.Fraction):
        return f"{n}:{v}"
    if isinstance(v, (list, tuple, collections.deque)):
        return n + "[" + ",".join(show_p(x, ordered) for x in v) + "]"
    if isinstance(v, (set, frozenset)):
        return n + "{" + ",".join(sorted(show_p(x, ordered) for x in v)) + "}"
    if isinstance(v, collections.abc.Mapping):
        items = [f"{k!r}:{show_p(x, ordered)}" for k, x in v.items()]
        return n + "{" + ",".join(items if ordered else sorted(items)) + "}"
    return "?" + n


def same_value(a, b):
    try:
        return show_p(a) == show_p(b) and (a is b or bool(a == b))
    except Exception:  # noqa
        return False


_T = lambda *v: kenc("tuple", list(v))  # noqa: E731
_XY = {"X": 1, "Y": _T(1, 2)}
# each group: "the same content" written in different kinds (whether two of them are == is Python's business)
KIND_GROUPS = [
    [_T(2, 3), [2, 3], kenc("ntuple", [2, 3]), kenc("deque", [2, 3])],
    [_T(_T(1, 2), _T(3)), [[1, 2], [3]], [_T(1, 2), _T(3)], _T([1, 2], [3])],
    [_T("x", "y"), ["x", "y"]],
    [_T(), [], kenc("set", []), kenc("frozenset", [])],
    [kenc("set", [1, 2]), kenc("frozenset", [1, 2]), [1, 2], _T(1, 2)],
    [kenc("bytes", "ab"), kenc("bytearray", "ab"), "ab", _T("a", "b")],
    [1, 1.0, True, kenc("complex", [1, 0]), kenc("decimal", "1"), kenc("fraction", [1, 1]), "1"],
    [0, 0.0, kenc("float", "-0.0"), False, None, ""],
    [kenc("int", str(2 ** 80)), float(2 ** 80), kenc("int", str(-2 ** 80)), kenc("int", str(2 ** 80 + 1))],
    [kenc("float", "nan"), kenc("float", "nan"), None, "nan"],
    [kenc("float", "inf"), kenc("float", "-inf"), kenc("decimal", "Infinity"), kenc("int", str(10 ** 400))],
    [1.5, kenc("decimal", "1.5"), kenc("fraction", [3, 2]), "1.5"],
    [kenc("range", [0, 3]), [0, 1, 2], _T(0, 1, 2)],
    [kenc(k, _XY) if k != "dict" else dict(_XY) for k in MAPPING_KINDS],
    [{"X": _T(1, 2)}, {"X": [1, 2]}, kenc("odict", {"X": _T(1, 2)}), kenc("mproxy", {"X": [1, 2]})],
    [[kenc("odict", {"X": 1})], [{"X": 1}], _T({"X": 1}), _T(kenc("umap", {"X": 1}))],
    [kenc("odict", {"X": 1, "Y": 2}), kenc("odict", {"Y": 2, "X": 1}), {"Y": 2, "X": 1}],
    [3, "u", None, [1], 7],           # plain JSON values, so that ordinary differences are in the mix too
]
KIND_LEAVES = ["A", "B", "Q", "S.X", "S.Y", "S.Z", "T.U.V", "T.U.W", "T.K"]
KIND_SECTIONS = ["S", "T", "T.U"]
KIND_MEMBER_KEYS = ["A", "B", "S", "S.X", "S.Y", "T.U", "T.U.V", "T.K", "T"]


def kinds_render(tree):
    """tree = {"leaves": {path: [group, member]}, "sections": {path: kind}, "order": {path|"": [names]}} -> encoded"""
    def build(prefix):
        out = {}
        for name in tree["order"][prefix]:
            p = f"{prefix}.{name}" if prefix else name
            if p in tree["sections"]:
                body = build(p)
                k = tree["sections"][p]
                out[name] = body if k == "dict" else kenc(k, body)
            else:
                g, m = tree["leaves"][p]
                out[name] = KIND_GROUPS[g][m]
        return out
    return build("")


def must_be_mutable(section, member_keys):
    """the unchanged constructor writes into the caller's section object when a key and a proper prefix of it are both
    reported and the section lies at / below the prefix and above the longer key"""
    for k1 in member_keys:
        for k2 in member_keys:
            if k2.startswith(k1 + ".") and (section == k1 or section.startswith(k1 + ".")) and k2.startswith(section + "."):
                return True
    return False


def gen_kinds_world(rng, wid):
    tagc = itertools.count(1)
    n = rng.randint(2, 5)
    keys = rng.sample(KIND_MEMBER_KEYS, n)
    names = rng.sample(NAME_POOL, n + 2)
    body = []
    for name, key in zip(names, keys):
        has = rng.random() < 0.3
        body.append([name, dict(kind="opt", opt=dict(key=key, has_default=has, default=rng.choice([7, None, [1, 2]]) if has else None))])
    if rng.random() < 0.3:      # a dataset member (its cache fingerprint is JSON: some kinds make the MEMBER itself fail)
        body.append([names[n], dict(kind="data", tag=next(tagc), a=dict(key=rng.choice(["A", "S.X"]), has_default=False, default=None), b=None)])
    if rng.random() < 0.4:
        body.append([names[n + 1], dict(kind="const", v=rng.choice([5, "vw", None]))])
    classes = [dict(id=1, name=f"K{wid}C1", body=body, plain_base=None, parent=None),
               dict(id=2, name=f"K{wid}C2", body=copy.deepcopy(body), plain_base=None, parent=None)]
    member_keys = [m["opt"]["key"] for _, m in body if m["kind"] == "opt"] + [m["a"]["key"] for _, m in body if m["kind"] == "data"]

    def sec_kind(p):
        return rng.choice(MUTABLE_MAPPING_KINDS if must_be_mutable(p, member_keys) else MAPPING_KINDS)

    def leaf():
        g = rng.randrange(len(KIND_GROUPS))
        return [g, rng.randrange(len(KIND_GROUPS[g]))]

    base = {"leaves": {p: leaf() for p in KIND_LEAVES}, "sections": {p: sec_kind(p) for p in KIND_SECTIONS},
            "order": {"": ["A", "B", "Q", "S", "T"], "S": ["X", "Y", "Z"], "T": ["U", "K"], "T.U": ["V", "W"]}}
    trees = [base]
    perm = copy.deepcopy(base)
    for k in perm["order"]:
        rng.shuffle(perm["order"][k])
    trees.append(perm)
    for p in KIND_LEAVES:                       # the same content in another kind, at ONE (relevant or irrelevant) place
        t = copy.deepcopy(base)
        g, m = t["leaves"][p]
        t["leaves"][p] = [g, rng.choice([i for i in range(len(KIND_GROUPS[g])) if i != m])]
        trees.append(t)
    for p in rng.sample(KIND_LEAVES, 3):        # other content at one place
        t = copy.deepcopy(base)
        t["leaves"][p] = leaf()
        trees.append(t)
    for p in KIND_SECTIONS:                     # a section handed over as another kind of Mapping
        t = copy.deepcopy(base)
        t["sections"][p] = sec_kind(p)
        trees.append(t)
    t = copy.deepcopy(base)                     # every value in another kind at once
    for p in KIND_LEAVES:
        g, m = t["leaves"][p]
        t["leaves"][p] = [g, (m + 1) % len(KIND_GROUPS[g])]
    trees.append(t)
    t = copy.deepcopy(base)                     # a relevant value missing
    drop = rng.choice(KIND_LEAVES)
    parent, _, name = drop.rpartition(".")
    t["order"][parent].remove(name)
    trees.append(t)
    return dict(classes=classes, dicts=[], kinds_dicts=[kinds_render(t) for t in trees], stream="kinds")


def restrict_tree(o, paths):
    """own_restrict, keeping apart the dictionaries made by the restriction (node) and the caller's values (leaf)"""
    out = {}
    for seg in dict.fromkeys(p[0] for p in paths):
        tails = [p[1:] for p in paths if p[0] == seg]
        val = o[seg]
        out[seg] = ("leaf", val) if any(len(t) == 0 for t in tails) else restrict_tree(val, tails)
    return ("node", out)


def tree_value(t):
    return t[1] if t[0] == "leaf" else {k: tree_value(x) for k, x in t[1].items()}


def renderings_iter(t):
    """every text "{k: v, ...}" of the restricted options with the caller's values printed by their own repr, over all
    orders of the dictionaries made by the restriction; the first one is in sorted key order"""
    if t[0] == "leaf":
        yield repr(t[1])
        return
    items = sorted(t[1].items())
    for perm in itertools.permutations(range(len(items))):
        for combo in itertools.product(*[[f"{items[i][0]!r}: {s}" for s in renderings_iter(items[i][1])] for i in perm]):
            yield "{" + ", ".join(combo) + "}"


def kinds_repr_ok(cls, inst, tree):
    """repr shows the restricted options: Name(<text>) where <text> is the restricted options printed with the caller's
    values shown by their own repr (any order of the dictionaries the restriction makes), or reads back
    (ast.literal_eval) kind for kind as that text does"""
    try:
        r = repr(inst)
    except Exception:  # noqa
        return False
    head = cls.__name__ + "("
    if not (r.startswith(head) and r.endswith(")")):
        return False
    inner = r[len(head):-1]
    first = next(renderings_iter(tree))
    if inner == first:
        return True
    try:
        shown = ast.literal_eval(inner)
        return isinstance(shown, dict) and show_p(shown) == show_p(ast.literal_eval(first))
    except Exception:  # noqa
        pass
    return any(inner == x for x in itertools.islice(renderings_iter(tree), 20000))


def kinds_class_op(cls, method, e):
    work = dec(e)
    before = show_p(work, True)
    try:
        r = getattr(cls, method)(work)
        got = ("ok", None if method == "validate" else set(r))
    except Exception as ex:  # noqa
        got = ("err", canon_err(ex))
    return got, show_p(work, True) == before


def kinds_single(w, ci, e, bad):
    """the property's statement on one (class, options with values of arbitrary kinds); returns (#checks, built?)"""
    cls, mem, objs = w.classes[ci], w.members(ci), w.objs[ci]
    vis = sorted(n for n in mem if not n.startswith("__"))
    checks = 0
    direct, first_err = {}, None
    for n in vis:
        k, v = direct_eval(objs[n], mem[n], dec(e))
        direct[n] = (k, v)
        if k == "err" and first_err is None:
            first_err = (n, v)
    work = dec(e)
    before = show_p(work, True)
    kind, inst = construct(cls, work)
    checks += 2
    if show_p(work, True) != before:
        bad("the constructor modified the caller's dictionary", after=show_p(work, True))
    if first_err is not None:
        if not (kind == "member" and inst == first_err[1]):
            bad("a member's evaluation fails but the constructor does not fail with the first failing member's error",
                member=first_err[0], expected=first_err[1], got=[kind, inst if kind != "ok" else "instance"])
    elif kind != "ok":
        bad("every member evaluates but instantiation fails", got=[kind, inst])
    if kind == "ok":
        for n in vis:
            checks += 1
            try:
                got = getattr(inst, n)
            except Exception as ex:  # noqa
                bad("reading an instance attribute raises", member=n, error=type(ex).__name__)
                continue
            if not (direct[n][0] == "ok" and same_value(got, direct[n][1])):
                bad("instance attribute differs from the member's own evaluation / constant", member=n,
                    got=show_p(got), want=show_p(direct[n][1]) if direct[n][0] == "ok" else direct[n][1])
        k2, inst2 = construct_eval(cls, dec(e))
        checks += 1
        if not (k2 == "ok" and safe_eq(inst2, inst) == "T" and safe_ne(inst2, inst) == "F"
                and all(same_value(getattr(inst2, n, None), getattr(inst, n, None)) for n in vis)):
            bad("cls.evaluate(options) differs from cls(options)")
    reported = None
    for method in ("keys", "explain"):
        want = union_of(w, ci, method, dec(e))
        got, untouched = kinds_class_op(cls, method, e)
        checks += 2
        if got != want:
            bad(f"class {method}() is not the union over the members", got=repr(got), want=repr(want))
        if not untouched:
            bad(f"{method}() modified the caller's dictionary")
        if method == "keys" and got[0] == "ok":
            reported = got[1]
    vfail = None
    for n in sorted(mem):
        if n.startswith("__") or mem[n]["kind"] in ("const", "value"):
            continue
        try:
            objs[n].validate(dec(e))
        except Exception as ex:  # noqa
            vfail = canon_err(ex)
            break
    got, untouched = kinds_class_op(cls, "validate", e)
    checks += 2
    if (got[1] if got[0] == "err" else None) != vfail:
        bad("class validate() does not pass exactly when every member's validate passes (first failing member's error)",
            got=repr(got), want=vfail)
    if not untouched:
        bad("validate() modified the caller's dictionary")
    if kind == "ok" and reported is not None:
        checks += 1
        try:
            tree = restrict_tree(dec(e), [k.split(".") for k in sorted(reported)])
        except Exception as ex:  # noqa
            bad("instance built but the reported keys cannot be read from the options", error=repr(ex))
            return checks, False
        if not kinds_repr_ok(cls, inst, tree):
            bad("repr does not show the options restricted to the reported keys (values of the kinds that were given)",
                repr=safe_repr(inst), want=show_p(tree_value(tree)))
    return checks, kind == "ok"


def kinds_pairs(w, cis, encs, viol, scen, stats):
    """== / != over all pairs: same class -> exactly Python's == on the restricted options; other class -> never"""
    built = {}
    for ci in cis:
        cls = w.classes[ci]
        for di, e in enumerate(encs):
            if ci > 0 and di >= 4:         # the twin class: a few instances are enough for "other class -> never equal"
                break
            kind, inst = construct(cls, dec(e))
            if kind != "ok":
                continue
            try:
                o = dec(e)
                r = tree_value(restrict_tree(o, [k.split(".") for k in sorted(cls.keys(dec(e)))]))
            except Exception:  # noqa
                continue
            built[(ci, di)] = (inst, r)
    checks = 0
    for (ca, da), (ia, ra) in built.items():
        for (cb, db), (ib, rb) in built.items():
            checks += 1
            got, ne = safe_eq(ia, ib), safe_ne(ia, ib)
            if ca == cb:
                try:
                    want = "T" if ra == rb else "F"
                except Exception:  # noqa
                    continue
                if want == "T" and show_p(ra) != show_p(rb):
                    stats["kinds_equal_though_written_in_other_kinds"] += 1
                if want == "F":
                    stats["kinds_unequal"] += 1
            else:
                want = "F"
            if got != want or ne == got:
                viol.append(dict(desc=("instance equality does not follow Python's == on the restricted options (values of arbitrary kinds)"
                                       if ca == cb else "instances of different classes compare equal"),
                                 finding=None, **scen, class_a=ca, class_b=cb, dict_a=encs[da], dict_b=encs[db],
                                 restricted_a=show_p(ra), restricted_b=show_p(rb), eq=got, ne=ne, want=want))
    return checks


def run_kinds_world(spec, viol, stats):
    w = World(spec)
    encs = spec["kinds_dicts"]
    cis = list(range(len(spec["classes"])))
    checks = 0
    for di, e in enumerate(encs):
        for ci in cis[:1] if di % 6 else cis:
            scen = dict(world=spec, cls=ci, kinds_dict_index=di, options_encoded=e)

            def bad(desc, **kw):
                viol.append(dict(desc=desc + " [option values of arbitrary kinds]", finding=None, **scen, **kw))
            n, ok = kinds_single(w, ci, e, bad)
            checks += n
            stats["kinds_scenarios"] += 1
            stats["kinds_built" if ok else "kinds_not_built"] += 1
    checks += kinds_pairs(w, cis, encs, viol, dict(world=spec, cls=None), stats)
    return checks


# ----------------------------------------------------------------------------- run

def zone_L(keys):
    """zone of finding C19-L: a reported key with a list-index segment"""
    return keys is not None and any(is_idx(s) for k in keys for s in k.split("."))


def run_world(w, spec, cases, viol, stats, distinct, pending_known, alts=None):
    """alts: further implementation observations that the model line of an existing case must equal as well
    (the model has values only: what the caller does to its dictionary object afterwards cannot matter)"""
    import random
    alts = [] if alts is None else alts
    dicts = spec["dicts"]
    cis = list(range(len(spec["classes"])))
    checks = 0
    for ci in cis:
        for di, o in enumerate(dicts):
            scen = dict(world=spec, cls=ci, dict_index=di)
            line, info = observe_impl(w, ci, o)
            expr = f"observe {w.coq_class(ci)} {coq_dict(o)}"
            cases.append((expr, line, scen))
            idx = len(cases) - 1
            before = len(viol)
            checks += oracle_single(w, ci, o, viol, scen)
            for v in viol[before:]:
                v["case_index"] = idx
                if v.get("zone_hint") == "constructor" and info["kind"] == "raw" and zone_L(info["keys"]):
                    pending_known.append(v)
            # the caller edits the dictionary object in place after the instantiation (edits drawn from a generator
            # seeded by the scenario itself: a replay draws the same ones)
            if info["kind"] == "ok" and (ci + di) % 3 == 0:
                erng = random.Random(lib.stable_hash([spec["classes"][ci]["body"], spec["classes"][ci]["name"], show_j(o), di]))
                n, after_build = oracle_reuse(w, ci, o, viol, scen, erng, stats)
                checks += n
                if after_build is not None:
                    line2, _ = observe_impl(w, ci, o, after_build)
                    alts.append((idx, line2, scen, "the caller edited its dictionary in place and instantiated again before the first instance was read"))
            stats["outcome_" + info["kind"]] += 1
            stats["side_" + info["side"]] += 1
            mem = w.members(ci)
            nev = sum(1 for n, m in mem.items() if not n.startswith("__") and m["kind"] in ("opt", "data", "edata"))
            if info["kind"] == "ok" and nev >= 2 and info["keys"]:
                distinct.add(lib.stable_hash([spec["classes"][ci]["body"], spec["classes"][ci]["plain_base"],
                                              spec["classes"][ci]["parent"], show_j(o)]))
            if info["keys"] and any("." in k for k in info["keys"]):
                stats["dotted_keys_reported"] += 1
            if info["keys"] and any(a != b and b.startswith(a + ".") for a in info["keys"] for b in info["keys"]):
                stats["key_and_prefix_reported"] += 1
    scen = dict(world=spec, cls=None, dict_index=None)
    checks += oracle_pairs(w, cis, dicts, viol, scen, stats)
    checks += oracle_pairs(w, cis, dicts, viol, scen, stats, shared=True)
    expr = "eq_matrix [" + "; ".join(w.coq_class(ci) for ci in cis) + "] [" + "; ".join(coq_dict(o) for o in dicts) + "]"
    cases.append((expr, eq_matrix_impl(w, cis, dicts), scen))
    alts.append((len(cases) - 1, eq_matrix_impl(w, cis, dicts, shared=True), scen,
                 "all instances built from one caller dictionary object refilled in place"))
    return checks


def known_witness():
    """finding C19-L replayed: members Option('L') and Option('L.0') on {'L': [1, 2]}"""
    from labrea import Option, datasetclass
    cls = datasetclass(type("KL", (), {"l": Option("L"), "l0": Option("L.0")}))
    o = {"L": [1, 2]}
    ok_members = Option("L").evaluate(o) == [1, 2] and Option("L.0").evaluate(o) == 1
    kind, res = construct(cls, copy.deepcopy(o))
    return ok_members and kind != "ok", dict(members_evaluate=ok_members, constructor=[kind, res if kind != "ok" else "instance"])


def aliasing_probe():
    """Observation only (not part of the property's text): when a key and one of its prefixes are
    both reported, _repr_options holds the CALLER's nested dictionary, so a later mutation of the
    caller's dictionary shows through the instance."""
    from labrea import Option, datasetclass
    cls = datasetclass(type("KA", (), {"s": Option("S"), "x": Option("S.X")}))
    o = {"S": {"X": 1, "Y": 2}}
    inst = cls(o)
    before = repr(inst)
    o["S"]["X"] = 99
    return before != repr(inst)


def run(ctx):
    import collections
    rng = ctx.rng
    n_valid, n_malformed, n_defect = (200, 40, 80) if ctx.quick else (2500, 400, 900)
    stats = collections.Counter()
    cases, viol, distinct, pending_known, alts = [], [], set(), [], []
    checks = 0
    specs = systematic_worlds(False, triples=not ctx.quick) + systematic_worlds(True, False)
    specs += [gen_world(rng, i, "valid") for i in range(n_valid)]
    specs += [gen_world(rng, 10000 + i, "malformed") for i in range(n_malformed)]
    specs += [gen_world(rng, 20000 + i, "defect") for i in range(n_defect)]
    member_kinds = collections.Counter()
    for spec in specs:
        w = World(spec)
        stats["worlds_" + spec["stream"]] += 1
        for c in spec["classes"]:
            for _, m in c["body"] + (c["plain_base"] or []):
                member_kinds[m["kind"]] += 1
            if c["plain_base"]:
                stats["classes_with_plain_base"] += 1
            if c["parent"] is not None:
                stats["classes_deriving_from_dataset_class"] += 1
        checks += run_world(w, spec, cases, viol, stats, distinct, pending_known, alts)
    # option values of every kind the constructor accepts (oracle only; generated after everything else: the
    # streams above are what they were)
    for i in range(40 if ctx.quick else 600):
        kspec = gen_kinds_world(rng, i)
        stats["worlds_kinds"] += 1
        checks += run_kinds_world(kspec, viol, stats)
    model_lines = ctx.coq_eval("Cases_C19", REQ, "", [c[0] for c in cases], shard=150)
    mism = []
    for (expr, line, scen), ml in zip(cases, model_lines):
        if ml != line:
            mism.append(dict(where="Model/DatasetClass.v vs labrea.datasetclass", scenario=slim(scen), impl=line, model=ml))
    for idx, line, scen, what in alts:
        if model_lines[idx] != line:
            mism.append(dict(where="Model/DatasetClass.v vs labrea.datasetclass (" + what + ")", scenario=slim(scen), impl=line,
                             model=model_lines[idx]))
    # a constructor failure in the list-index zone on which the model agrees with the implementation
    # is the known finding C19-L; anything else stays an untagged violation
    for v in pending_known:
        i = v["case_index"]
        if model_lines[i] == cases[i][1]:
            v["finding"] = FINDING_L
    still, detail = known_witness()
    tagged = sum(1 for v in viol if v["finding"] == FINDING_L)
    # untagged first, and one of each kind of failure before the repetitions (the driver writes
    # replay files for the first few only)
    seen_desc = set()
    for v in viol:
        v["_first"] = v["desc"] not in seen_desc
        seen_desc.add(v["desc"])
    violations = [slim_v(v) for v in sorted(viol, key=lambda v: (v["finding"] is not None, not v["_first"]))]
    samples = [dict(scenario=slim(cases[i][2]), observation=cases[i][1]) for i in range(0, len(cases), max(1, len(cases) // 5))][:5]
    return {
        "evaluations": len(cases) + checks,
        "distinct_nontrivial": len(distinct),
        "rule": "a (class, dictionary) scenario is non-trivial when the class has >= 2 visible option/dataset members, the "
                "constructor succeeds and the class reports at least one key; distinct by hash of (class bodies, dictionary). "
                "Streams: systematic (every 1- and 2-member class over 11 member shapes x 16 dictionaries differing in one relevant "
                "or irrelevant nested key, permuted, extended, truncated), random valid (2-6 members, plain base classes, dataset-class "
                "subclasses, twins), defect (list-index keys, scalar parents). Caller-side histories on every third (class, dictionary): "
                "the caller's dictionary object is edited in place after the instantiation (1-3 assignments / deletions / new entries at and "
                "around the reported keys, top level and nested; never inside a value object that is itself a reported key's value), a second "
                "instance is built from the same object (through cls(...) or cls.evaluate(...), with or without keys/validate/explain having "
                "seen the object), and only then the first instance is read, printed and compared; all pairs again with every instance built "
                "from ONE dictionary object refilled in place. The model has values only, so those observations must equal the model line of "
                "the plain case. Oracle only (outside the model's JSON values): option values of every kind the constructor accepts under a reported "
                "key (tuples, namedtuples, sets, frozensets, bytes, big integers, floats incl. nan/inf, complex, Decimal, Fraction, ranges, deques, every "
                "kind of Mapping as value and as section), dictionaries differing in one place by the same content written in another kind: members, "
                "class operations, ==/!= exactly Python's == on the restricted options, repr with the values of the kinds that were given.",
        "samples": samples,
        "traces_validated_against_impl": len(cases) + len(alts),
        "correspondence_mismatches": mism[:5],
        "violations": violations,
        "known": [dict(id=FINDING_L, still_fails=bool(still),
                       what="members Option('L') and Option('L.0') on {'L': [1, 2]}: both evaluate, the constructor raises TypeError",
                       detail=detail, generated_hits=tagged)],
        "distribution": dict(stats, member_kinds=dict(member_kinds), oracle_checks=checks, model_cases=len(cases),
                             model_cases_observed_again_after_caller_edits=len(alts),
                             mismatches=len(mism), untagged_violations=sum(1 for v in viol if v["finding"] is None)),
        "exhaustive": False,
        "notes": ["observation (outside the property's text): an instance built from a class reporting both 'S' and 'S.X' shares the "
                  f"caller's nested dictionary; a later mutation of the caller's dictionary changes its repr: {aliasing_probe()}"],
        "assumptions": [
            "option values are JSON data without template braces; list-index keys are never applied to strings (outside Base.v's universe)",
            "member functions are deterministic functions of the options dictionary (Section variables of the theorems)",
            "names are compared through atoms whose order is Python's string order (the harness ranks the names)",
            "which constructor writes reach caller-owned objects (Model caller_writes) is a claim about CPython object identity: "
            "checked by deep snapshots of the caller's dictionary around the constructor, keys, explain and validate",
            "partial: _partial theorems assume name_keys (no list-index key reported); the runtime part is CPython's dir(), getattr/MRO, "
            "rich-comparison dispatch for == between a class and its subclass, dict ==, repr",
        ],
        "trusted_base": ["confectioner get_dotted_key/set_dotted_key as modelled in Model/Base.v (lookup, set_dotted)",
                         "CPython dir()/MRO/== dispatch/repr (observed, not modelled beyond Model/DatasetClass.v dir_entries, inst_eq)"],
    }


def slim(scen):
    w = scen["world"]
    out = dict(stream=w.get("stream"), classes=w["classes"], cls=scen.get("cls"))
    if scen.get("dict_index") is not None:
        out["options"] = w["dicts"][scen["dict_index"]]
    else:
        out["dicts"] = w["dicts"]
    return out


def slim_v(v):
    out = {k: x for k, x in v.items() if k not in ("world", "case_index", "zone_hint", "_first")}
    w = v["world"]
    out["world"] = dict(classes=w["classes"], dicts=w["dicts"], stream=w.get("stream"))
    if "kinds_dicts" in w:
        out["world"]["kinds_dicts"] = w["kinds_dicts"]
    return out


def replay(ctx, payload):
    import collections
    spec = payload.get("world")
    if spec is None:
        return True, {"note": "payload names no scenario (broken obligation or correspondence); re-run the check", "payload": payload}
    if spec.get("kinds_dicts") is not None:
        kviol = []
        run_kinds_world(dict(classes=spec["classes"], dicts=[], kinds_dicts=spec["kinds_dicts"], stream="kinds"), kviol,
                        collections.Counter())
        return bool(kviol), {"oracle_violations": [slim_v(v) for v in kviol[:3]], "correspondence_mismatches": [],
                             "note": "option values of arbitrary kinds: oracle only (outside Model/DatasetClass.v)"}
    spec = dict(classes=spec["classes"], dicts=spec["dicts"], stream=spec.get("stream", "replay"))
    w = World(spec)
    cases, viol, pending, alts = [], [], [], []
    run_world(w, spec, cases, viol, collections.Counter(), set(), pending, alts)
    model_lines = ctx.coq_eval("Replay_C19", REQ, "", [c[0] for c in cases], shard=150)
    mism = [dict(impl=c[1], model=ml, scenario=slim(c[2])) for c, ml in zip(cases, model_lines) if ml != c[1]]
    mism += [dict(impl=line, model=model_lines[idx], scenario=slim(scen), how=what) for idx, line, scen, what in alts
             if model_lines[idx] != line]
    for v in pending:
        if model_lines[v["case_index"]] == cases[v["case_index"]][1]:
            v["finding"] = FINDING_L
    known_ids = {e["id"] for e in lib.load_known_findings(PID) if e.get("status") == "known"}
    new = [v for v in viol if not (v["finding"] and v["finding"] in known_ids)]
    return bool(new) or bool(mism), {"oracle_violations": [slim_v(v) for v in new[:3]], "correspondence_mismatches": mism[:3],
                                     "known_finding_hits": len(viol) - len(new)}
