"""C04 - Option resolution: present key wins (even falsy), else default, else error; domains;
namespaces; Option.set."""
import copy
import itertools
import re

import coreprop as cp
import core
import gen
import lib
from core import S, lit
from gen import K
from witnesses import corpus_for

PID = "C04"
COQ_TARGETS = cp.COQ_TARGETS

A, B, SEC, SX, SY, LST, ALLOWED = 10, 11, 20, 21, 22, 30, 13
KEYS = [K(A), K(SEC), K(SEC, SX), K(SEC, SX, SY), K(LST, "i0"), K(LST, "i1")]
FALSY = [None, 0, False, lit(""), [], {}]
TRUTHY = [1, lit("t"), [1], {SY: 1}]
TEMPL = [S(("ref", K(B))), S(("lit", "a"), ("ref", K(B)))]
# templated strings inside container values: evaluate resolves them too (keys()/explain() do not see
# them: finding D1, which concerns C01/C03/C09, not the value an Option yields)
TEMPLC = [[S(("ref", K(B))), 1], {SY: S(("lit", "a"), ("ref", K(B)))}, [[S(("ref", K(B)))]]]


def place(key, v, extra):
    """a dictionary in which `key` holds v (plus `extra` top-level entries)"""
    o = dict(extra)
    segs = list(key)
    if segs[0] == ("n", LST):
        idx = segs[1][1]
        o[LST] = [7] * idx + [v]
        return o
    cur = o
    for s in segs[:-1]:
        cur[s[1]] = {}
        cur = cur[s[1]]
    cur[segs[-1][1]] = v
    return o


# --- independent reference (the property text, not labrea / confectioner code) ---

class Missing(Exception):
    pass


class ScalarParent(Exception):
    pass


def ref_get(text, o):
    cur = o
    for part in text.split("."):
        if isinstance(cur, dict):
            if part.isdigit() or part not in cur:
                raise Missing(text)
            cur = cur[part]
        elif isinstance(cur, list):
            if not part.isdigit() or int(part) >= len(cur):
                raise Missing(text)
            cur = cur[int(part)]
        else:
            raise ScalarParent(text)
    return cur


REF = re.compile(r"(?<!\\)\{([^{}\\]*)\}")


def ref_resolve(v, o, depth=0):
    if depth > 20:
        raise RecursionError
    if isinstance(v, str):
        m = REF.fullmatch(v)
        if m:
            return ref_resolve(ref_get(m.group(1), o), o, depth + 1)
        ks = REF.findall(v)
        if ks:
            for k in dict.fromkeys(ks):
                v = v.replace("{" + k + "}", str(ref_get(k, o)))
            return ref_resolve(v, o, depth + 1)
        return v.replace("\\{", "{").replace("\\}", "}")
    if isinstance(v, list):
        return [ref_resolve(x, o, depth) for x in v]
    if isinstance(v, dict):
        return {k: ref_resolve(x, o, depth) for k, x in v.items()}
    return v


DEFAULTS = [
    ("none", None),
    ("constant", ("value", ("j", 7))),
    ("constant-falsy", ("value", ("j", None))),
    ("template", ("template", (("lit", "d"), ("ref", K(B))), [])),
    ("factory", ("call", 100, [])),
    ("chained", ("option", K(B), ("value", ("j", 8)), None)),
    ("dataset", ("dataset", 1)),
]
DOMAINS = [
    ("none", None),
    ("container", ("value", ("j", [0, 1, None, False, lit(""), lit("t"), 7, 8]))),
    ("predicate", ("fnvalue", 101)),
    ("evaluatable", ("option", K(ALLOWED), None, None)),
    # an evaluatable domain with a default of its own: explain() lists nothing for it, yet it depends on the options
    ("evaluatable-default", ("option", K(ALLOWED), ("value", ("j", [0, 1, None, 7, 8, lit("t")])), None)),
]
FT = {100: ("const", ("j", 7)), 101: ("in", [("j", v) for v in (0, 1, None, lit(""), lit("t"), 7, 8)]), 102: ("tag",)}
ENV = {1: dict(fid=102, kwargs=[("option", K(B), ("value", ("j", 3)), None)])}


def expected(world_scn, key, dflt, dom, o):
    """outcome the property demands, as ('ok', python value) | ('missing', key text) | ('domain',)
    | ('other',) (the default's own failure) ; raises ScalarParent in the D6 zone"""
    po = core.py_json(o)
    try:
        raw = ref_get(core.key_text(key), po)
        try:
            val = ref_resolve(raw, po)
        except Missing as m:
            return ("missing", m.args[0])
    except Missing:
        if dflt is None:
            return ("missing", core.key_text(key))
        one = dict(world_scn, exprs=[dflt], ops=[("evaluate", 0, True, False, o)])
        raws = []
        line = core.run_impl(one, raw_out=raws)[0]
        if not line.startswith("ok:"):
            return ("default-fails", line)
        val = raws[0]
    if dom is not None:
        one = dict(world_scn, exprs=[dom], ops=[("evaluate", 0, True, False, o)])
        raws = []
        line = core.run_impl(one, raw_out=raws)[0]
        if not line.startswith("ok:"):
            return ("domain-expr-fails", line)
        d = raws[0]
        ok = d(val) if callable(d) else (val in d)
        if not ok:
            return ("domain",)
    return ("ok", val)


def check_option(scn_base, key, dflt, dom, o, violations, stats):
    e = ("option", key, dflt, dom)
    scn = dict(scn_base, exprs=[e], ops=[("evaluate", 0, True, False, o)])
    raws = []
    w_objs = core.run_impl(scn, want_objects=True, raw_out=raws)
    line = w_objs[0][0]
    res = cp.split(line)[0]
    zone = None
    try:
        exp = expected(scn_base, key, dflt, dom, o)
    except ScalarParent:
        exp, zone = ("scalar-parent",), "D6"
    stats[exp[0]] = stats.get(exp[0], 0) + 1
    bad = None
    if exp[0] == "ok":
        if not res.startswith("ok:") or not (raws[0] == exp[1] and type(raws[0]) == type(exp[1])):
            bad = f"expected the value {exp[1]!r}"
    elif exp[0] == "missing":
        want = core.canon_names(f"err:key({core.key_text(core.parse_key(exp[1]))}):T")
        if res != want:
            bad = f"expected a missing-key error naming {exp[1]}"
    elif exp[0] == "domain":
        if not res.startswith("err:domain"):
            bad = "expected a domain failure (a value outside the domain must not be returned)"
    elif exp[0] in ("default-fails", "domain-expr-fails"):
        if not res.startswith("err:"):
            bad = "expected a failure (the default / domain expression fails under these options)"
    elif exp[0] == "scalar-parent":
        # the key is not present: the property demands default-or-missing-key; labrea raises TypeError
        want_ok = dflt is not None
        if (want_ok and not res.startswith("ok:")) or (not want_ok and not res.startswith("err:key(")):
            bad = "key under a scalar parent is absent: expected the default / a missing-key error"
    if bad:
        violations.append(dict(desc=f"Option.evaluate: {bad}", got=res, expr=repr(e), options=repr(o), finding=zone,
                               scenario_repr=cp.dump_scn(scn)))
    return scn, res


def exhaustive_options(ctx):
    """key universe x values x default forms x domain forms"""
    rng = ctx.rng
    violations, stats, corr = [], {}, []
    base = dict(ftable=FT, env=ENV)
    n = 0
    vals = FALSY + TRUTHY + TEMPL + TEMPLC
    combos = list(itertools.product(KEYS, DEFAULTS, DOMAINS))
    if ctx.quick:
        combos = [c for i, c in enumerate(combos) if i % 2 == 0 or c[1][0] in ("none", "constant")]
    for key, (dn, dflt), (domn, dom) in combos:
        dicts = []
        for v in vals:
            for extra in ({}, {B: 5}):
                ex = dict(extra)
                if domn == "evaluatable" or (domn == "evaluatable-default" and len(dicts) % 3 == 0):
                    ex[ALLOWED] = [0, 1, None, 7, 8, lit("t")] if len(dicts) % 2 == 0 else [1, 8]
                dicts.append(place(key, v, ex))
        dicts.append({})
        dicts.append({B: 5, ALLOWED: [7, 8, 3]})
        if len(key) > 1 and key[0] != ("n", LST):
            dicts.append({key[0][1]: 5})                       # scalar parent (finding D6 zone)
            dicts.append({key[0][1]: {}})
        fresh = []
        for o in dicts:
            n += 1
            fresh.append(check_option(base, key, dflt, dom, o, violations, stats)[1])
        e = ("option", key, dflt, dom)
        # ONE long-lived Option object evaluated under all these dictionaries in (shuffled) sequence must answer
        # each time as a fresh object does (no state may be kept on the object between evaluations)
        order = list(range(len(dicts)))
        rng.shuffle(order)
        hist = dict(base, exprs=[e], ops=[("evaluate", 0, True, False, dicts[i]) for i in order])
        for pos, (i, line) in enumerate(zip(order, core.run_impl(hist))):
            n += 1
            if cp.split(line)[0] != fresh[i]:
                violations.append(dict(desc="Option.evaluate: one long-lived Option object answers differently from a fresh one after "
                                            "having been evaluated under other dictionaries", position=pos, got=cp.split(line)[0],
                                       fresh=fresh[i], expr=repr(e), options=repr(dicts[i]), finding=None,
                                       scenario_repr=cp.dump_scn(dict(hist, ops=hist["ops"][:pos + 1]))))
                break
        sample = dicts if not ctx.quick else rng.sample(dicts, min(10, len(dicts)))
        ops = [(m, 0, False, False, o) for o in sample for m in ("evaluate", "validate", "keys", "explain")]
        corr.append(dict(base, exprs=[e], ops=ops))
    return violations, stats, corr, n


def namespace_checks(violations):
    """options grouped in a namespace behave exactly like the fully-qualified Options"""
    from labrea import Option
    n = 0
    cases = []

    def mk():
        @Option.namespace
        class NS:
            A = Option("A", default=1, domain=[1, 2, 3])
            B: int
            C = 5
            D = Option("D", default="{NS.C}-x")
            E = Option.auto(default=2, domain=[2, 4]) >> (lambda v: ("t", v))
            F = Option("F")
            R: int = 0
            V: bool = False
            P: str = ""
            N0: object = None
            TG: list = []

            class SUB:
                G = Option("G", default=1, domain=[1, 2])
                H: str
                I = "lit"

            @Option.namespace("RENAMED")
            class Other:
                J = 10
        return NS
    NS = mk()
    pairs = [
        (NS.A, Option("NS.A", default=1, domain=[1, 2, 3]), "NS.A"),
        (NS.B, Option("NS.B"), "NS.B"),
        (NS.C, Option("NS.C", default=5), "NS.C"),
        (NS.D, Option("NS.D", default="{NS.C}-x"), "NS.D"),
        (NS.E, Option("NS.E", default=2, domain=[2, 4]) >> (lambda v: ("t", v)), "NS.E"),
        (NS.F, Option("NS.F"), "NS.F"),
        (NS.R, Option("NS.R", default=0), "NS.R"),
        (NS.V, Option("NS.V", default=False), "NS.V"),
        (NS.P, Option("NS.P", default=""), "NS.P"),
        (NS.N0, Option("NS.N0", default=None), "NS.N0"),
        (NS.TG, Option("NS.TG", default=[]), "NS.TG"),
        (NS.SUB.G, Option("NS.SUB.G", default=1, domain=[1, 2]), "NS.SUB.G"),
        (NS.SUB.H, Option("NS.SUB.H"), "NS.SUB.H"),
        (NS.SUB.I, Option("NS.SUB.I", default="lit"), "NS.SUB.I"),
        (NS.Other.J, Option("NS.RENAMED.J", default=10), "NS.RENAMED.J"),
    ]
    dicts = [{}, {"NS": {}}, {"NS": {"A": 2, "B": 0, "C": None, "D": "", "E": 4, "F": False}},
             {"NS": {"A": 7, "E": 3, "SUB": {"G": 9}}}, {"NS": {"SUB": {"G": 2, "H": "h", "I": 0}, "RENAMED": {"J": 0}}},
             {"NS": {"C": 6, "D": "{NS.A}"}}, {"NS": {"F": "{NS.MISSING}"}}, {"NS": 5}, {"NS": {"SUB": 3}}]

    def obs(x, m, o):
        try:
            r = getattr(x, m)(copy.deepcopy(o))
            return ("ok", r)
        except Exception as e:  # noqa
            c, ee = core.classify(e) if True else ("?", False)
            return ("err", c.split("(")[0] if not c.startswith("key") else c, ee)
    for member, ref, name in pairs:
        for o in dicts:
            for m in ("evaluate", "validate", "keys", "explain"):
                n += 1
                a, b = obs(member, m, o), obs(ref, m, o)
                if a != b:
                    violations.append(dict(desc=f"namespace member {name} differs from the fully-qualified Option on {m}",
                                           options=repr(o), member=repr(a), qualified=repr(b), finding=None, namespace_case=name))
    return n


def set_checks(ctx, violations):
    """Option.set with a non-mapping value"""
    from labrea import Option
    n = 0
    coq_cases = []
    vals = [None, 0, False, "", [], 1, "t", [1, 2]]
    keys = [K(A), K(SEC, SX), K(SEC, SX, SY), K(B, SX), K(LST, "i0")]
    dicts = [{}, {A: 1}, {SEC: {SX: 1, SY: 2}, A: 3}, {SEC: {SY: 2}}, {SEC: {SX: {SY: 4, A: 5}}}, {LST: [1, 2], A: 0}, {B: {SY: 1}}]
    for key in keys:
        opt = Option(core.key_text(key))
        listkey = any(s[0] == "i" for s in key)
        for o in dicts:
            for v in vals:
                n += 1
                po = core.py_json(o)
                snap = copy.deepcopy(po)
                try:
                    new = opt.set(po, v)
                except Exception as e:  # noqa
                    violations.append(dict(desc="Option.set raised", key=core.key_text(key), options=repr(o), value=repr(v),
                                           error=repr(e), finding="D10" if listkey else None))
                    continue
                problems = []
                if po != snap or repr(po) != repr(snap):
                    problems.append("the input dictionary was modified")
                if new is po:
                    problems.append("the input dictionary itself was returned")
                try:
                    got = opt.evaluate(new)
                    if not (got == v and type(got) == type(v)):
                        problems.append(f"the Option evaluates to {got!r} in the new dictionary")
                except Exception as e:  # noqa
                    problems.append(f"the Option cannot be evaluated in the new dictionary ({type(e).__name__})")
                # all other keys intact
                for k2 in [K(A), K(B), K(SEC, SX), K(SEC, SY), K(SEC, SX, SY), K(SEC, SX, A), K(LST, "i1"), K(B, SY)]:
                    t2, t = core.key_text(k2), core.key_text(key)
                    if t2 == t or t2.startswith(t + ".") or t.startswith(t2 + "."):
                        continue
                    try:
                        before = ("v", ref_get(t2, snap))
                    except Exception:
                        continue
                    try:
                        after = ("v", ref_get(t2, new))
                    except Exception:
                        after = ("absent",)
                    if before != after:
                        problems.append(f"key {t2} changed from {before} to {after}")
                if problems:
                    violations.append(dict(desc="Option.set: " + "; ".join(problems), key=core.key_text(key), options=repr(o),
                                           value=repr(v), result=repr(new), finding="D10" if listkey else None))
                # correspondence with Base.set_dotted + mix
                vj = core.lit(v) if isinstance(v, str) else v
                coq_cases.append((f"match set_dotted {core.coq_key(key)} {core.coq_json(vj)} [] with "
                                  f"Some d => show_json (JObj (mix {core.coq_dict(o)} d)) | None => \"typeerror\" end", core.canon_names(core.show(new))))
    return n, coq_cases


def known_witnesses():
    from labrea import Option
    out = []
    try:
        r = Option("S.X", default=1)({"S": 5})
        d6 = r != 1
    except Exception:
        d6 = True
    out.append(dict(id="D6", still_fails=d6, what="Option('S.X', default=1)({'S': 5}) raises (TypeError under EvaluationError) instead of yielding the default"))
    try:
        new = Option("L.0").set({"L": [1, 2]}, 9)
        d10 = Option("L.0")(new) != 9
    except Exception:
        d10 = True
    out.append(dict(id="D10", still_fails=d10, what="Option('L.0').set({'L':[1,2]}, 9) -> {'L': {'0': 9}} on which Option('L.0') fails"))
    return out


def run(ctx):
    violations, stats, corr, n_opt = exhaustive_options(ctx)
    n_ns = namespace_checks(violations)
    n_set, set_cases = set_checks(ctx, violations)
    corr = [s for _, s in corpus_for(PID)] + corr
    # random options with chained defaults etc. through the general generator
    for i in range(60 if ctx.quick else 600):
        g = gen.Gen(ctx.rng, with_map=False, with_effects=False, max_ds=2)
        exprs = [g.option() for _ in range(3)]
        pool = g.dict_pool()
        corr.append(dict(ftable=dict(g.ftable), env=dict(g.env), exprs=exprs,
                         ops=[(m, j, False, False, o) for o in pool[:4] for j in range(3) for m in ("evaluate", "validate", "keys", "explain")]))
    impls, models, mism, cstats = cp.correspondence(ctx, corr, "Cases_C04", shard=12)
    got = ctx.coq_eval("Cases_C04_set", cp.REQ + ["Model.Show"], "", [c[0] for c in set_cases], shard=200)
    for (expr, want), g_ in zip(set_cases, got):
        if g_ != want and g_ != "typeerror":
            mism.append(dict(where="Base.set_dotted/mix vs Option.set", coq=expr[:300], impl=want, model=g_))
    tagged = {}
    for v in violations:
        if v.get("finding"):
            tagged[v["finding"]] = tagged.get(v["finding"], 0) + 1
    return {
        "evaluations": n_opt + n_ns + n_set + cstats["ops"],
        "distinct_nontrivial": n_opt,
        "rule": "every key of a nested universe (section, prefixes of one another, list indices) x every falsy/truthy/templated value stored "
                "under it (plus absent, scalar-parent and empty-section dictionaries) x 7 default forms (none, constant, falsy constant, template, "
                "factory, chained Option, dataset) x 4 domain forms (none, container, predicate, evaluatable) - complete in the thorough tier, "
                "every other default/domain combination in quick; 10 namespace members (nested, renamed, auto, typed) x 9 dictionaries x 4 methods; "
                "Option.set for 5 keys x 7 dictionaries x 8 values. Each (key, default, domain, dictionary) combination is distinct and non-trivial.",
        "samples": [dict(expr=repr(("option", KEYS[2], DEFAULTS[3][1], DOMAINS[1][1])), options=repr(place(KEYS[2], 0, {B: 5})), expected="0 (falsy present value wins)")],
        "traces_validated_against_impl": cstats["ops"] + len(set_cases),
        "correspondence_mismatches": mism[:5],
        "violations": violations,
        "known": known_witnesses(),
        "distribution": dict(cstats, expected_outcomes=stats, namespace_checks=n_ns, set_checks=n_set, tagged=tagged),
        "exhaustive": not ctx.quick,
        "assumptions": ["the oracle's lookup/resolver is an independent transcription of the property text (dotted lookup, transitive templating)"],
        "trusted_base": ["confectioner get_dotted_key/resolve/set_dotted_key/mix are modelled and validated by this correspondence run"],
    }


def replay(ctx, payload):
    viol = []
    if "scenario_repr" in payload and "position" in payload:      # a long-lived Option object vs fresh ones
        scn = cp.load_scn(payload["scenario_repr"])
        lines = core.run_impl(scn)
        diffs = []
        for j, (op, line) in enumerate(zip(scn["ops"], lines)):
            one = core.run_impl(dict(scn, ops=[op]))[0]
            if cp.split(one)[0] != cp.split(line)[0]:
                diffs.append(dict(position=j, long_lived=cp.split(line)[0], fresh=cp.split(one)[0], options=repr(op[4])))
        return bool(diffs), dict(differences=diffs[:3])
    if "scenario_repr" in payload and "expr" in payload:
        scn = cp.load_scn(payload["scenario_repr"])
        e = scn["exprs"][0]
        check_option(dict(ftable=scn["ftable"], env=scn["env"]), e[1], e[2], e[3], scn["ops"][0][4], viol, {})
        return bool([v for v in viol if not v.get("finding")]) or bool(viol and payload.get("finding")), dict(violations=viol)
    if "namespace_case" in payload:
        namespace_checks(viol)
        return any(v.get("namespace_case") == payload["namespace_case"] for v in viol), dict(violations=viol[:3])
    if "key" in payload:
        set_checks(ctx, viol)
        hit = [v for v in viol if v.get("key") == payload["key"] and v.get("options") == payload["options"] and v.get("value") == payload["value"]]
        return bool(hit), dict(violations=hit[:2])
    if "scenario_repr" in payload:
        scn = cp.load_scn(payload["scenario_repr"])
        il = core.run_impl(scn)
        ml = ctx.coq_eval("Replay_C04", cp.REQ, "", [core.coq_scenario(scn)])[0].split(" ## ")
        return not cp.agrees(il, ml, scn), dict(impl=il, model=[cp.strip_ghost(x) for x in ml])
    return True, dict(note="unrecognised payload")
