"""C04 - Option resolution: present key wins (even falsy), else default, else error; domains;
namespaces; Option.set."""
import copy
import itertools
import json
import os
import pickle
import random
import re
import subprocess
import sys
import tempfile
import threading

import coreprop as cp
import core
import gen
import lib
from core import S, lit
from gen import K
from witnesses import corpus_for

PID = "C04"
COQ_TARGETS = cp.COQ_TARGETS

A, B, SEC, SX, SY, LST, ALLOWED = 10, 11, 20, 21, 22, 30, 13
KEYS = [K(A), K(SEC), K(SEC, SX), K(SEC, SX, SY), K(LST, "i0"), K(LST, "i1")]
FALSY = [None, 0, False, lit(""), [], {}]
TRUTHY = [1, lit("t"), [1], {SY: 1}]
TEMPL = [S(("ref", K(B))), S(("lit", "a"), ("ref", K(B)))]
# templated strings inside container values: evaluate resolves them too (keys()/explain() do not see
# them: finding D1, which concerns C01/C03/C09, not the value an Option yields)
TEMPLC = [[S(("ref", K(B))), 1], {SY: S(("lit", "a"), ("ref", K(B)))}, [[S(("ref", K(B)))]]]


def place(key, v, extra):
    """a dictionary in which `key` holds v (plus `extra` top-level entries)"""
    o = dict(extra)
    segs = list(key)
    if segs[0] == ("n", LST):
        idx = segs[1][1]
        o[LST] = [7] * idx + [v]
        return o
    cur = o
    for s in segs[:-1]:
        cur[s[1]] = {}
        cur = cur[s[1]]
    cur[segs[-1][1]] = v
    return o


# --- independent reference (the property text, not labrea / confectioner code) ---

class Missing(Exception):
    pass


class ScalarParent(Exception):
    pass


def ref_get(text, o):
    cur = o
    for part in text.split("."):
        if isinstance(cur, dict):
            if part.isdigit() or part not in cur:
                raise Missing(text)
            cur = cur[part]
        elif isinstance(cur, list):
            if not part.isdigit() or int(part) >= len(cur):
                raise Missing(text)
            cur = cur[int(part)]
        else:
            raise ScalarParent(text)
    return cur


REF = re.compile(r"(?<!\\)\{([^{}\\]*)\}")


def ref_resolve(v, o, depth=0):
    if depth > 20:
        raise RecursionError
    if isinstance(v, str):
        m = REF.fullmatch(v)
        if m:
            return ref_resolve(ref_get(m.group(1), o), o, depth + 1)
        ks = REF.findall(v)
        if ks:
            for k in dict.fromkeys(ks):
                v = v.replace("{" + k + "}", str(ref_get(k, o)))
            return ref_resolve(v, o, depth + 1)
        return v.replace("\\{", "{").replace("\\}", "}")
    if isinstance(v, list):
        return [ref_resolve(x, o, depth) for x in v]
    if isinstance(v, dict):
        return {k: ref_resolve(x, o, depth) for k, x in v.items()}
    return v


DEFAULTS = [
    ("none", None),
    ("constant", ("value", ("j", 7))),
    ("constant-falsy", ("value", ("j", None))),
    ("template", ("template", (("lit", "d"), ("ref", K(B))), [])),
    ("factory", ("call", 100, [])),
    ("chained", ("option", K(B), ("value", ("j", 8)), None)),
    ("dataset", ("dataset", 1)),
]
DOMAINS = [
    ("none", None),
    ("container", ("value", ("j", [0, 1, None, False, lit(""), lit("t"), 7, 8]))),
    ("predicate", ("fnvalue", 101)),
    ("evaluatable", ("option", K(ALLOWED), None, None)),
    # an evaluatable domain with a default of its own: explain() lists nothing for it, yet it depends on the options
    ("evaluatable-default", ("option", K(ALLOWED), ("value", ("j", [0, 1, None, 7, 8, lit("t")])), None)),
]
FT = {100: ("const", ("j", 7)), 101: ("in", [("j", v) for v in (0, 1, None, lit(""), lit("t"), 7, 8)]), 102: ("tag",)}
ENV = {1: dict(fid=102, kwargs=[("option", K(B), ("value", ("j", 3)), None)])}


def expected(world_scn, key, dflt, dom, o):
    """outcome the property demands, as ('ok', python value) | ('missing', key text) | ('domain',)
    | ('other',) (the default's own failure) ; raises ScalarParent in the D6 zone"""
    po = core.py_json(o)
    try:
        raw = ref_get(core.key_text(key), po)
        try:
            val = ref_resolve(raw, po)
        except Missing as m:
            return ("missing", m.args[0])
    except Missing:
        if dflt is None:
            return ("missing", core.key_text(key))
        one = dict(world_scn, exprs=[dflt], ops=[("evaluate", 0, True, False, o)])
        raws = []
        line = core.run_impl(one, raw_out=raws)[0]
        if not line.startswith("ok:"):
            return ("default-fails", line)
        val = raws[0]
    if dom is not None:
        one = dict(world_scn, exprs=[dom], ops=[("evaluate", 0, True, False, o)])
        raws = []
        line = core.run_impl(one, raw_out=raws)[0]
        if not line.startswith("ok:"):
            return ("domain-expr-fails", line)
        d = raws[0]
        ok = d(val) if callable(d) else (val in d)
        if not ok:
            return ("domain",)
    return ("ok", val)


# --- observing one object directly (clones, alternative spellings, live dictionaries) ---

METHODS = ("evaluate", "validate", "keys", "explain")


def call_res(obj, m, po):
    """the result part of an observation line (same vocabulary as core.run_impl) of obj.<m>(po); po is a PYTHON dictionary and is
    handed over as is (the very same object when the caller keeps it alive between calls)"""
    try:
        if m == "evaluate":
            r = "ok:" + core.show(core.force(obj.evaluate(po)))
        elif m == "validate":
            obj.validate(po)
            r = "ok:()"
        elif m == "keys":
            r = "ok:" + core.show_keys(obj.keys(po))
        else:
            r = "ok:" + core.show_keys(obj.explain(po))
    except RecursionError:
        r = "err:fuel:F"
    except Exception as exc:  # noqa
        c, ee = core.classify(exc)
        r = f"err:{c}:{'T' if ee else 'F'}"
    return core.canon_names(r)


def method_res(obj, m, o):
    return call_res(obj, m, core.py_json(o))


def build_one(base, e):
    w = core.World(base["ftable"])
    b = core.Builder(w, base["env"])
    return b.build(e), b


# module-level (hence picklable by reference) user functions equivalent to the World closures 100 / 101 of FT
def pk_factory():
    return 7


def pk_pred(v):
    return any(core._eq(v, x) for x in (0, 1, None, "", "t", 7, 8))


def twin_option(base, key, dn, dflt, domn, dom):
    """the same Option spelled through the other public keywords: default_factory=<function> instead of a default that is a function
    application, a bare callable as the domain instead of a wrapped one; every user function is a module-level one, so that the object
    can be pickled.  None when the combination has no such spelling."""
    from labrea import Option
    if dn == "dataset" or (dn != "factory" and domn != "predicate"):
        return None
    _, b = build_one(base, ("value", ("j", 0)))
    kw = {}
    if dn == "factory":
        kw["default_factory"] = pk_factory
    elif dflt is not None:
        kw["default"] = b.build(dflt)
    if domn == "predicate":
        kw["domain"] = pk_pred
    elif dom is not None:
        kw["domain"] = b.build(dom)
    return Option(core.key_text(key), **kw)


def _via_pickle(proto):
    return lambda x: pickle.loads(pickle.dumps(x, proto))


CLONERS = [("copy.copy", copy.copy), ("copy.deepcopy", copy.deepcopy),
           ("pickle protocol 0", _via_pickle(0)), ("pickle protocol 2", _via_pickle(2)), ("pickle highest protocol", _via_pickle(pickle.HIGHEST_PROTOCOL)),
           ("copy.deepcopy of an unpickled copy", lambda x: copy.deepcopy(_via_pickle(pickle.HIGHEST_PROTOCOL)(x))),
           ("unpickled twice", lambda x: _via_pickle(pickle.HIGHEST_PROTOCOL)(_via_pickle(2)(x)))]


def clones_of(obj, stats=None):
    """(how, clone) for every way of copying an object that works on it (a harness closure inside cannot be pickled: skipped, counted)"""
    out = []
    for how, f in CLONERS:
        try:
            out.append((how, f(obj)))
        except Exception:  # noqa
            if stats is not None:
                stats["not-clonable:" + how.split(" ")[0]] = stats.get("not-clonable:" + how.split(" ")[0], 0) + 1
    return out


def clone_by_name(obj, how):
    return dict(CLONERS)[how](obj)


def sync_inplace(live, target):
    """make the dictionary OBJECT `live` equal to `target` by in-place updates (sections and lists that exist on both sides keep their
    identity): what a caller does who owns one options dictionary and edits it between two calls"""
    for k in list(live):
        if k not in target:
            del live[k]
    for k, v in target.items():
        cur = live.get(k, sync_inplace)
        if type(v) is dict and type(cur) is dict:
            sync_inplace(cur, v)
        elif type(v) is list and type(cur) is list:
            cur[:] = copy.deepcopy(v)
        else:
            live[k] = copy.deepcopy(v)


def equality_groups(pdicts):
    """indices grouped by Python equality of the dictionaries ({'A': 0} == {'A': False}, {'A': 1} == {'A': True}): members of a group
    are different dictionaries that a comparison by == cannot tell apart"""
    groups = []
    for i, d in enumerate(pdicts):
        for g in groups:
            if pdicts[g[0]] == d:
                g.append(i)
                break
        else:
            groups.append([i])
    return groups


def check_option(scn_base, key, dflt, dom, o, violations, stats):
    e = ("option", key, dflt, dom)
    scn = dict(scn_base, exprs=[e], ops=[("evaluate", 0, True, False, o)])
    raws = []
    w_objs = core.run_impl(scn, want_objects=True, raw_out=raws)
    line = w_objs[0][0]
    res = cp.split(line)[0]
    zone = None
    try:
        exp = expected(scn_base, key, dflt, dom, o)
    except ScalarParent:
        exp, zone = ("scalar-parent",), "D6"
    stats[exp[0]] = stats.get(exp[0], 0) + 1
    bad = None
    if exp[0] == "ok":
        if not res.startswith("ok:") or not (raws[0] == exp[1] and type(raws[0]) == type(exp[1])):
            bad = f"expected the value {exp[1]!r}"
    elif exp[0] == "missing":
        want = core.canon_names(f"err:key({core.key_text(core.parse_key(exp[1]))}):T")
        if res != want:
            bad = f"expected a missing-key error naming {exp[1]}"
    elif exp[0] == "domain":
        if not res.startswith("err:domain"):
            bad = "expected a domain failure (a value outside the domain must not be returned)"
    elif exp[0] in ("default-fails", "domain-expr-fails"):
        if not res.startswith("err:"):
            bad = "expected a failure (the default / domain expression fails under these options)"
    elif exp[0] == "scalar-parent":
        # the key is not present: the property demands default-or-missing-key; labrea raises TypeError
        want_ok = dflt is not None
        if (want_ok and not res.startswith("ok:")) or (not want_ok and not res.startswith("err:key(")):
            bad = "key under a scalar parent is absent: expected the default / a missing-key error"
    if bad:
        violations.append(dict(desc=f"Option.evaluate: {bad}", got=res, expr=repr(e), options=repr(o), finding=zone,
                               scenario_repr=cp.dump_scn(scn)))
    return scn, res


def live_history(base, e, dicts, fresh, rng, violations, counters, quick=False):
    """ONE long-lived Option object, ONE long-lived options dictionary object edited in place between the calls, every method; the
    dictionaries that compare equal although they differ ({K: 0} / {K: False}, {K: 1} / {K: True}) come next to one another (A, A', A).
    Each answer must be the one a fresh object gives under a fresh dictionary."""
    pd = [core.py_json(o) for o in dicts]
    groups = equality_groups(pd)
    rng.shuffle(groups)
    order = []
    for g in groups:
        order += g
        if len(g) > 1:
            order.append(g[0])
    obj, _ = build_one(base, e)
    live, fresh_m = {}, {}
    in_group = {i for g in groups if len(g) > 1 for i in g}
    for pos, i in enumerate(order):
        sync_inplace(live, pd[i])
        # quick tier: evaluate at every step, the other methods at the steps inside a group of equal dictionaries and at a random third
        methods = METHODS if (not quick or i in in_group or rng.random() < 0.34) else METHODS[:1]
        for m in methods:
            if (i, m) not in fresh_m:
                fresh_m[(i, m)] = fresh[i] if m == "evaluate" else method_res(build_one(base, e)[0], m, dicts[i])
            got = call_res(obj, m, live)
            counters["live-dictionary calls"] = counters.get("live-dictionary calls", 0) + 1
            if got != fresh_m[(i, m)]:
                hist = dict(base, exprs=[e], ops=[(mm, 0, False, False, dicts[j]) for j in order[:pos + 1] for mm in METHODS])
                hist["ops"] = hist["ops"][:len(hist["ops"]) - 4 + METHODS.index(m) + 1]
                violations.append(dict(desc=f"Option.{m}: one long-lived Option object called with one options dictionary object that its owner "
                                            "edits in place between the calls (equal-but-different dictionaries in a row) answers differently "
                                            "from a fresh Option under a fresh dictionary", position=pos, method=m, got=got, fresh=fresh_m[(i, m)],
                                       expr=repr(e), options=repr(dicts[i]), previous=repr(dicts[order[pos - 1]]) if pos else None,
                                       finding=None, live_scenario=cp.dump_scn(hist)))
                return


def live_replay(scn):
    e = scn["exprs"][0]
    base = dict(ftable=scn["ftable"], env=scn["env"])
    obj, _ = build_one(base, e)
    live, diffs = {}, []
    for j, op in enumerate(scn["ops"]):
        sync_inplace(live, core.py_json(op[4]))
        got = call_res(obj, op[0], live)
        want = method_res(build_one(base, e)[0], op[0], op[4])
        if got != want:
            diffs.append(dict(position=j, method=op[0], long_lived=got, fresh=want, options=repr(op[4])))
    return diffs


def subjects_of(base, key, dn, dflt, domn, dom, e):
    out = [("as built", build_one(base, e)[0])]
    tw = twin_option(base, key, dn, dflt, domn, dom)
    if tw is not None:
        out.append(("spelled with default_factory= / a bare callable domain (picklable user functions)", tw))
    return out


def clone_checks(base, key, dn, dflt, domn, dom, e, dicts, fresh, sample, violations, counters):
    """an Option that went through copy.copy / copy.deepcopy / pickle (every protocol; before and after it was used) must resolve
    exactly like the original, i.e. like a fresh Option, under every dictionary: evaluate against the oracle-checked answers, the other
    methods against the original object"""
    for label, obj in subjects_of(base, key, dn, dflt, domn, dom, e):
        cl = ([("not copied", obj)] if label != "as built" else []) + clones_of(obj, counters)
        own = {(m, i): method_res(obj, m, dicts[i]) for i in sample for m in METHODS[1:]}      # (this also uses the original)
        cl += [(how + ", taken after the Option was used", c) for how, c in clones_of(obj)[-(1 if len(sample) < len(dicts) else 3):]]
        for how, c in cl:
            bad = None
            for i in sample:
                counters["clone calls"] = counters.get("clone calls", 0) + 4
                got = method_res(c, "evaluate", dicts[i])
                if got != fresh[i]:
                    bad = ("evaluate", i, got, fresh[i])
                    break
                for m in METHODS[1:]:
                    a, b_ = method_res(c, m, dicts[i]), own[(m, i)]
                    if a != b_:
                        bad = (m, i, a, b_)
                        break
                if bad:
                    break
            if bad:
                m, i, got, want = bad
                violations.append(dict(desc=f"Option.{m}: an Option that went through [{how}] does not resolve like the original", subject=label,
                                       clone=how, method=m, got=got, original=want, expr=repr(e), options=repr(dicts[i]), finding=None,
                                       clone_case=[dn, domn], scenario_repr=cp.dump_scn(dict(base, exprs=[e], ops=[(m, 0, False, False, dicts[i])]))))
                break          # one report per subject


def clone_replay(payload):
    scn = cp.load_scn(payload["scenario_repr"])
    e, op = scn["exprs"][0], scn["ops"][0]
    base = dict(ftable=scn["ftable"], env=scn["env"])
    dn, domn = payload["clone_case"]
    dflt, dom = dict(DEFAULTS)[dn], dict(DOMAINS)[domn]
    how = payload["clone"].split(", taken after")[0]
    diffs = []
    for label, obj in subjects_of(base, e[1], dn, dflt, domn, dom, e):
        if label != payload["subject"]:
            continue
        if "taken after" in payload["clone"]:
            method_res(obj, "evaluate", op[4])
        c = obj if how == "not copied" else clone_by_name(obj, how)
        for m in METHODS:
            got = method_res(c, m, op[4])
            want = method_res(build_one(base, e)[0], m, op[4])
            if got != want:
                diffs.append(dict(method=m, clone=got, fresh_original=want))
    return diffs


def exhaustive_options(ctx):
    """key universe x values x default forms x domain forms"""
    rng = ctx.rng
    violations, stats, corr = [], {}, []
    base = dict(ftable=FT, env=ENV)
    n = 0
    counters = stats.setdefault("extended", {})
    vals = FALSY + TRUTHY + TEMPL + TEMPLC
    combos = list(itertools.product(KEYS, DEFAULTS, DOMAINS))
    if ctx.quick:
        combos = [c for i, c in enumerate(combos) if i % 2 == 0 or c[1][0] in ("none", "constant")]
    for key, (dn, dflt), (domn, dom) in combos:
        dicts = []
        for v in vals:
            for extra in ({}, {B: 5}):
                ex = dict(extra)
                if domn == "evaluatable" or (domn == "evaluatable-default" and len(dicts) % 3 == 0):
                    ex[ALLOWED] = [0, 1, None, 7, 8, lit("t")] if len(dicts) % 2 == 0 else [1, 8]
                dicts.append(place(key, v, ex))
        dicts.append({})
        dicts.append({B: 5, ALLOWED: [7, 8, 3]})
        if len(key) > 1 and key[0] != ("n", LST):
            dicts.append({key[0][1]: 5})                       # scalar parent (finding D6 zone)
            dicts.append({key[0][1]: {}})
        fresh = []
        for o in dicts:
            n += 1
            fresh.append(check_option(base, key, dflt, dom, o, violations, stats)[1])
        e = ("option", key, dflt, dom)
        # ONE long-lived Option object evaluated under all these dictionaries in (shuffled) sequence must answer
        # each time as a fresh object does (no state may be kept on the object between evaluations)
        order = list(range(len(dicts)))
        rng.shuffle(order)
        hist = dict(base, exprs=[e], ops=[("evaluate", 0, True, False, dicts[i]) for i in order])
        for pos, (i, line) in enumerate(zip(order, core.run_impl(hist))):
            n += 1
            if cp.split(line)[0] != fresh[i]:
                violations.append(dict(desc="Option.evaluate: one long-lived Option object answers differently from a fresh one after "
                                            "having been evaluated under other dictionaries", position=pos, got=cp.split(line)[0],
                                       fresh=fresh[i], expr=repr(e), options=repr(dicts[i]), finding=None,
                                       scenario_repr=cp.dump_scn(dict(hist, ops=hist["ops"][:pos + 1]))))
                break
        live_history(base, e, dicts, fresh, rng, violations, counters, ctx.quick)
        idx = list(range(len(dicts)))
        clone_checks(base, key, dn, dflt, domn, dom, e, dicts, fresh, idx if not ctx.quick else sorted(rng.sample(idx, min(3, len(idx)))),
                     violations, counters)
        sample = dicts if not ctx.quick else rng.sample(dicts, min(10, len(dicts)))
        ops = [(m, 0, False, False, o) for o in sample for m in ("evaluate", "validate", "keys", "explain")]
        corr.append(dict(base, exprs=[e], ops=ops, c04_variant=True))
    return violations, stats, corr, n


def variant_correspondence(scns, models, mism):
    """the model has neither object identity nor dictionary identity: a copied / unpickled Option called with one dictionary object that
    is edited in place between the calls is the SAME history of (method, dictionary value) for it.  The implementation run that way is
    compared with the model's lines of the plain history."""
    n = 0
    for scn, ml in zip(scns, models):
        if not scn.get("c04_variant") or len(ml) != len(scn["ops"]):
            continue
        obj, _ = build_one(scn, scn["exprs"][0])
        cl = clones_of(obj)
        how, c = cl[-1] if cl else ("not copied", obj)
        live, lines = {}, []
        for (m, _i, _cc, _lc, o), b in zip(scn["ops"], ml):
            sync_inplace(live, core.py_json(o))
            lines.append(call_res(c, m, live) + "|" + " ".join(cp.split(cp.strip_ghost(b))[1]))      # results compared, events taken over
            n += 1
        if not cp.agrees(lines, ml, scn):
            j = next(k for k in range(len(lines)) if not cp.agrees(lines[:k + 1], ml[:k + 1], scn))
            mism.append(dict(where=f"Model/Eval.v vs labrea: Option after [{how}] called with one dictionary object edited in place",
                             op_index=j, op=repr(scn["ops"][j]), impl=cp.split(lines[j])[0], model=cp.split(cp.strip_ghost(ml[j]))[0],
                             scenario_repr=cp.dump_scn(scn)))
    return n


def namespace_checks(violations):
    """options grouped in a namespace behave exactly like the fully-qualified Options"""
    from labrea import Option
    n = 0
    cases = []

    def mk():
        @Option.namespace
        class NS:
            A = Option("A", default=1, domain=[1, 2, 3])
            B: int
            C = 5
            D = Option("D", default="{NS.C}-x")
            E = Option.auto(default=2, domain=[2, 4]) >> (lambda v: ("t", v))
            F = Option("F")
            R: int = 0
            V: bool = False
            P: str = ""
            N0: object = None
            TG: list = []
            # templated string defaults through every spelling a namespace offers
            T1 = Option.auto("{NS.C}-y")
            T2 = Option.auto(default="{NS.B}/z", doc="templated") >> str.upper
            T3 = "{NS.A}.{NS.C}"
            T4: str = "\\{{NS.C}\\}"
            T5 = Option.auto("{NS.C}", domain=["5", 5, 6])

            class SUB:
                G = Option("G", default=1, domain=[1, 2])
                H: str
                I = "lit"
                K = Option.auto("{NS.SUB.I}!{NS.C}")

            @Option.namespace("RENAMED")
            class Other:
                J = 10
                L = Option.auto(default="{NS.RENAMED.J}0", domain=["100", "00"])
        return NS
    NS = mk()
    pairs = [
        (NS.A, Option("NS.A", default=1, domain=[1, 2, 3]), "NS.A"),
        (NS.B, Option("NS.B"), "NS.B"),
        (NS.C, Option("NS.C", default=5), "NS.C"),
        (NS.D, Option("NS.D", default="{NS.C}-x"), "NS.D"),
        (NS.E, Option("NS.E", default=2, domain=[2, 4]) >> (lambda v: ("t", v)), "NS.E"),
        (NS.F, Option("NS.F"), "NS.F"),
        (NS.R, Option("NS.R", default=0), "NS.R"),
        (NS.V, Option("NS.V", default=False), "NS.V"),
        (NS.P, Option("NS.P", default=""), "NS.P"),
        (NS.N0, Option("NS.N0", default=None), "NS.N0"),
        (NS.TG, Option("NS.TG", default=[]), "NS.TG"),
        (NS.SUB.G, Option("NS.SUB.G", default=1, domain=[1, 2]), "NS.SUB.G"),
        (NS.SUB.H, Option("NS.SUB.H"), "NS.SUB.H"),
        (NS.SUB.I, Option("NS.SUB.I", default="lit"), "NS.SUB.I"),
        (NS.Other.J, Option("NS.RENAMED.J", default=10), "NS.RENAMED.J"),
        (NS.T1, Option("NS.T1", default="{NS.C}-y"), "NS.T1"),
        (NS.T2, Option("NS.T2", default="{NS.B}/z") >> str.upper, "NS.T2"),
        (NS.T3, Option("NS.T3", default="{NS.A}.{NS.C}"), "NS.T3"),
        (NS.T4, Option("NS.T4", default="\\{{NS.C}\\}"), "NS.T4"),
        (NS.T5, Option("NS.T5", default="{NS.C}", domain=["5", 5, 6]), "NS.T5"),
        (NS.SUB.K, Option("NS.SUB.K", default="{NS.SUB.I}!{NS.C}"), "NS.SUB.K"),
        (NS.Other.L, Option("NS.RENAMED.L", default="{NS.RENAMED.J}0", domain=["100", "00"]), "NS.RENAMED.L"),
        (NS["T1"], Option("NS.T1", default="{NS.C}-y"), "NS.T1 (item access)"),
    ]
    dicts = [{}, {"NS": {}}, {"NS": {"A": 2, "B": 0, "C": None, "D": "", "E": 4, "F": False}},
             {"NS": {"A": 7, "E": 3, "SUB": {"G": 9}}}, {"NS": {"SUB": {"G": 2, "H": "h", "I": 0}, "RENAMED": {"J": 0}}},
             {"NS": {"C": 6, "D": "{NS.A}"}}, {"NS": {"F": "{NS.MISSING}"}}, {"NS": 5}, {"NS": {"SUB": 3}},
             {"NS": {"B": "b", "C": "{NS.B}", "T1": "{NS.A}", "SUB": {"I": 0}, "RENAMED": {"J": 1}}},
             {"NS": {"T2": 0, "T3": "", "T4": None, "T5": 7, "SUB": {"K": False}, "RENAMED": {"L": "00"}}}]

    def obs(x, m, o):
        try:
            r = getattr(x, m)(copy.deepcopy(o))
            return ("ok", r)
        except Exception as e:  # noqa
            c, ee = core.classify(e) if True else ("?", False)
            return ("err", c.split("(")[0] if not c.startswith("key") else c, ee)
    for member, ref, name in pairs:
        # the member as handed out, and the member after copy.copy / copy.deepcopy / pickle (where it can be copied at all)
        for how, mem in [("", member)] + [(" after " + h, c) for h, c in clones_of(member)]:
            for o in dicts:
                for m in ("evaluate", "validate", "keys", "explain"):
                    n += 1
                    a, b = obs(mem, m, o), obs(ref, m, o)
                    if a != b:
                        violations.append(dict(desc=f"namespace member {name}{how} differs from the fully-qualified Option on {m}",
                                               options=repr(o), member=repr(a), qualified=repr(b), finding=None, namespace_case=name))
    return n


# --- user callables of every KIND where the library expects "a callable" (default_factory=, domain=) ---

class _Maker:
    def __init__(self, value):
        self.value = value

    def __call__(self, extra=5):
        return (self.value, extra)

    def make(self):
        return [self.value]

    @classmethod
    def of_class(cls):
        return cls.__name__

    @staticmethod
    def static():
        return "sm"


def _variadic(*parts):
    return list(parts)


def _kwonly(**kw):
    return kw


class _Pred:
    def __init__(self, ok):
        self.ok = ok

    def __call__(self, v, strict=False):
        return any(type(v) is type(x) and v == x for x in self.ok)

    def test(self, v):
        return self(v)


class _Accept:
    """a class used as a predicate: the object it constructs is truthy for the admitted values only"""
    def __init__(self, v):
        self.v = v

    def __bool__(self):
        return type(self.v) is int and self.v in (1, 7)


class _OnlyContains:
    """a container that is nothing but a container (no iteration, no length)"""
    def __contains__(self, v):
        return type(v) is int and v in (1, 7)


def _pred_var(*vs):
    return type(vs[0]) is int and vs[0] in (1, 7)


def factory_kinds():
    """(label, a fresh zero-argument callable).  What such a default is worth is what calling it with no arguments returns - nothing else
    about the callable (its class, its signature, the defaults of parameters it may also have) matters."""
    import collections
    import functools
    import types
    cached = functools.lru_cache(None)(lambda: (1, 2))
    return [
        ("builtin class list", list), ("builtin class tuple", tuple), ("builtin class dict", dict), ("builtin class set", set),
        ("builtin class frozenset", frozenset), ("builtin class str", str), ("builtin class int", int), ("builtin class bool", bool),
        ("builtin class float", float), ("builtin class bytes", bytes),
        ("collections.OrderedDict", collections.OrderedDict), ("collections.Counter", collections.Counter),
        ("collections.defaultdict", collections.defaultdict), ("collections.deque", collections.deque),
        ("types.SimpleNamespace", types.SimpleNamespace),
        ("functools.partial(dict, a=1)", functools.partial(dict, a=1)), ("functools.partial(list, (1, 2))", functools.partial(list, (1, 2))),
        ("functools.partial of a partial", functools.partial(functools.partial(max, 1), 2)), ("functools.partial(int, '12')", functools.partial(int, "12")),
        ("lambda with a positional-only default", lambda x=0, /: x), ("lambda with a keyword-only default", lambda *, k=3: k),
        ("lambda with defaulted, *args, keyword-only and **kwargs parameters", lambda x=1, *a, k=2, **kw: (x, a, k, kw)),
        ("lambda with a falsy default", lambda x=None: x), ("lambda whose default is a list", lambda x=[]: x),
        ("def f(*parts)", _variadic), ("def f(**kw)", _kwonly),
        ("bound method", _Maker(7).make), ("bound classmethod", _Maker.of_class), ("staticmethod", _Maker.static),
        ("callable instance (its __call__ has a defaulted parameter)", _Maker(0)), ("functools.lru_cache wrapper", cached),
        ("builtin bound method 'abc'.upper", "abc".upper), ("builtin bound method [3, 1].copy", [3, 1].copy),
        ("plain lambda", lambda: None), ("plain function", pk_factory),
    ]


def domain_kinds():
    """(label, a domain, examples of values it admits - documentation only, the oracle applies the domain itself): predicates and containers of every kind"""
    import collections
    import functools
    import operator
    ok = (0, 1, None, "", "t", 7)
    in17 = [1, 7]
    truthy = [1, 5, "t", 7, [0]]
    return [
        ("class bool as the predicate", bool, truthy), ("operator.truth", operator.truth, truthy),
        ("operator.not_", operator.not_, [0, "", None, False, []]),
        ("callable instance (extra defaulted parameter)", _Pred(ok), list(ok)), ("bound method", _Pred(ok).test, list(ok)),
        ("functools.partial with a keyword", functools.partial(_Pred(ok), strict=True), list(ok)),
        ("functools.partial(operator.contains, tuple)", functools.partial(operator.contains, (1, 7)), in17 + [True]),
        ("builtin method-wrapper list.__contains__", [1, 7].__contains__, in17 + [True]),
        ("builtin bound method frozenset.__contains__", frozenset((1, 7)).__contains__, in17 + [True]),
        ("lambda with a positional-only parameter and a default", lambda v, /, lo=0: type(v) is int and v in (1, 7), in17),
        ("lambda with a keyword-only default", lambda v, *, lo=0: type(v) is int and v in (1, 7), in17),
        ("def p(*vs)", _pred_var, in17), ("a class whose instances are truthy for admitted values", _Accept, in17),
        ("functools.lru_cache wrapper", functools.lru_cache(None)(lambda v: v in (1, 7)), in17 + [True]),
        ("container: range", range(0, 8), [0, 1, 5, 7, False, True]), ("container: dict", {1: 0, 7: 0}, in17 + [True]),
        ("container: dict keys view", {1: 0, 7: 0}.keys(), in17 + [True]), ("container: deque", collections.deque([1, 7]), in17 + [True]),
        ("container: tuple", (1, 7, None), in17 + [True, None]), ("container: frozenset", frozenset((1, 7)), in17 + [True]),
        ("container: a user class with __contains__ only", _OnlyContains(), in17),
    ]


PROBE = [0, 1, 5, 7, "t", "", None, False, True, [], [0]]


def _strict_eq(a, b):
    return type(a) is type(b) and core._eq(a, b)


def callable_kinds_checks(violations):
    """default_factory= and domain= given as callables (containers) of other KINDS than a plain function (a plain list)"""
    from labrea import Option
    from labrea.exceptions import KeyNotFoundError
    n = 0
    keys = ["A", "S.X", "L.1"]
    absent = {"A": [{}, {"B": 1}], "S.X": [{}, {"S": {}}, {"S": {"Y": 1}, "X": 5}], "L.1": [{}, {"L": []}, {"L": [3]}]}
    present = {"A": lambda v: {"A": v}, "S.X": lambda v: {"S": {"X": v, "Y": 2}}, "L.1": lambda v: {"L": [9, v]}}

    def report(case, what, **kw):
        violations.append(dict(desc=f"Option with {case}: {what}", callable_case=case, finding=None, **kw))

    for label, _f in factory_kinds():
        case = f"default_factory = {label}"
        for key in keys:
            bad = None
            try:
                f = dict(factory_kinds())[label]
                opt = Option(key, default_factory=f)
                for o in absent[key]:
                    for rnd in range(2):                             # twice: the second value must not depend on what became of the first
                        n += 1
                        want = copy.deepcopy(f())                    # the oracle: the callable called with no arguments, now
                        got = opt.evaluate(copy.deepcopy(o))
                        if not _strict_eq(got, want):
                            bad = dict(options=repr(o), got=repr(got), expected=repr(want), what="the key is absent: expected the value the factory returns when called with no arguments")
                            break
                        if isinstance(got, list):
                            got.append("changed by the caller")
                        elif isinstance(got, dict):
                            got["changed by the caller"] = 1
                    if bad:
                        break
                    opt.validate(copy.deepcopy(o))
                for v in FALSY_PY + [3, "t"]:
                    if bad:
                        break
                    n += 1
                    o = present[key](v)
                    got = opt.evaluate(copy.deepcopy(o))
                    if not _strict_eq(got, v):
                        bad = dict(options=repr(o), got=repr(got), expected=repr(v), what="the key is present: expected the stored value")
                if not bad:
                    n += 1
                    try:
                        Option(key).evaluate(copy.deepcopy(absent[key][-1]))
                        bad = dict(options=repr(absent[key][-1]), what="no default: expected a missing-key error")
                    except KeyNotFoundError as e:
                        if e.key != key:
                            bad = dict(options=repr(absent[key][-1]), what=f"no default: the missing-key error names {e.key!r}")
            except Exception as e:  # noqa
                bad = dict(what=f"raised {type(e).__name__} ({type(e.__cause__).__name__ if e.__cause__ else 'no cause'}): {str(e)[:160]}")
            if bad:
                report(case, bad.pop("what"), key=key, **bad)
                break

    for label, _d, _adm in domain_kinds():
        case = f"domain = {label}"
        for key in keys:
            bad = None
            try:
                dom = next(d for l, d, _a in domain_kinds() if l == label)
                ref = next(d for l, d, _a in domain_kinds() if l == label)      # a second object of the same kind, for the oracle's own test

                def inside(v):
                    # what "inside the domain" means: the predicate holds of the value / the container contains it (None: the test itself fails)
                    try:
                        return bool(ref(v)) if callable(ref) else (v in ref)
                    except Exception:  # noqa
                        return None
                for dflt in (7, 5):
                    opt = Option(key, default=dflt, domain=dom)
                    cases = [(present[key](v), v) for v in PROBE] + [(o, dflt) for o in absent[key][:2]]
                    for o, v in cases:
                        n += 1
                        try:
                            got = ("ok", opt.evaluate(copy.deepcopy(o)))
                        except Exception as e:  # noqa
                            got = ("err", core.classify(e)[0])
                        ins = inside(v)
                        if ins:
                            if not (got[0] == "ok" and _strict_eq(got[1], v)):
                                bad = dict(options=repr(o), got=repr(got), what=f"the value {v!r} lies in the domain: expected it to be yielded")
                        elif got[0] == "ok":
                            bad = dict(options=repr(o), got=repr(got), what=f"the value {v!r} lies outside the domain and was returned")
                        elif ins is False and got[1] != "domain":
                            bad = dict(options=repr(o), got=repr(got), what=f"the value {v!r} lies outside the domain: expected the domain failure")
                        if bad:
                            break
                    if bad:
                        break
            except Exception as e:  # noqa
                bad = dict(what=f"raised {type(e).__name__}: {str(e)[:160]}")
            if bad:
                report(case, bad.pop("what"), key=key, **bad)
                break
    return n


FALSY_PY = [None, 0, False, "", [], {}]


# --- the options handed over as a Mapping of another KIND (an Option looks its key up through the Mapping protocol only) ---

class _DictSubclass(dict):
    pass


class _UserMapping(__import__("collections").abc.Mapping):
    def __init__(self, data):
        self._data = dict(data)

    def __getitem__(self, key):
        return self._data[key]

    def __iter__(self):
        return iter(self._data)

    def __len__(self):
        return len(self._data)


def mapping_kinds():
    import collections
    import types

    def two_layers(d):
        items = list(d.items())
        low = dict(items[1::2])
        for k, _v in items[:1]:
            low[k] = "shadowed"
        return collections.ChainMap(dict(items[::2]), low)
    return [("dict subclass", _DictSubclass), ("collections.OrderedDict", collections.OrderedDict),
            ("collections.defaultdict without factory", lambda d: collections.defaultdict(None, d)),
            ("collections.ChainMap({}, d)", lambda d: collections.ChainMap({}, d)), ("collections.ChainMap of two layers", two_layers),
            ("types.MappingProxyType", lambda d: types.MappingProxyType(dict(d))), ("collections.UserDict", collections.UserDict),
            ("a user Mapping", _UserMapping)]


def as_kind(po, f, deep):
    if isinstance(po, dict):
        return f({k: (as_kind(v, f, deep) if deep else v) for k, v in po.items()})
    if isinstance(po, list) and deep:
        return [as_kind(v, f, deep) for v in po]
    return po


def mapping_kinds_checks(violations):
    """Option.evaluate / validate under options that are a dict subclass, an OrderedDict, a ChainMap, a MappingProxyType, a UserDict, a user
    Mapping (top level only / sections too): the value stored under the key when present (every falsy value, templated strings resolved
    against the same options), else the default, else the missing-key error naming the key - decided by this module's own lookup on the content"""
    from labrea import Option
    from labrea.exceptions import KeyNotFoundError
    n = 0
    stored = FALSY_PY + [3, "t", [1, 2], {"Y": 1}, "{B}", "a{B}", "{M.N}"]
    shapes = {"A": lambda v: {"A": v, "B": 5, "M": {"N": 0}}, "S.X": lambda v: {"S": {"X": v, "Y": 2}, "B": 5, "M": {"N": 0}},
              "S.X.Y": lambda v: {"S": {"X": {"Y": v}}, "B": 5, "M": {"N": 0}}, "L.1": lambda v: {"L": [9, v], "B": 5, "M": {"N": 0}}}
    absent = {"A": [{}, {"B": 1}], "S.X": [{}, {"S": {}}, {"S": {"Y": 1}, "X": 5}], "S.X.Y": [{"S": {"X": {}}}, {"S": {}}], "L.1": [{"L": [3]}, {"L": []}]}
    for label, f in mapping_kinds():
        for deep in (False, True):
            bad = None
            for key in shapes:
                cases = [shapes[key](v) for v in stored] + absent[key] + [shapes[key]("{NOPE}"), shapes[key]("x{S.NOPE}")]
                for po in cases:
                    for dflt in (("none",), ("constant", 7), ("falsy", None)):
                        n += 1
                        opt = Option(key) if dflt[0] == "none" else Option(key, default=dflt[1])
                        try:
                            want = ("ok", ref_resolve(ref_get(key, po), po))
                        except Missing as m:
                            want = ("missing", m.args[0]) if (m.args[0] != key or dflt[0] == "none") else ("ok", dflt[1])
                        try:
                            got = ("ok", opt.evaluate(as_kind(copy.deepcopy(po), f, deep)))
                        except KeyNotFoundError as e:
                            got = ("missing", e.key)
                        except Exception as e:  # noqa
                            got = ("err", type(e).__name__, type(e.__cause__).__name__ if e.__cause__ else None)
                        if want[0] == "ok":
                            okay = got[0] == "ok" and _deep_strict_eq(_plain(got[1]), want[1])
                        else:
                            okay = got == want
                        if okay and want[0] == "ok":
                            try:
                                opt.validate(as_kind(copy.deepcopy(po), f, deep))
                            except Exception as e:  # noqa
                                okay, got = False, ("validate raised", type(e).__name__)
                        if not okay:
                            bad = dict(key=key, default=dflt[0], content=repr(po), got=repr(got)[:300], expected=repr(want)[:300])
                            break
                    if bad:
                        break
                if bad:
                    break
            if bad:
                violations.append(dict(desc=f"Option under options given as [{label}]{' (sections too)' if deep else ''}: does not yield what the content demands",
                                       mapping_case=f"{label}/{deep}", finding=None, **bad))
    return n


def _plain(v):
    """a value with every Mapping inside turned into a dict (what the value IS, whatever kind the caller's sections were)"""
    import collections.abc
    if isinstance(v, collections.abc.Mapping):
        return {k: _plain(x) for k, x in v.items()}
    if isinstance(v, list):
        return [_plain(x) for x in v]
    return v


# --- namespace members under every legal NAME ---

def _ns_obs(x, m, o):
    from labrea.exceptions import KeyNotFoundError
    try:
        r = getattr(x, m)(copy.deepcopy(o))
        return ("ok", r, type(r).__name__)
    except KeyNotFoundError as e:
        return ("missing", e.key)
    except Exception as e:  # noqa
        c = e.__cause__
        return ("err", type(e).__name__, type(c).__name__ if c is not None else None, getattr(c, "key", None))


def _deep_strict_eq(a, b):
    if type(a) is not type(b):
        return False
    if isinstance(a, dict):
        return a.keys() == b.keys() and all(_deep_strict_eq(a[k], b[k]) for k in a)
    if isinstance(a, list):
        return len(a) == len(b) and all(_deep_strict_eq(x, y) for x, y in zip(a, b))
    return core._eq(a, b)


def namespace_names_checks(violations):
    """members declared under every attribute name / key string / sub-namespace name the library accepts (leading and trailing underscores,
    a single underscore, dunder-like and name-mangled names, lower case, non-ASCII identifiers, names of the Namespace object's own
    attributes, Option keys and sub-namespace names with hyphens, spaces, slashes, names that look like numbers), as annotations, Options,
    Option.auto() and nested namespaces: each behaves like the fully-qualified Option, and so does the namespace as a whole"""
    from labrea import Option
    n = 0

    class _Hidden:
        Z = Option("Z", default="{PKG.a}/z")
        _z: int
        _y = Option.auto(default="{PKG.SUB._z}")

    class _Inner:
        _W = Option("W", default=None)

    _Hidden._IN = Option.namespace("in-ner")(_Inner)

    @Option.namespace
    class PKG:
        a: int
        _A: int
        B = Option.auto(default=1, domain=[0, 1, 2])
        _B = Option.auto(default=1, domain=[0, 1, 2])
        B_ = Option.auto(default=False)
        _ = Option.auto(default="{PKG.a}")
        __M = Option.auto(default=3)
        __d__ = Option.auto(default=4, domain=[0, 4])
        é = Option.auto(default=5)
        keys = Option.auto(default=6)
        _key = Option.auto(default=8)
        _members = Option("_members", default=[])
        _C = Option("C", default="{PKG.a}-c")
        _D = Option("D")
        _E = Option("my-opt", default="{PKG.file name}!")
        F = Option("file name")
        _G = Option("région/est", default=0, domain=[0, 3])
        _SUB = Option.namespace("SUB")(_Hidden)
        S2 = Option.namespace("MODULE-2")(type("X", (), {"A": 10, "_p": Option.auto(default=""), "__annotations__": {"b c": int, "_q": str}}))
        _S3 = Option.namespace("7")(type("Y", (), {"A": 10}))

    # (how the member is reached, the equivalent fully-qualified Option)
    q = lambda k, **kw: Option("PKG." + k, **kw)
    pairs = [
        ("a", lambda: PKG.a, q("a")), ("_A", lambda: PKG._A, q("_A")), ("B", lambda: PKG.B, q("B", default=1, domain=[0, 1, 2])),
        ("_B", lambda: PKG._B, q("_B", default=1, domain=[0, 1, 2])), ("B_", lambda: PKG.B_, q("B_", default=False)),
        ("_", lambda: PKG._, q("_", default="{PKG.a}")), ("_PKG__M", lambda: getattr(PKG, "_PKG__M"), q("_PKG__M", default=3)),
        ("__d__", lambda: getattr(PKG, "__d__"), q("__d__", default=4, domain=[0, 4])), ("é", lambda: getattr(PKG, "é"), q("é", default=5)),
        ("keys", lambda: PKG["keys"], q("keys", default=6)), ("_key", lambda: PKG["_key"], q("_key", default=8)),
        ("_members", lambda: PKG["_members"], q("_members", default=[])),
        ("_C", lambda: PKG._C, q("C", default="{PKG.a}-c")), ("_D", lambda: PKG._D, q("D")), ("_D (item access)", lambda: PKG["_D"], q("D")),
        ("_E", lambda: PKG._E, q("my-opt", default="{PKG.file name}!")), ("F", lambda: PKG.F, q("file name")),
        ("_G", lambda: PKG._G, q("région/est", default=0, domain=[0, 3])),
        ("_SUB.Z", lambda: PKG._SUB.Z, q("SUB.Z", default="{PKG.a}/z")), ("_SUB._z", lambda: PKG._SUB._z, q("SUB._z")),
        ("_SUB._y", lambda: PKG._SUB._y, q("SUB._y", default="{PKG.SUB._z}")),
        ("_SUB._IN._W", lambda: PKG._SUB._IN._W, q("SUB.in-ner.W", default=None)),
        ("S2.A", lambda: PKG.S2.A, q("MODULE-2.A", default=10)), ("S2._p", lambda: PKG.S2._p, q("MODULE-2._p", default="")),
        ("S2['b c']", lambda: PKG.S2["b c"], q("MODULE-2.b c")), ("S2._q", lambda: PKG.S2._q, q("MODULE-2._q")),
        ("_S3.A", lambda: PKG._S3.A, q("7.A", default=10)),
    ]
    full = {"a": 1, "_A": 2, "B": 0, "_B": 0, "B_": "", "_": None, "_PKG__M": 9, "__d__": 0, "é": [], "keys": 0, "_key": False,
            "_members": [1], "C": "", "D": None, "my-opt": "{PKG.file name}", "file name": "f", "région/est": 3,
            "SUB": {"Z": 0, "_z": 1, "_y": "", "in-ner": {"W": 0}}, "MODULE-2": {"A": None, "_p": "p", "b c": 4, "_q": "q"}, "7": {"A": 0}}
    needed = {"a": 5, "_A": 0, "D": False, "file name": "n", "SUB": {"_z": 0}, "MODULE-2": {"b c": None, "_q": ""}}
    dicts = [{"PKG": full}, {"PKG": needed}, {"PKG": dict(needed, _B=7, B=7)}, {"PKG": dict(needed, **{"__d__": 1, "région/est": 1})},
             {"PKG": dict(needed, C="{PKG._A}!", _="{PKG.SUB.Z}", D="{PKG.é}{PKG.B_}")}, {"PKG": {"a": 0}}, {"PKG": {}}, {},
             {"PKG": dict(needed, SUB={"_z": 3, "_y": 0, "Z": "{PKG.MODULE-2.b c}", "in-ner": {}})},
             {"PKG": {k: v for k, v in needed.items() if k != "D"}}, {"PKG": dict(needed, **{"MODULE-2": {"b c": 1}})}]
    methods = ("evaluate", "validate", "keys", "explain")
    qualified = {}
    for name, reach, ref in pairs:
        qualified[ref.key] = ref
        for o in dicts:
            for m in methods:
                n += 1
                try:
                    member = reach()
                except Exception as e:  # noqa
                    a = ("no such member", type(e).__name__)
                else:
                    a = _ns_obs(member, m, o)
                b = _ns_obs(ref, m, o)
                if a != b:
                    violations.append(dict(desc=f"namespace member PKG.{name} (declared under a name the library accepts) differs from the fully-qualified "
                                                f"Option({ref.key!r}) on {m}", options=repr(o), member=repr(a), qualified=repr(b), finding=None,
                                           namespace_case="names:" + name))
                    break
            else:
                continue
            break
    # the namespace as a whole = all its fully-qualified Options
    for reach, prefix, what in [(lambda: PKG, "PKG.", "PKG"), (lambda: PKG._SUB, "PKG.SUB.", "PKG._SUB"), (lambda: PKG.S2, "PKG.MODULE-2.", "PKG.S2")]:
        try:
            ns = reach()
        except Exception as e:  # noqa
            violations.append(dict(desc=f"namespace {what}: the declared sub-namespace cannot be reached ({type(e).__name__}: {e})", finding=None,
                                   namespace_case="names:whole:" + what))
            continue
        mine = {k: r for k, r in qualified.items() if k.startswith(prefix)}
        for o in dicts:
            per = {m: {k: _ns_obs(r, m, o) for k, r in mine.items()} for m in methods}
            for m in methods:
                n += 1
                got = _ns_obs(ns, m, o)
                fails = [v for v in per[m].values() if v[0] != "ok"]
                bad = None
                if fails:
                    if got[0] == "ok":
                        bad = f"a grouped option fails ({fails[0]!r}) but the namespace does not"
                elif got[0] != "ok":
                    bad = "every grouped option succeeds but the namespace fails"
                elif m in ("keys", "explain"):
                    want = set().union(*(v[1] for v in per[m].values()))
                    if got[1] != want:
                        bad = f"expected the union of the grouped options' answers {sorted(want)!r}"
                elif m == "evaluate":
                    want = {}
                    for k, v in per[m].items():
                        cur = want
                        parts = k[len(prefix):].split(".")
                        for part in parts[:-1]:
                            cur = cur.setdefault(part, {})
                        cur[parts[-1]] = v[1]
                    if not _deep_strict_eq(got[1], want):
                        bad = f"expected every grouped option's value under its name: {want!r}"
                if bad:
                    violations.append(dict(desc=f"namespace {what} as a whole on {m}: {bad}", options=repr(o), got=repr(got)[:600], finding=None,
                                           namespace_case="names:whole:" + what))
                    break
            else:
                continue
            break
    return n


def set_checks(ctx, violations):
    """Option.set with a non-mapping value"""
    from labrea import Option
    n = 0
    coq_cases = []
    vals = [None, 0, False, "", [], 1, "t", [1, 2]]
    keys = [K(A), K(SEC, SX), K(SEC, SX, SY), K(B, SX), K(LST, "i0")]
    dicts = [{}, {A: 1}, {SEC: {SX: 1, SY: 2}, A: 3}, {SEC: {SY: 2}}, {SEC: {SX: {SY: 4, A: 5}}}, {LST: [1, 2], A: 0}, {B: {SY: 1}}]
    for key in keys:
        opt = Option(core.key_text(key))
        listkey = any(s[0] == "i" for s in key)
        for o in dicts:
            for v in vals:
                n += 1
                po = core.py_json(o)
                snap = copy.deepcopy(po)
                try:
                    new = opt.set(po, v)
                except Exception as e:  # noqa
                    violations.append(dict(desc="Option.set raised", key=core.key_text(key), options=repr(o), value=repr(v),
                                           error=repr(e), finding="D10" if listkey else None))
                    continue
                problems = []
                if po != snap or repr(po) != repr(snap):
                    problems.append("the input dictionary was modified")
                if new is po:
                    problems.append("the input dictionary itself was returned")
                try:
                    got = opt.evaluate(new)
                    if not (got == v and type(got) == type(v)):
                        problems.append(f"the Option evaluates to {got!r} in the new dictionary")
                except Exception as e:  # noqa
                    problems.append(f"the Option cannot be evaluated in the new dictionary ({type(e).__name__})")
                # all other keys intact
                for k2 in [K(A), K(B), K(SEC, SX), K(SEC, SY), K(SEC, SX, SY), K(SEC, SX, A), K(LST, "i1"), K(B, SY)]:
                    t2, t = core.key_text(k2), core.key_text(key)
                    if t2 == t or t2.startswith(t + ".") or t.startswith(t2 + "."):
                        continue
                    try:
                        before = ("v", ref_get(t2, snap))
                    except Exception:
                        continue
                    try:
                        after = ("v", ref_get(t2, new))
                    except Exception:
                        after = ("absent",)
                    if before != after:
                        problems.append(f"key {t2} changed from {before} to {after}")
                if problems:
                    violations.append(dict(desc="Option.set: " + "; ".join(problems), key=core.key_text(key), options=repr(o),
                                           value=repr(v), result=repr(new), finding="D10" if listkey else None))
                # correspondence with Base.set_dotted + mix
                vj = core.lit(v) if isinstance(v, str) else v
                coq_cases.append((f"match set_dotted {core.coq_key(key)} {core.coq_json(vj)} [] with "
                                  f"Some d => show_json (JObj (mix {core.coq_dict(o)} d)) | None => \"typeerror\" end", core.canon_names(core.show(new))))
    return n, coq_cases


# --- the same battery in other interpreters (flags / environment variables that change how Python compiles and runs the library) ---

INTERPRETERS = [
    # label, interpreter flags, environment, run the battery in a worker thread
    ("python -O", ["-O"], {}, False),
    ("python -OO", ["-OO"], {}, False),
    ("PYTHONOPTIMIZE=1 in the environment", [], {"PYTHONOPTIMIZE": "1"}, False),
    ("python -X dev", ["-X", "dev"], {}, False),
    ("a worker thread of a plain interpreter", [], {}, True),
]
CHILD_MARK = "@@C04-CHILD@@"


class _ChildCtx:
    def __init__(self, seed, quick):
        self.seed, self.quick, self.rng = seed, quick, random.Random(seed)


def _child_env(extra):
    keep = ("PYTHONPATH", "PYTHONHASHSEED", "PYTHONDONTWRITEBYTECODE", "LABREA_VERIF", "VERIF_REPO", "PATH", "HOME", "LANG", "LC_ALL", "TMPDIR")
    env = {k: v for k, v in os.environ.items() if k in keep}
    env.update(extra)
    return env


def _spawn(flags, extra_env, request):
    cmd = [sys.executable, *flags, "-W", "ignore", "-c", "import props.c04 as m; m.child_main()"]
    # output goes to temporary files: a child that reports many failures must not block on a full pipe
    fout, ferr = tempfile.TemporaryFile("w+"), tempfile.TemporaryFile("w+")
    p = subprocess.Popen(cmd, stdin=subprocess.PIPE, stdout=fout, stderr=ferr, text=True, env=_child_env(extra_env), cwd=lib.ROOT)
    p.files = (fout, ferr)
    p.stdin.write(json.dumps(request))
    p.stdin.close()
    return p


def _collect(p, timeout):
    try:
        p.wait(timeout=timeout)
    except subprocess.TimeoutExpired:
        p.kill()
        return None, "timeout"
    fout, ferr = p.files
    fout.seek(0)
    ferr.seek(0)
    out, err = fout.read(), ferr.read()
    fout.close()
    ferr.close()
    for line in out.splitlines():
        if line.startswith(CHILD_MARK):
            return json.loads(line[len(CHILD_MARK):]), err[-1500:]
    return None, (err or out)[-1500:]


def child_main():
    """entry point of a child interpreter: the whole implementation-side battery of this module (oracle, long-lived objects, copies,
    namespaces, Option.set) - or the replay of one reported input - in THIS interpreter; no Coq, no grandchildren"""
    req = json.load(sys.stdin)
    out = {}

    def work():
        if "replay" in req:
            still, detail = replay(None, req["replay"])
            out.update(still=still, detail=detail)
            return
        ctx = _ChildCtx(req["seed"], req["quick"])
        violations, stats, _corr, n = exhaustive_options(ctx)
        n += namespace_checks(violations)
        n += namespace_names_checks(violations)
        n += callable_kinds_checks(violations)
        n += mapping_kinds_checks(violations)
        n += set_checks(ctx, violations)[0]
        untagged = [v for v in violations if not v.get("finding")]
        out.update(violations=untagged[:25] + [v for v in violations if v.get("finding")][:5], n_violations=len(violations), n=n, optimize=sys.flags.optimize, debug=__debug__, dev_mode=sys.flags.dev_mode,
                   thread=threading.current_thread() is not threading.main_thread())
    if req.get("thread"):
        t = threading.Thread(target=work)
        t.start()
        t.join()
    else:
        work()
    print(CHILD_MARK + json.dumps(out, default=str))


def start_interpreters(ctx):
    return [(label, flags, env, thread, _spawn(flags, env, dict(seed=ctx.seed, quick=ctx.quick, thread=thread)))
            for label, flags, env, thread in INTERPRETERS]


def collect_interpreters(children, violations, mism, quick):
    info = {}
    for label, flags, env, thread, p in children:
        res, err = _collect(p, 600 if quick else 6000)
        if res is None or "violations" not in res:
            mism.append(dict(where=f"the battery could not be completed in [{label}]", error=err))
            continue
        want_opt = 2 if "-OO" in flags else 1 if ("-O" in flags or env.get("PYTHONOPTIMIZE")) else 0
        if res["optimize"] != want_opt or res["thread"] != thread:
            mism.append(dict(where=f"child interpreter [{label}] did not start with the requested settings", got=repr(res)[:300]))
        info[label] = dict(evaluations=res["n"], violations=len(res["violations"]), optimize=res["optimize"], dev_mode=res["dev_mode"])
        for v in res["violations"]:
            v = dict(v, desc=f"[{label}] " + v.get("desc", ""), interpreter=dict(label=label, flags=flags, env=env, thread=thread))
            violations.append(v)
    return info


def known_witnesses():
    from labrea import Option
    out = []
    try:
        r = Option("S.X", default=1)({"S": 5})
        d6 = r != 1
    except Exception:
        d6 = True
    out.append(dict(id="D6", still_fails=d6, what="Option('S.X', default=1)({'S': 5}) raises (TypeError under EvaluationError) instead of yielding the default"))
    try:
        new = Option("L.0").set({"L": [1, 2]}, 9)
        d10 = Option("L.0")(new) != 9
    except Exception:
        d10 = True
    out.append(dict(id="D10", still_fails=d10, what="Option('L.0').set({'L':[1,2]}, 9) -> {'L': {'0': 9}} on which Option('L.0') fails"))
    return out


def run(ctx):
    children = start_interpreters(ctx)
    violations, stats, corr, n_opt = exhaustive_options(ctx)
    n_ns = namespace_checks(violations) + namespace_names_checks(violations)
    n_kinds = callable_kinds_checks(violations) + mapping_kinds_checks(violations)
    n_set, set_cases = set_checks(ctx, violations)
    corr = [s for _, s in corpus_for(PID)] + corr
    # random options with chained defaults etc. through the general generator
    for i in range(60 if ctx.quick else 600):
        g = gen.Gen(ctx.rng, with_map=False, with_effects=False, max_ds=2)
        exprs = [g.option() for _ in range(3)]
        pool = g.dict_pool()
        corr.append(dict(ftable=dict(g.ftable), env=dict(g.env), exprs=exprs,
                         ops=[(m, j, False, False, o) for o in pool[:4] for j in range(3) for m in ("evaluate", "validate", "keys", "explain")]))
    impls, models, mism, cstats = cp.correspondence(ctx, corr, "Cases_C04", shard=12)
    n_var = variant_correspondence(corr, models, mism)
    got = ctx.coq_eval("Cases_C04_set", cp.REQ + ["Model.Show"], "", [c[0] for c in set_cases], shard=200)
    for (expr, want), g_ in zip(set_cases, got):
        if g_ != want and g_ != "typeerror":
            mism.append(dict(where="Base.set_dotted/mix vs Option.set", coq=expr[:300], impl=want, model=g_))
    n_local = len(violations)
    interp = collect_interpreters(children, violations, mism, ctx.quick)
    ext = stats.get("extended", {})
    n_ext = ext.get("live-dictionary calls", 0) + ext.get("clone calls", 0) + sum(i["evaluations"] for i in interp.values())
    tagged = {}
    for v in violations[:n_local]:
        if v.get("finding"):
            tagged[v["finding"]] = tagged.get(v["finding"], 0) + 1
    return {
        "evaluations": n_opt + n_ns + n_kinds + n_set + cstats["ops"] + n_ext,
        "distinct_nontrivial": n_opt,
        "rule": "every key of a nested universe (section, prefixes of one another, list indices) x every falsy/truthy/templated value stored "
                "under it (plus absent, scalar-parent and empty-section dictionaries) x 7 default forms (none, constant, falsy constant, template, "
                "factory, chained Option, dataset) x 4 domain forms (none, container, predicate, evaluatable) - complete in the thorough tier, "
                "every other default/domain combination in quick; 10 namespace members (nested, renamed, auto, typed) x 9 dictionaries x 4 methods; "
                "Option.set for 5 keys x 7 dictionaries x 8 values. Each (key, default, domain, dictionary) combination is distinct and non-trivial. "
                "Per combination additionally: one long-lived Option under ONE options dictionary object edited in place (all four methods, dictionaries that "
                "compare equal although they differ next to one another); the Option after copy.copy / copy.deepcopy / pickle (protocols 0, 2, highest; "
                "before and after use), also spelled with default_factory= / a bare callable domain. The whole implementation-side battery is repeated in "
                "child interpreters: python -O, -OO, PYTHONOPTIMIZE=1, -X dev, and in a worker thread.",
        "samples": [dict(expr=repr(("option", KEYS[2], DEFAULTS[3][1], DOMAINS[1][1])), options=repr(place(KEYS[2], 0, {B: 5})), expected="0 (falsy present value wins)")],
        "traces_validated_against_impl": cstats["ops"] + len(set_cases) + n_var,
        "correspondence_mismatches": mism[:5],
        "violations": violations,
        "known": known_witnesses(),
        "distribution": dict(cstats, expected_outcomes=stats, namespace_checks=n_ns, callable_kind_checks=n_kinds, set_checks=n_set, tagged=tagged, interpreters=interp, copied_live_history_ops_vs_model=n_var),
        "exhaustive": not ctx.quick,
        "assumptions": ["the oracle's lookup/resolver is an independent transcription of the property text (dotted lookup, transitive templating)"],
        "trusted_base": ["confectioner get_dotted_key/resolve/set_dotted_key/mix are modelled and validated by this correspondence run"],
    }


def replay(ctx, payload):
    viol = []
    if "interpreter" in payload:                                    # found in a child interpreter: replay it there
        it = payload["interpreter"]
        inner = {k: v for k, v in payload.items() if k != "interpreter"}
        res, err = _collect(_spawn(it["flags"], it["env"], dict(replay=inner, thread=it["thread"])), 600)
        if res is None:
            return True, dict(note="the child interpreter could not replay the input", error=err)
        return bool(res["still"]), dict(interpreter=it["label"], detail=res["detail"])
    if "live_scenario" in payload:                                  # one Option, one dictionary object edited in place
        diffs = live_replay(cp.load_scn(payload["live_scenario"]))
        return bool(diffs), dict(differences=diffs[:3])
    if "clone" in payload:                                          # a copied / unpickled Option vs the original
        diffs = clone_replay(payload)
        return bool(diffs), dict(differences=diffs[:4])
    if "scenario_repr" in payload and "position" in payload:      # a long-lived Option object vs fresh ones
        scn = cp.load_scn(payload["scenario_repr"])
        lines = core.run_impl(scn)
        diffs = []
        for j, (op, line) in enumerate(zip(scn["ops"], lines)):
            one = core.run_impl(dict(scn, ops=[op]))[0]
            if cp.split(one)[0] != cp.split(line)[0]:
                diffs.append(dict(position=j, long_lived=cp.split(line)[0], fresh=cp.split(one)[0], options=repr(op[4])))
        return bool(diffs), dict(differences=diffs[:3])
    if "scenario_repr" in payload and "expr" in payload:
        scn = cp.load_scn(payload["scenario_repr"])
        e = scn["exprs"][0]
        check_option(dict(ftable=scn["ftable"], env=scn["env"]), e[1], e[2], e[3], scn["ops"][0][4], viol, {})
        return bool([v for v in viol if not v.get("finding")]) or bool(viol and payload.get("finding")), dict(violations=viol)
    if "mapping_case" in payload:
        mapping_kinds_checks(viol)
        return any(v.get("mapping_case") == payload["mapping_case"] for v in viol), dict(violations=[v for v in viol if v.get("mapping_case") == payload["mapping_case"]][:3])
    if "callable_case" in payload:
        callable_kinds_checks(viol)
        return any(v.get("callable_case") == payload["callable_case"] for v in viol), dict(violations=[v for v in viol if v.get("callable_case") == payload["callable_case"]][:3])
    if "namespace_case" in payload:
        namespace_checks(viol)
        namespace_names_checks(viol)
        return any(v.get("namespace_case") == payload["namespace_case"] for v in viol), dict(violations=viol[:3])
    if "key" in payload:
        set_checks(ctx, viol)
        hit = [v for v in viol if v.get("key") == payload["key"] and v.get("options") == payload["options"] and v.get("value") == payload["value"]]
        return bool(hit), dict(violations=hit[:2])
    if "scenario_repr" in payload:
        scn = cp.load_scn(payload["scenario_repr"])
        il = core.run_impl(scn)
        ml = ctx.coq_eval("Replay_C04", cp.REQ, "", [core.coq_scenario(scn)])[0].split(" ## ")
        return not cp.agrees(il, ml, scn), dict(impl=il, model=[cp.strip_ghost(x) for x in ml])
    return True, dict(note="unrecognised payload")
