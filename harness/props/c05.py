"""C05 - combinators evaluate to what the equivalent eager Python computation yields.

Three independent computations of every case (expression tree, options dictionary):
  impl   labrea's `evaluate` (public API, objects built from the scenario tree),
  model  the code-structured Coq interpreter (Model/Eval.v, `run_scenario`) AND the reference
         semantics `sem` of Model/Spec.v (the subject of the theorems of Properties/C05.v),
         both run by vm_compute,
  ref    the property's own oracle: an eager Python interpreter over the scenario tree (`Ref`),
         written from the property text; it never imports labrea.
"""
import itertools

import core
import coreprop as cp
import gen
import lib
from core import S, lit
from gen import K
from witnesses import FIXED, corpus_for

PID = "C05"
COQ_TARGETS = cp.COQ_TARGETS + ["Model/Spec.vo"]
REQ = cp.REQ + ["Model.Spec"]
PRELUDE = ("Definition c05_sem_line (t : ftable) (e : expr) (o : dict) : string :=\n"
           "  show_res show_value (consumed (sem (ucall_of t) default_fuel e o)).\n"
           "Definition c05_sem_lines (t : ftable) (es : list expr) (ops : list op) : string :=\n"
           "  String.concat \" ## \" (map (fun p => c05_sem_line t (nth p.(op_expr) es (EValue VMissing)) p.(op_opts)) ops).\n")

A, B, C, SEC, SX, SY, LST = 10, 11, 12, 20, 21, 22, 30


def val(j):
    return ("value", ("j", j))


def opt(k, d=None):
    return ("option", k, d, None)


# =============================================================================================
# the property's own oracle: an eager reference interpreter (no labrea import below this line
# until `Impl`).  One clause per sentence of the property.
# =============================================================================================

class Fail(Exception):
    """the eager computation raises: kind in key(<k>) | switch | case | user(<n>) | type"""

    def __init__(self, kind):
        super().__init__(kind)
        self.kind = kind


class OutOfProfile(Exception):
    """the case is outside the property's quantifier (e.g. a key under a scalar parent: D6)"""


def merge(a, b):
    """options `a` overridden by `b` (sections merge key by key)"""
    out = dict(a)
    for k, v in b.items():
        out[k] = merge(out[k], v) if isinstance(out.get(k), dict) and isinstance(v, dict) else v
    return out


def is_json(v):
    if isinstance(v, list):
        return all(is_json(x) for x in v)
    if isinstance(v, dict):
        return all(isinstance(k, str) and is_json(x) for k, x in v.items())
    return v is None or isinstance(v, (bool, int, str))


def set_nested(d, text, v):
    parts = text.split(".")
    for p in parts[:-1]:
        if not isinstance(d.get(p), dict):
            d[p] = {}
        d = d[p]
    d[parts[-1]] = v


class Ref:
    def __init__(self, ftable, env):
        self.w = core.World(ftable)      # the USER functions of the scenario (not labrea code)
        self.env = env
        self.bind_raised_in_member = False   # zone of finding D23 (see findings/C05.json)
        self.undetermined = False            # a generator handed out by a coalesce member fails in user code

    def user(self, fid, *args):
        try:
            return self.w.fn(fid)(*args)
        except Exception as e:           # noqa: user code raises
            raise Fail(f"user({getattr(e, 'labrea_verif_n', '?')})")

    def call(self, f, *args):
        try:
            return f(*args)
        except Fail:
            raise
        except TypeError:
            raise Fail("type")

    def lookup(self, o, key):
        cur = o
        for s in key:
            part = core.name_of(s[1]) if s[0] == "n" else str(s[1])
            if isinstance(cur, dict):
                if part not in cur:
                    raise KeyError(part)
                cur = cur[part]
            elif isinstance(cur, list):
                if s[0] != "i" or s[1] >= len(cur):
                    raise KeyError(part)
                cur = cur[s[1]]
            else:
                raise OutOfProfile("scalar parent")
        if isinstance(cur, str) and ("{" in cur or "}" in cur):
            raise OutOfProfile("templated value")
        return cur

    def pick(self, table, k, o):
        """the branch registered under k, as a one-element list, or []"""
        try:
            d = {core.py_value(v): b for v, b in table}
            return [d[k]] if k in d else []
        except TypeError:
            raise OutOfProfile("unhashable dispatch value")

    def dataset(self, dsid, o):
        d, opts, dopts = self.env[dsid], {}, {}
        chain = []
        while d.get("derived") is not None:
            chain.append(d)
            d = self.env[d["derived"]]
        opts, dopts = core.py_json(d.get("options") or {}), core.py_json(d.get("default_options") or {})
        for dd in reversed(chain):
            if dd["how"] == "with_options":
                opts = merge(opts, core.py_json(dd["preset"]))
            else:
                dopts = merge(dopts, core.py_json(dd["preset"]))
        o = merge(merge(dopts, o), opts)
        body = None if d.get("abstract") else ("call", d["fid"], d.get("kwargs", []))
        if d.get("dispatch") is None:
            if body is None:
                raise Fail("switch")         # no dispatch, no default implementation: no branch applies
            v = self.ev(body, o)
        else:   # an overloaded dataset is a switch over its registered implementations
            v = self.ev(("switch", d["dispatch"], d.get("overloads", []), body), o)
        if d.get("callback") is not None:
            v = self.call(self.ev(d["callback"], o), v)
        if d.get("effects"):
            raise OutOfProfile("effects")
        return v

    def ev(self, e, o):
        k = e[0]
        if k == "value":
            return core.py_value(e[1])
        if k == "fnvalue":
            return lambda *a, _f=e[1]: self.user(_f, *a)
        if k == "option":
            if e[3] is not None:
                raise OutOfProfile("Option domain (C04)")
            try:
                return self.lookup(o, e[1])
            except KeyError:
                if e[2] is None:
                    raise Fail(f"key({core.key_text(e[1])})")
                return self.ev(e[2], o)
        if k == "apply":                                   # apply / >>
            x = self.ev(e[1], o)
            return self.call(self.ev(e[2], o), x)
        if k == "tolist":
            return self.call(list, self.ev(e[1], o))
        if k == "bind":                                    # the expression the function returns
            x = self.ev(e[1], o)
            hit = [b for v, b in e[2] if core._eq(x, core.py_value(v))][:1]
            if not hit and e[3] is None:
                f = Fail("user(0)")
                f.from_bind = True
                raise f
            return self.ev(hit[0] if hit else e[3], o)
        if k == "switch":
            try:
                key = self.ev(e[1], o)
            except Fail:                                   # the dispatch cannot be evaluated
                if e[3] is None:
                    raise
                return self.ev(e[3], o)
            hit = self.pick(e[2], key, o)
            if hit:
                return self.ev(hit[0], o)                  # the branch registered under the value
            if e[3] is None:
                raise Fail("switch")                       # no branch, no default: no value
            return self.ev(e[3], o)
        if k == "case":
            x = self.ev(e[1], o)
            for cond, r in e[2]:                           # first matching case
                if self.call(self.ev(cond, o), x):
                    return self.ev(r, o)
            if e[3] is None:
                raise Fail("case")
            return self.ev(e[3], o)
        if k == "coalesce":                                # first member that can be evaluated
            last = None
            for m in e[1]:
                try:
                    return self.ev(m, o)
                except Fail as f:
                    last = f
                    if getattr(f, "from_bind", False):
                        self.bind_raised_in_member = True
                    # Iter/Map are generators.  A missing option / missing branch inside one is
                    # known before evaluation (validate), so the member "cannot be evaluated";
                    # a failure of user code inside one only happens where the generator is
                    # consumed - after coalesce has chosen.  The property does not say which.
                    kind = f.kind.split(":")[-1]
                    if residual_lazy(m) and (kind.startswith("user(") or kind == "type"):
                        self.undetermined = True
            raise Fail("any:" + last.kind)
        if k == "iter" or k == "list":
            return [self.ev(x, o) for x in e[1]]
        if k == "tuple":
            return tuple(self.ev(x, o) for x in e[1])
        if k == "set":
            return self.call(set, [self.ev(x, o) for x in e[1]])
        if k == "dict":
            return self.call(dict, [(core.py_value(v), self.ev(x, o)) for v, x in e[1]])
        if k in ("map", "mapvalues"):
            m = e if k == "map" else e[1]
            names = [core.key_text(kk) for kk, _ in m[2]]
            cols = [self.call(list, self.ev(x, o)) for _, x in m[2]]
            out = []
            for combo in itertools.product(*cols):         # cartesian product, last fastest
                assignment, over = {}, {}
                for n, v in zip(names, combo):
                    if not is_json(v):
                        raise OutOfProfile("Map over non-JSON values")
                    assignment[n] = v
                    set_nested(over, n, v)
                r = self.ev(m[1], merge(o, over))          # the assignment overrides the caller's
                out.append((assignment, r) if k == "map" else r)
            return out
        if k == "with":
            p = core.py_json(e[2])
            return self.ev(e[3], merge(o, p) if e[1] else merge(p, o))
        if k == "call":                                    # f(args) over the evaluated arguments
            return self.user(e[1], *[self.ev(x, o) for x in e[2]])
        if k == "pstep":
            ps = [self.ev(x, o) for x in e[2]]
            return lambda x, _f=e[1]: self.user(_f, x, *ps)
        if k == "pipe":
            fs = [self.ev(s, o) for s in e[1]]

            def composed(x):
                for f in fs:
                    x = self.call(f, x)
                return x
            return composed
        if k == "dataset":
            return self.dataset(e[1], o)
        raise OutOfProfile(k)


def canon(v):
    """order- and type-sensitive canonical form of a python result (generators consumed)"""
    if isinstance(v, core.Tag):
        return ("tag", v.f)
    if v is None or isinstance(v, (bool, int, str)):
        return (type(v).__name__, v)
    if isinstance(v, tuple):
        return ("tuple", [canon(x) for x in v])
    if isinstance(v, dict):
        return ("dict", [(canon(k), canon(x)) for k, x in v.items()])
    if isinstance(v, (set, frozenset)):
        return ("set", sorted(repr(canon(x)) for x in v))
    if callable(v):
        return ("fn",)
    if isinstance(v, list) or hasattr(v, "__next__"):
        return ("list", [canon(x) for x in v])
    return ("?", type(v).__name__)


def ref_outcome(scn, e, o, zone=None):
    r = Ref(scn["ftable"], scn["env"])
    try:
        return ("ok", canon(r.ev(e, core.py_json(o))))
    except Fail as f:
        return ("fail", f.kind)
    except RecursionError:
        return ("fail", "fuel")
    finally:
        if zone is not None and r.bind_raised_in_member:
            zone.append("D23")
        if zone is not None and r.undetermined:
            zone.append("undetermined")


# =============================================================================================
# the implementation, through the public API
# =============================================================================================

class Builder(core.Builder):
    """core.Builder + the two public constructs that the Coq model has no value for"""

    def build(self, e):
        if e[0] == "set":
            return self.L.evaluatable_set(*[self.build(x) for x in e[1]])
        if e[0] == "mapvalues":
            return self.build(e[1]).values
        return super().build(e)



# ---- the same trees through the OTHER public spellings of each combinator.  The property speaks about
# "every expression built from" the combinators: which spelling of the public builder API produced the
# expression (and in which order its parts were chained / registered) is not part of the statement.
ALT_KINDS = {1: ("case", "switch", "coalesce", "pipe", "with", "dataset"), 2: ("case", "switch", "pipe", "dataset"),
             3: ("case", "switch", "dataset")}
SPELLINGS = {
    1: "case(d).otherwise(x).when(c, r)... (the default first; the shared base is evaluated too); Switch(...); coalesce(); e >> f; "
       "p += step; WithDefaultOptions(); dataset defined without dispatch, then set_dispatch(), then register()",
    2: "case(d).when(c1, r1).otherwise(x).when(c2, r2)... (the default in the middle); Overloaded(dispatch, lookup, default); "
       "s1 + (s2 + s3); dataset: register() first, set_dispatch() afterwards",
    3: "CaseWhen(dispatch, cases, default); Overloaded(dispatch, {}, default) + register() per branch; dataset: overload() decorator "
       "with a list of aliases after set_dispatch()",
}


class AltBuilder(Builder):
    def __init__(self, world, env, spell):
        super().__init__(world, env)
        self.spell = spell
        self.bases = []          # (tree, object) of shared bases that were extended later: they stay what they were

    def dataset(self, dsid):
        if dsid in self.ds:
            return self.ds[dsid]
        d = self.env[dsid]
        if d.get("derived") is not None or d.get("dispatch") is None:
            return super().dataset(dsid)
        # defined WITHOUT a dispatch; the dispatch and the implementations are supplied afterwards
        bare = dict(d, dispatch=None, overloads=[])
        self.env = dict(self.env)
        self.env[dsid] = bare
        try:
            obj = super().dataset(dsid)
        finally:
            self.env[dsid] = d
        disp = self.build(d["dispatch"])
        regs = [(core.py_value(a), self.build(x)) for a, x in d.get("overloads", [])]
        if self.spell == 2:
            for a, x in regs:
                obj.register(a, x)
            obj.set_dispatch(disp)
        elif self.spell == 3:
            from labrea.dataset import Dataset
            obj.set_dispatch(disp)
            i = 0
            while i < len(regs):     # consecutive registrations of one implementation: one overload([aliases])
                j = i + 1
                while j < len(regs) and regs[j][1] is regs[i][1]:
                    j += 1
                x = regs[i][1]
                if isinstance(x, Dataset):
                    obj.overload([a for a, _ in regs[i:j]] if j - i > 1 else regs[i][0])(x)
                else:
                    for a, _ in regs[i:j]:
                        obj.register(a, x)
                i = j
        else:
            obj.set_dispatch(disp)
            for a, x in regs:
                obj.register(a, x)
        return obj

    def build(self, e):
        L, s, k = self.L, self.spell, e[0]
        if k == "case":
            from labrea._missing import MISSING
            from labrea.conditional import CaseWhen
            d = self.build(e[1])
            cases = [(self.build(c), self.build(r)) for c, r in e[2]]
            dflt = self.build(e[3]) if e[3] is not None else None
            if s == 3:
                return CaseWhen(d, cases, MISSING if dflt is None else dflt)
            c = L.case(d)
            if s == 1 or not cases:
                if dflt is not None:
                    c = c.otherwise(dflt)
                    if cases:
                        self.bases.append((("case", e[1], [], e[3]), c))
                for i, (cond, r) in enumerate(cases):
                    c = c.when(cond, r)
                    if i + 1 < len(cases):
                        self.bases.append((("case", e[1], e[2][:i + 1], e[3]), c))
                return c
            for i, (cond, r) in enumerate(cases):
                c = c.when(cond, r)
                if i == 0 and dflt is not None:
                    c = c.otherwise(dflt)
            return c
        if k == "switch":
            from labrea._missing import MISSING
            from labrea.overload import Overloaded
            d = self.build(e[1])
            pairs = [(core.py_value(v), self.build(x)) for v, x in e[2]]
            dflt = self.build(e[3]) if e[3] is not None else MISSING
            if s == 1:
                return L.Switch(d, dict(pairs), dflt)
            if s == 2:
                return Overloaded(d, dict(pairs), dflt)
            ov = Overloaded(d, {}, dflt)
            for a, x in pairs:
                ov.register(a, x)
            return ov
        if k == "coalesce" and s == 1:
            return L.coalesce(*[self.build(x) for x in e[1]])
        if k == "apply" and s == 1:
            return self.build(e[1]) >> self.build(e[2])
        if k == "tolist" and s == 1:
            return self.build(e[1]) >> list
        if k == "with" and s == 1 and not e[1]:
            return L.WithDefaultOptions(self.build(e[3]), core.py_json(e[2]))
        if k == "pipe" and s in (1, 2):
            from labrea.pipeline import Pipeline
            steps = [self.build(x) for x in e[1]]
            if s == 1:
                p = Pipeline()
                for st in steps:
                    p += st
                return p
            p = Pipeline()
            for st in reversed(steps):
                p = (Pipeline() + st) + p
            return p
        return super().build(e)



# ---- the same trees with every user-supplied callable of another KIND.  The property speaks about "function
# application and datasets" evaluating "to what the corresponding eager Python computation ... yields": the eager
# computation calls the callable; which kind of Python callable it is (def, lambda, an instance with __call__, a
# bound method, a classmethod / staticmethod, a class, a functools.partial object over any of these) and which kind
# of parameter carries an argument expression (positional-or-keyword, keyword-only after a bare *, supplied through
# defaults= / where() / lift(**kwargs) for a parameter without a default - also into **kwargs -, keyword-only
# because a functools.partial bound an earlier parameter by keyword, bound by the functools.partial itself; for a
# pipeline step also behind a positional-only input `x, /`) is not part of the statement.  Unsupported by labrea
# itself and therefore outside: positional-only PARAMETERS carrying an expression and *args in a lifted signature
# (TypeError on the unchanged library).  The Coq model has no notion of the kind of a Python callable: the trees
# are the same terms, so this family is judged by the eager reference only.
CALLABLE_KINDS = ("def", "lambda", "instance", "bound", "classmethod", "staticmethod", "class")
UNARY_KINDS = CALLABLE_KINDS + ("partial", "partial_bound_argument", "partial_of_instance")
FA_PARAM_KINDS = ("pk", "kwonly", "split", "supplied", "varkw", "partial_kw", "partial_pos", "partial_binds")
STEP_PARAM_KINDS = ("pk", "kwonly", "split", "posx", "supplied", "partial_kw", "partial_pos", "partial_binds")
KIND_SOURCES = {
    "def": "def f({p}):\n    return {c}\n",
    "lambda": "f = lambda {p}: {c}\n",
    "instance": "class C:\n    def __call__(self, {p}):\n        return {c}\nf = C()\n",
    "bound": "class C:\n    def m(self, {p}):\n        return {c}\nf = C().m\n",
    "classmethod": "class C:\n    @classmethod\n    def m(cls, {p}):\n        return {c}\nf = C.m\n",
    "staticmethod": "class C:\n    @staticmethod\n    def m({p}):\n        return {c}\nf = C.m\n",
    "class": "class f:\n    def __new__(cls, {p}):\n        return {c}\n",
}
KIND_CONST = 7
N_KIND_SPELLS = 40
KIND_SPELL0 = 10


def _lost():
    raise AssertionError("a constant / bound parameter of the user's callable did not arrive")


def kind_callable(rng, impl, evs, step):
    """(callable, supplied, description): a Python callable of a random kind that computes impl([x,] a0, ..., an-1)
    and declares the argument expressions `evs` as its parameters' defaults in a random way; `supplied`: the
    defaults that are NOT in the signature and must be given through defaults= / where() / lift(**kwargs)"""
    import functools
    n = len(evs)
    names = [f"a{i}" for i in range(n)]
    ck = rng.choice(CALLABLE_KINDS)
    pk = rng.choice(STEP_PARAM_KINDS if step else FA_PARAM_KINDS)
    if n == 0 and pk in ("varkw", "partial_binds", "supplied"):
        pk = "pk"
    h = rng.randint(0, n)
    ns = {"impl": impl, "CONST": KIND_CONST, "lost": _lost, "functools": functools}
    for i, ev in enumerate(evs):
        ns[f"D{i}"] = ev
    dflt = [f"a{i}=D{i}" for i in range(n)]
    lead = ["x"] if step else []
    args = ", ".join(lead + names)
    call, wrap, supplied = f"impl({args})", None, None
    guarded = f"(impl({args}) if c == CONST else lost())"
    if pk == "pk":
        params = lead + dflt
    elif pk == "kwonly":
        params = lead + (["*"] if n else []) + dflt
    elif pk == "split":
        params = lead + dflt[:h] + (["*"] + dflt[h:] if h < n else [])
    elif pk == "posx":
        params = ["x", "/"] + dflt[:h] + (["*"] + dflt[h:] if h < n else [])
    elif pk == "supplied":
        params = lead + names[:h] + (["*"] + names[h:] if h < n else [])
        supplied = dict(zip(names, evs))
    elif pk == "varkw":
        h = min(h, n - 1)
        params = dflt[:h] + ["**kw"]
        call = "impl(" + ", ".join(names[:h] + [f"kw['{a}']" for a in names[h:]]) + ")"
        supplied = dict(zip(names[h:], evs[h:]))
    elif pk == "partial_kw":
        params = lead + dflt[:h] + ["c=0"] + dflt[h:]
        call, wrap = guarded, "functools.partial(f, c=CONST)"
    elif pk == "partial_pos":
        params = ["c"] + lead + dflt
        call, wrap = guarded, "functools.partial(f, CONST)"
    else:   # partial_binds: no defaults in the definition, the functools.partial binds the expressions by keyword
        params = lead + names
        wrap = "functools.partial(f, " + ", ".join(f"a{i}=D{i}" for i in range(n)) + ")"
    exec(KIND_SOURCES[ck].format(p=", ".join(params), c=call), ns)
    f = ns["f"]
    if wrap is not None:
        f = eval(wrap, dict(ns, f=f))
    return f, supplied, f"{ck}/{pk}"


def unary_callable(rng, fn):
    """the user function fn as a Python callable of a random kind, to be handed to labrea RAW (not wrapped in Value)"""
    import functools
    k = rng.choice(UNARY_KINDS)
    if k == "partial":
        return functools.partial(fn), k
    if k == "partial_bound_argument":
        return functools.partial(lambda m, *a: fn(*a) if m == KIND_CONST else _lost(), KIND_CONST), k
    ns = {"impl": fn}
    exec(KIND_SOURCES["instance" if k == "partial_of_instance" else k].format(p="*a", c="impl(*a)"), ns)
    return (functools.partial(ns["f"]) if k == "partial_of_instance" else ns["f"]), k


class KindBuilder(Builder):
    def __init__(self, world, env, kbase):
        import random
        super().__init__(world, env)
        self.rng = random.Random(7919 * kbase + 13)
        self.used = []

    def fn_or_build(self, e):
        """an expression in a position where labrea accepts a bare callable (MaybeEvaluatable)"""
        if e[0] == "fnvalue":
            f, k = unary_callable(self.rng, self.w.fn(e[1]))
            self.used.append("raw " + k)
            return f
        return self.build(e)

    def lifted(self, fid, arg_exprs, step):
        f, supplied, k = kind_callable(self.rng, self.w.fn(fid), [self.build(x) for x in arg_exprs], step)
        self.used.append(k)
        return f, supplied

    def dataset(self, dsid):
        if dsid in self.ds:
            return self.ds[dsid]
        from labrea import dataset, abstractdataset
        from labrea.cache import NoCache
        d = self.env[dsid]
        if d.get("derived") is not None:
            return super().dataset(dsid)
        kw = {}
        if d.get("dispatch") is not None:
            kw["dispatch"] = self.build(d["dispatch"])
        if d.get("options"):
            kw["options"] = core.py_json(d["options"])
        if d.get("default_options"):
            kw["default_options"] = core.py_json(d["default_options"])
        if d.get("callback") is not None:
            kw["callback"] = self.fn_or_build(d["callback"])
        if d.get("effects"):
            kw["effects"] = [self.fn_or_build(e) for e in d["effects"]]
        kw["cache"] = self.w.cache(dsid) if d.get("cache", "mem") == "mem" else NoCache()
        if d.get("abstract"):
            def _abstract():
                pass
            _abstract.__name__ = _abstract.__qualname__ = f"ds{dsid}"
            obj = abstractdataset(_abstract, **kw)
        else:
            f, supplied = self.lifted(d["fid"], d.get("kwargs", []), False)
            r = self.rng.random()
            if supplied and r < 0.5:
                obj = dataset(**kw).where(**supplied)(f)
            elif supplied:
                obj = dataset(f, defaults=supplied, **kw)
            elif r < 0.5:
                obj = dataset(**kw)(f)                  # the decorator-with-arguments form
            else:
                obj = dataset(f, **kw)
        self.ds[dsid] = obj
        for alias, impl in d.get("overloads", []):
            if impl[0] == "call" and d.get("dispatch") is not None and self.rng.random() < 0.7:
                # an implementation written as a function: the overload decorator (uncached, like every dataset here)
                f, supplied = self.lifted(impl[1], impl[2], False)
                fac = dataset.nocache
                obj.overload(core.py_value(alias))(fac.where(**supplied)(f) if supplied else fac(f))
            else:
                obj.register(core.py_value(alias), self.build(impl))
        if d.get("effects_disabled"):
            obj.disable_effects()
        return obj

    def build(self, e):
        L, k = self.L, e[0]
        if k == "fnvalue":
            from labrea.types import Value
            f, kk = unary_callable(self.rng, self.w.fn(e[1]))
            self.used.append("value " + kk)
            return Value(f)
        if k == "case":
            c = L.case(self.build(e[1]))
            for cond, r in e[2]:
                c = c.when(self.fn_or_build(cond), self.build(r))
            if e[3] is not None:
                c = c.otherwise(self.build(e[3]))
            return c
        if k == "apply":
            src, fn = self.build(e[1]), self.fn_or_build(e[2])
            return src.apply(fn) if self.rng.random() < 0.5 else src >> fn
        if k == "pipe":
            from labrea.pipeline import Pipeline
            p = Pipeline()
            for st in e[1]:
                p = p + self.fn_or_build(st)
            return p
        if k == "call":
            from labrea.application import FunctionApplication
            if self.rng.random() < 0.15:       # the explicit form, the argument expressions given positionally
                f, kk = unary_callable(self.rng, self.w.fn(e[1]))
                self.used.append("FunctionApplication(f, *args) " + kk)
                return FunctionApplication(f, *[self.build(x) for x in e[2]])
            f, supplied = self.lifted(e[1], e[2], False)
            if supplied and self.rng.random() < 0.5:
                return FunctionApplication.lift(**supplied)(f)      # the decorator-with-arguments form
            return FunctionApplication.lift(f, **(supplied or {}))
        if k == "pstep":
            from labrea.application import PartialApplication
            from labrea.pipeline import PipelineStep
            f, supplied = self.lifted(e[1], e[2], True)
            if supplied:
                return PipelineStep(PartialApplication.lift(f, **supplied), f"step{e[1]}")
            return L.pipeline_step(f)
        return super().build(e)


def kind_applies(scn, e):
    for n in list(nodes(e)) + list(env_nodes(scn)):
        if n[0] in ("fnvalue", "call", "pstep"):
            return True
        if n[0] == "dataset":
            return True
    return False


def spelling_text(spell):
    if spell >= KIND_SPELL0:
        return (f"every user-supplied callable of another kind (def / lambda / instance with __call__ / bound method / classmethod / "
                f"staticmethod / class / functools.partial) and its argument expressions declared through another kind of parameter "
                f"(keyword-only, supplied through defaults= / where() / lift(**kwargs), **kwargs, bound or made keyword-only by a "
                f"functools.partial, behind a positional-only input); predicates, applied functions, callbacks and pipeline steps handed "
                f"over as bare callables; rotation {spell - KIND_SPELL0}")
    return SPELLINGS[spell]


def alt_applies(scn, e, spell):
    kinds = ALT_KINDS[spell]
    def ds_has_dispatch(n):
        d = scn["env"].get(n[1], {})
        while d.get("derived") is not None:
            d = scn["env"][d["derived"]]
        return d.get("dispatch") is not None
    for n in list(nodes(e)) + list(env_nodes(scn)):
        if n[0] in kinds and (n[0] != "dataset" or ds_has_dispatch(n)):
            return True
    return False


def alt_case(scn, idx, o, spell, stats=None, model_agrees=True):
    """the oracle on the tree built through spelling `spell`, and on the shared bases it extended"""
    v = oracle_case(scn, idx, o, stats, model_agrees, spell=spell)
    if v is not None:
        return dict(v, desc=v["desc"] + f" [the tree built through another public spelling: {spelling_text(spell)}]",
                    **({"callable_kinds": list(built(scn, scn["exprs"][idx], spell)[1].used)} if spell >= KIND_SPELL0 else {}))
    _, b = built(scn, scn["exprs"][idx], spell)
    for be, bobj in getattr(b, "bases", [])[:3]:
        one = dict(scn, exprs=[be])
        v = oracle_case(one, 0, o, stats, model_agrees, got=outcome_of(lambda: bobj.evaluate(core.py_json(o))), spell=spell)
        if v is not None:
            return dict(v, base=repr(be), expr=repr(scn["exprs"][idx]),
                        scenario_repr=cp.dump_scn(dict(scn, exprs=[scn["exprs"][idx]], ops=[("evaluate", 0, False, False, o)])),
                        desc=v["desc"] + " [a case-when statement that was extended with .when() afterwards: the shared base itself "
                        "must stay what it was]")
    return None

_BUILT = {}


def built(scn, e, spell=0):
    """(object, builder) of expression e, built once per (scenario, expression, spelling)"""
    # the graph holds no cache and the user functions no state: one built object serves every dictionary
    key = (id(scn["ftable"]), id(scn["env"]), id(e), spell)
    if key not in _BUILT:
        if len(_BUILT) > 20000:
            _BUILT.clear()
        w_ = core.World(scn["ftable"])
        b = (Builder(w_, scn["env"]) if spell == 0 else KindBuilder(w_, scn["env"], spell - KIND_SPELL0) if spell >= KIND_SPELL0
             else AltBuilder(w_, scn["env"], spell))
        _BUILT[key] = (b.build(e), scn["ftable"], scn["env"], e, b)
    return _BUILT[key][0], _BUILT[key][4]


def outcome_of(thunk):
    try:
        return ("ok", canon(core.force(thunk())))
    except RecursionError:
        return ("fail", "fuel")
    except Exception as exc:  # noqa
        return ("fail", core.classify(exc)[0])


def impl_outcome(scn, e, o, spell=0):
    obj = built(scn, e, spell)[0]
    return outcome_of(lambda: obj.evaluate(core.py_json(o)))


# ---- where the eager reading applies

LAZY = ("iter", "map", "mapvalues")


def children(e):
    """(child expression, consumed_at_once) pairs of a node"""
    k = e[0]
    if k in ("value", "fnvalue", "dataset", "alloptions"):
        return []
    if k == "option":
        return [(x, False) for x in (e[2], e[3]) if x is not None]
    if k == "apply":
        return [(e[1], e[2][0] in ("fnvalue", "pstep", "pipe")), (e[2], False)]
    if k == "tolist":
        return [(e[1], True)]
    if k in ("bind", "switch"):
        return [(e[1], False)] + [(b, False) for _, b in e[2]] + ([(e[3], False)] if e[3] is not None else [])
    if k == "case":
        return [(e[1], False)] + [(x, False) for c, r in e[2] for x in (c, r)] + ([(e[3], False)] if e[3] is not None else [])
    if k in ("coalesce", "iter", "list", "tuple", "set"):
        return [(x, False) for x in e[1]]
    if k == "dict":
        return [(x, False) for _, x in e[1]]
    if k == "map":
        return [(e[1], False)] + [(x, True) for _, x in e[2]]
    if k == "mapvalues":
        return [(e[1], False)]
    if k == "with":
        return [(e[3], False)]
    if k == "cached":
        return [(e[2], False)]
    if k in ("call", "pstep"):
        return [(x, k == "call") for x in e[2]]
    if k == "pipe":
        return [(x, False) for x in e[1]]
    if k == "template":
        return [(x, False) for _, x in e[2]]
    if k in ("comp",):
        return [(e[1], False)] + [(x, False) for x in e[2]]
    if k == "logged":
        return [(e[1], False)]
    raise TypeError(e)


def residual_lazy(e, consumed=False):
    """does the value of e hold a lazily evaluated iterable that nobody consumes inside e"""
    if e[0] in LAZY and not consumed:
        return True
    return any(residual_lazy(c, cons) for c, cons in children(e))


def nodes(e):
    yield e
    for c, _ in children(e):
        yield from nodes(c)


def env_nodes(scn):
    for d in scn["env"].values():
        for x in [d.get("dispatch"), d.get("callback")] + list(d.get("kwargs", [])) + [b for _, b in d.get("overloads", [])]:
            if x is not None:
                yield from nodes(x)


def late_lazy(e, at_once=True):
    """is some generator consumed elsewhere than where it is made (root / list(...) / a Map iterable)"""
    if e[0] in LAZY and not at_once:
        return True
    return any(late_lazy(c, e[0] in ("tolist", "map") and cons) for c, cons in children(e))


def map_late_iterable(e):
    """a Map whose non-last iterable is a generator: labrea evaluates every iterable before
    itertools.product consumes the first, the model (Eval.map_rows) consumes each at once - the
    value is the same, but when two iterables fail a different failure surfaces"""
    return any(n[0] == "map" and any(residual_lazy(x) for _, x in n[2][:-1]) for n in nodes(e))


def cause_comparable(scn, e):
    """which failure surfaces first is fixed by the property only without coalesce (any member's
    failure may surface) and without generators consumed later than where they were made"""
    allnodes = list(nodes(e)) + list(env_nodes(scn))
    if any(n[0] == "pipe" and len(n[1]) > 1 for n in allnodes):
        return False    # Pipeline.evaluate evaluates the parameters of its steps last step first
    return not any(n[0] == "coalesce" for n in allnodes) and not late_lazy(e) and not map_late_iterable(e)


_LAST_WANT = [None, None, [], None]


def oracle_case(scn, idx, o, stats=None, model_agrees=True, got=None, spell=0):
    """None, or a violation dict for (expression idx, options o); `got`: the implementation's outcome when
    it was obtained elsewhere (an object with a history); `spell`: which public spelling builds the tree"""
    e = scn["exprs"][idx]
    key = (id(scn), id(e), id(o))
    if _LAST_WANT[0] == key:      # the same case judged again for another spelling: the eager computation is the same
        want, zone = _LAST_WANT[1], list(_LAST_WANT[2])
    else:
        zone = []
        try:
            want = ref_outcome(scn, e, o, zone)
        except OutOfProfile as x:
            want = None
        _LAST_WANT[:] = [key, want, list(zone), (scn, e, o)]
    if want is None:
        if stats is not None:
            stats["out_of_profile"] = stats.get("out_of_profile", 0) + 1
        return None
    if "undetermined" in zone:
        if stats is not None:
            stats["lazy_member_skipped"] = stats.get("lazy_member_skipped", 0) + 1
        return None
    got = impl_outcome(scn, e, o, spell) if got is None else got
    if stats is not None:
        stats["checked"] = stats.get("checked", 0) + 1
        stats[want[0]] = stats.get(want[0], 0) + 1
    bad = None
    if want[0] == "ok" and got != want:
        bad = "labrea does not yield the value of the eager computation"
    elif want[0] == "fail" and got[0] == "ok":
        bad = "the eager computation fails (no branch applies / a needed part cannot be evaluated) but labrea returns a value"
    elif want[0] == "fail" and cause_comparable(scn, e) and not want[1].startswith("any:") and want[1] != "fuel":
        if stats is not None:
            stats["cause_compared"] = stats.get("cause_compared", 0) + 1
        if got[1] != want[1]:
            bad = "labrea fails, but not with the failure of the eager computation"
    if bad is None:
        return None
    finding = None
    if "D23" in zone and model_agrees:
        # a coalesce member's bind function raised: labrea lets that exception through (its validate
        # is not wrapped) instead of passing the member over; the model reproduces it
        finding = "D23"
        if stats is not None:
            stats["tagged_D23"] = stats.get("tagged_D23", 0) + 1
    return dict(desc=f"evaluate: {bad}", expr=repr(e), options=repr(o), labrea=repr(got), eager=repr(want),
                expr_index=idx, finding=finding, spelling=spell,
                scenario_repr=cp.dump_scn(dict(scn, exprs=[e], ops=[("evaluate", 0, False, False, o)])))


# =============================================================================================
# scenario profiles
# =============================================================================================

# ---- exhaustive: every well-typed tree up to a size (number of nodes) over a small leaf set
F_TAG, F_BAD5, F_FIRST, P_EQ1, P_TRUTHY, F_DS1, F_DS2 = 100, 101, 102, 103, 104, 110, 111
E_FT = {F_TAG: ("tag",), F_BAD5: ("tag_raise_on", ("j", 5), 3), F_FIRST: ("first",), P_EQ1: ("eq", ("j", 1)),
        P_TRUTHY: ("truthy",), F_DS1: ("tag",), F_DS2: ("tag",)}
E_ENV = {
    # @dataset d1(a0=Option('A'))
    1: dict(fid=F_DS1, kwargs=[opt(K(A))], cache="none"),
    # overloaded on Option('B'): {1: 'one'}, default body d2(a0=Option('A', 2)); pre-set default option B=1 is NOT given
    2: dict(fid=F_DS2, kwargs=[opt(K(A), val(2))], dispatch=opt(K(B)), overloads=[(("j", 1), val(lit("o")))], cache="none"),
    # abstract, implementation 1 registered twice (the later registration wins), 'a' -> d1
    3: dict(fid=F_DS2, abstract=True, dispatch=opt(K(B)), cache="none",
            overloads=[(("j", 1), val(lit("x"))), (("j", lit("a")), ("dataset", 1)), (("j", 1), ("call", F_TAG, [opt(K(A))]))]),
    # pre-set options win over the caller's, default options lose; a callback post-processes the body's value
    4: dict(fid=F_DS1, kwargs=[opt(K(A)), opt(K(B)), opt(K(SEC, SX), val(0))], options={A: 9, SEC: {SX: 3}}, default_options={B: 8, A: 7},
            callback=("pstep", F_TAG, []), cache="none"),
    5: dict(derived=4, how="with_options", preset={B: 6}),
    6: dict(derived=4, how="with_default_options", preset={C: 1, B: 5}),
}
E_DICTS = [{}, {A: 1}, {A: 2, B: 1}, {A: 5, B: 2, LST: [1, 5]}, {B: 1, LST: []}, {A: True, B: lit("a"), LST: [2]}]


class Enum:
    """trees by exact size; kinds: any, disp (hashable scalar), fn (unary callable), pred, its (iterable)"""

    def __init__(self, rich):
        self.memo = {}
        self.leaf = {
            "any": [val(1), opt(K(A)), opt(K(B), val(2))] + ([("dataset", 1), ("dataset", 2)] if rich else [("dataset", 2)]),
            "disp": [opt(K(A)), opt(K(B), val(2))] + ([val(1)] if rich else []),
            "fn": [("fnvalue", F_TAG), ("fnvalue", F_BAD5)],
            "pred": [("fnvalue", P_EQ1), ("fnvalue", P_TRUTHY)],
            "its": [val([1, 2]), opt(K(LST))],
        }

    @staticmethod
    def splits(total, k):
        if k == 0:
            if total == 0:
                yield ()
            return
        if k == 1:
            if total >= 1:
                yield (total,)
            return
        for first in range(1, total - k + 2):
            for rest in Enum.splits(total - first, k - 1):
                yield (first,) + rest

    def prod(self, n, kinds):
        """all tuples of trees of the given kinds whose sizes sum to n"""
        for sizes in self.splits(n, len(kinds)):
            yield from itertools.product(*[self.trees(kd, s) for kd, s in zip(kinds, sizes)])

    def trees(self, kind, n):
        if (kind, n) in self.memo:
            return self.memo[(kind, n)]
        out = []
        if n == 1:
            out = list(self.leaf[kind])
        elif kind == "any":
            m = n - 1
            out += [("apply", x, f) for x, f in self.prod(m, ["any", "fn"])]
            out += [("bind", d, [(("j", 1), x)], None) for d, x in self.prod(m, ["disp", "any"])]
            out += [("bind", d, [(("j", 1), x)], y) for d, x, y in self.prod(m, ["disp", "any", "any"])]
            out += [("switch", d, [(("j", 1), x)], None) for d, x in self.prod(m, ["disp", "any"])]
            out += [("switch", d, [(("j", 1), x)], y) for d, x, y in self.prod(m, ["disp", "any", "any"])]
            out += [("switch", d, [(("j", 1), x), (("j", 2), y)], None) for d, x, y in self.prod(m, ["disp", "any", "any"])]
            out += [("switch", d, [(("j", 2), x), (("j", 1), y)], z) for d, x, y, z in self.prod(m, ["disp", "any", "any", "any"])]
            out += [("case", d, [(p, x)], None) for d, p, x in self.prod(m, ["disp", "pred", "any"])]
            out += [("case", d, [(p, x)], y) for d, p, x, y in self.prod(m, ["disp", "pred", "any", "any"])]
            out += [("case", d, [(p, x), (q, y)], None) for d, p, x, q, y in self.prod(m, ["disp", "pred", "any", "pred", "any"])]
            out += [("case", d, [(p, x), (q, y)], z) for d, p, x, q, y, z in self.prod(m, ["disp", "pred", "any", "pred", "any", "any"])]
            for k in (1, 2, 3):
                out += [("coalesce", list(xs)) for xs in self.prod(m, ["any"] * k)]
            for k in (0, 1, 2):
                out += [("list", list(xs)) for xs in self.prod(m, ["any"] * k)]
            for k in (1, 2):
                out += [("tuple", list(xs)) for xs in self.prod(m, ["any"] * k)]
                out += [("iter", list(xs)) for xs in self.prod(m, ["any"] * k)]
            out += [("dict", [(("j", lit("a")), x)]) for (x,) in self.prod(m, ["any"])]
            out += [("dict", [(("j", 2), x), (("j", 1), y)]) for x, y in self.prod(m, ["any", "any"])]
            out += [("tolist", ("map", x, [(K(A), i)])) for x, i in self.prod(m, ["any", "its"])]
            out += [("tolist", ("map", x, [(K(B), i), (K(A), j)])) for x, i, j in self.prod(m, ["any", "its", "its"])]
            out += [("map", x, [(K(B), i)]) for x, i in self.prod(m, ["any", "its"])]
            for k in (0, 1, 2):
                out += [("call", F_TAG, list(xs)) for xs in self.prod(m, ["any"] * k)]
            out += [("call", F_BAD5, [x]) for (x,) in self.prod(m, ["any"])]
        elif kind == "disp":
            m = n - 1
            out += [("coalesce", [x, y]) for x, y in self.prod(m, ["disp", "disp"])]
            out += [("switch", d, [(("j", 1), x)], y) for d, x, y in self.prod(m, ["disp", "disp", "disp"])]
            out += [("call", F_FIRST, [x]) for (x,) in self.prod(m, ["disp"])]
        elif kind == "fn":
            m = n - 1
            out += [("pstep", F_TAG, [x]) for (x,) in self.prod(m, ["any"])]
            out += [("pipe", [f, g]) for f, g in self.prod(m, ["fn", "fn"])]
        elif kind == "its":
            m = n - 1
            out += [("list", list(xs)) for xs in self.prod(m, ["disp", "disp"])]
            out += [("coalesce", [x, y]) for x, y in self.prod(m, ["its", "its"])]
            out += [("iter", [x]) for (x,) in self.prod(m, ["disp"])]
        self.memo[(kind, n)] = out
        return out


def enumerated(ctx, max_size, sample_size=None, n_sample=0, all_dicts_upto=None):
    """scenarios: every tree of size <= max_size (+ a random sample of the next size) x every
    dictionary of E_DICTS; above `all_dicts_upto` nodes each tree gets every other dictionary
    (alternating between trees) - the quick tier's economy"""
    en = Enum(rich=True)
    all_dicts_upto = max_size + 1 if all_dicts_upto is None else all_dicts_upto
    sized, by_size = [], {}
    for n in range(1, max_size + 1):
        t = en.trees("any", n)
        by_size[n] = len(t)
        sized += [(n, x) for x in t]
    if sample_size:
        t = en.trees("any", sample_size)
        by_size[f"{sample_size} (sampled of {len(t)})"] = min(n_sample, len(t))
        sized += [(sample_size, x) for x in ctx.rng.sample(t, min(n_sample, len(t)))]
    scns = []
    full = [x for n, x in sized if n <= all_dicts_upto]
    half = [x for n, x in sized if n > all_dicts_upto]
    for i in range(0, len(full), 4):
        chunk = full[i:i + 4]
        scns.append(dict(ftable=E_FT, env=E_ENV, exprs=chunk,
                         ops=[("evaluate", j, False, False, o) for j in range(len(chunk)) for o in E_DICTS]))
    for i in range(0, len(half), 8):
        chunk = half[i:i + 8]
        scns.append(dict(ftable=E_FT, env=E_ENV, exprs=chunk,
                         ops=[("evaluate", j, False, False, o) for j in range(len(chunk)) for o in E_DICTS[(i // 8 + j) % 2::2]]))
    return scns, by_size


def shapes():
    """every combinator at its full arity with leaf children (all combinations over the reduced leaf set)"""
    en = Enum(rich=False)
    any_, disp, fn, pred, its = (en.trees(k, 1) for k in ("any", "disp", "fn", "pred", "its"))
    P = itertools.product
    out = []
    out += [("case", d, [(p, x), (q, y)], z) for d, p, x, q, y, z in P(disp, pred, any_, pred, any_, any_)]
    out += [("case", d, [(p, x), (q, y)], None) for d, p, x, q, y in P(disp, pred, any_, pred, any_)]
    out += [("switch", d, [(("j", 2), x), (("j", 1), y)], z) for d, x, y, z in P(disp + [val(1)], any_, any_, any_)]
    out += [("bind", d, [(("j", 2), x), (("j", 1), y)], z) for d, x, y, z in P(disp, any_, any_, any_ + [None])]
    out += [("coalesce", list(xs)) for xs in P(any_, any_, any_)]
    out += [("tolist", ("map", x, [(K(B), i), (K(A), j)])) for x, i, j in P(any_, its + [val([2, 1])], its + [val([5])])]
    out += [("map", x, [(K(SEC, SX), i), (K(A), j)]) for x, i, j in P(any_ + [opt(K(SEC, SX)), opt(K(SEC, SY), val(0))], its, its)]
    out += [("call", F_TAG, list(xs)) for xs in P(any_, any_, any_)]
    out += [("dict", [(("j", 2), x), (("j", lit("a")), y), (("j", 1), z)]) for x, y, z in P(any_, any_, any_)]
    out += [(kd, list(xs)) for kd in ("list", "tuple", "iter") for xs in P(any_, any_, any_)]
    out += [("apply", x, ("pipe", [f, g])) for x, f, g in P(any_, fn + [("pstep", F_TAG, [opt(K(B))])], fn)]
    ds = [("dataset", i) for i in sorted(E_ENV)]
    out += ds
    out += [("tolist", ("map", d, [(K(A), val([1, 2])), (K(B), opt(K(LST)))])) for d in ds]
    out += [("coalesce", [d1, d2]) for d1, d2 in P(ds, ds)]
    out += [("switch", opt(K(B)), [(("j", 1), d1)], d2) for d1, d2 in P(ds, ds)]
    out += [("with", f, {A: 4, B: 1}, d) for f in (True, False) for d in ds]
    dicts = E_DICTS + [{SEC: {SX: 7, SY: 8}, A: 1, LST: [1]}]
    return [dict(ftable=E_FT, env=E_ENV, exprs=out[i:i + 4], ops=[("evaluate", j, False, False, o) for j in range(len(out[i:i + 4])) for o in dicts])
            for i in range(0, len(out), 4)]


# ---- extras known to labrea's API but with no value in the Coq model: set collection, Map.values
def extras(ctx):
    en = Enum(rich=False)
    out = []
    scal = en.trees("disp", 1) + en.trees("disp", 2) + [val(1), val(lit("a"))]
    for k in (0, 1, 2, 3):
        for xs in itertools.product(scal, repeat=k):
            out.append(("set", list(xs)))
    for x in en.trees("any", 1) + en.trees("any", 2) + en.trees("any", 3)[::7]:
        for its in ([(K(A), val([1, 2]))], [(K(B), opt(K(LST))), (K(A), val([2, 1]))]):
            out.append(("mapvalues", ("map", x, its)))
            out.append(("tolist", ("mapvalues", ("map", x, its))))
    return [dict(ftable=E_FT, env=E_ENV, exprs=out[i:i + 20], ops=[("evaluate", j, False, False, o) for j in range(len(out[i:i + 20])) for o in E_DICTS])
            for i in range(0, len(out), 20)]


# ---- Map over SEVERAL dotted keys that share a parent table (siblings; siblings under a nested
# parent; keys sharing only the outer parent), mixed with undotted keys and dotted keys with
# parents of their own.  "each evaluated with that assignment overriding the caller's options":
# ONE override dictionary carries ALL the assignments of the combination (Ref.ev, clause `map`:
# every key is set into the same nested dictionary), so every mapped key read by the element
# expression holds its assigned value - whatever the caller's dictionary has in that table.
S3 = 28                                       # a third leaf of section K20
D4, D5, P2, P3 = 26, 27, 31, 32               # K23.K24.K26, K23.K27; sections K31 / K32 of their own
SIB_GROUPS = [
    [K(SEC, SX), K(SEC, SY)],
    [K(SEC, SY), K(SEC, SX)],
    [K(SEC, SX), K(SEC, S3), K(SEC, SY)],
    [K(*gen.DEEP), K(gen.DEEP[0], gen.DEEP[1], D4)],            # siblings under a nested parent
    [K(gen.DEEP[0], D5), K(*gen.DEEP)],                         # share the outer parent only
    [K(gen.DEEP[0], gen.DEEP[1], D4), K(gen.DEEP[0], D5), K(*gen.DEEP)],
]
SIB_OTHERS = [K(A), K(B), K(P2, SX), K(P3, gen.DEEP[1], gen.DEEP[2])]   # undotted / distinct parents, same leaf names
SIB_VALUES = [1, 2, 3, 7, lit("a"), lit("b"), True, None]


def sib_dicts(rng, keys):
    """caller dictionaries for a Map over `keys`: empty; every mapped table present with OTHER values
    (and leaves the Map does not assign); tables present in part; empty / scalar parents; random"""
    def table(pick, value):
        o = {}
        for k in keys + SIB_OTHERS + [K(SEC, S3), K(gen.DEEP[0], D5)]:
            if not pick(k):
                continue
            cur = o
            for s in k[:-1]:
                if not isinstance(cur.get(s[1]), dict):
                    cur[s[1]] = {}
                cur = cur[s[1]]
            cur[k[-1][1]] = value(k)
        return o
    full = table(lambda k: True, lambda k: rng.choice([9, 8, lit("z"), False]))
    part = table(lambda k: rng.random() < 0.5, lambda k: rng.choice([9, 0, lit("z")]))
    hollow = {k[0][1]: rng.choice([{}, {}, 5]) for k in keys if len(k) > 1}
    out = [{}, full, part, hollow, gen.rand_options(rng, 0.0)]
    for o in out[1:]:
        if rng.random() < 0.7:
            o[LST] = rng.choice([[1, 2], [lit("a")], [], [2, 1, 7]])
    return out


def sib_read(rng, k):
    return opt(k) if rng.random() < 0.65 else opt(k, val(rng.choice([0, lit("d")])))


def sib_body(rng, keys, env):
    """an element expression that reads EVERY mapped key (and sometimes a leaf the Map leaves alone)"""
    reads = [sib_read(rng, k) for k in keys]
    if rng.random() < 0.3:
        reads.append(opt(rng.choice([K(SEC, S3), K(gen.DEEP[0], D5), K(C)]), val(lit("u"))))
    rng.shuffle(reads)
    shape = rng.randrange(8)
    if shape == 0:
        return ("call", F_TAG, reads)
    if shape == 1:
        return (rng.choice(["tuple", "list"]), reads)
    if shape == 2:
        return ("dict", [(("j", i + 1), r) for i, r in enumerate(reads)])
    if shape == 3:      # dispatch on one sibling, the branches read the others
        return ("switch", opt(keys[0]), [(("j", 1), ("call", F_TAG, reads)), (("j", lit("a")), ("tuple", reads[:-1]))],
                ("list", reads) if rng.random() < 0.7 else None)
    if shape == 4:
        return ("case", opt(keys[-1], val(1)), [(("fnvalue", P_EQ1), ("tuple", reads))], ("call", F_TAG, reads))
    if shape == 5:      # a dataset whose parameters are the mapped keys (plain / overloaded on a sibling / pre-set table)
        dsid = len(env) + 1
        d = dict(fid=F_DS1, kwargs=reads, cache="none")
        r = rng.random()
        if r < 0.3:
            d.update(dispatch=opt(keys[0]), overloads=[(("j", 2), ("call", F_TAG, reads[:1])), (("j", lit("b")), val(0))])
        elif r < 0.5:   # pre-set options win over the assignment, default options lose
            pre, dfl = {}, {}
            set_atoms(pre, rng.choice(keys), 6)
            set_atoms(dfl, rng.choice(keys), 4)
            d.update(options=pre, default_options=dfl)
        env[dsid] = d
        return ("dataset", dsid)
    if shape == 6:
        return ("coalesce", [reads[0], ("call", F_TAG, reads[1:])] if rng.random() < 0.5 else [("call", F_TAG, reads), val(0)])
    return ("apply", ("tuple", reads), ("fnvalue", F_TAG))


def set_atoms(d, key, v):
    for s in key[:-1]:
        d = d.setdefault(s[1], {})
    d[key[-1][1]] = v


def sib_iterable(rng, n):
    r = rng.random()
    if r < 0.7:
        return val(rng.sample(SIB_VALUES, n))
    if r < 0.85:
        return opt(K(LST), val(rng.sample(SIB_VALUES, n)))
    return ("list", [val(v) for v in rng.sample(SIB_VALUES, n)])


def sib_map(rng, env):
    keys = list(rng.choice(SIB_GROUPS))
    for k in rng.sample(SIB_OTHERS, rng.choice([0, 0, 1, 2])):
        keys.insert(rng.randint(0, len(keys)), k)
    sizes = [rng.choice([1, 2, 2, 3]) if len(keys) <= 2 else rng.choice([1, 1, 2]) for _ in keys]
    if rng.random() < 0.05:
        sizes[rng.randrange(len(sizes))] = 0
    its = [(k, sib_iterable(rng, n)) for k, n in zip(keys, sizes)]
    r = rng.random()
    if r < 0.15 and len(keys) >= 2:
        # nested: the outer Map assigns some of the keys, the inner one their siblings (the inner
        # assignment overrides the caller's options of the inner Map = the outer assignment applied)
        cut = rng.randint(1, len(keys) - 1)
        return keys, ("map", ("tolist", ("map", sib_body(rng, keys, env), its[cut:])), its[:cut])
    body = sib_body(rng, keys, env)
    if r < 0.3:         # defaults below the assignment (force=False) / pre-set above it (force=True)
        p = {}
        set_atoms(p, rng.choice(keys), 5)
        body = ("with", rng.random() < 0.4, p, body)
    return keys, ("map", body, its)


def sibling_scn(ctx, values=False):
    """values=True: the same family through Map.values (no value in the Coq model: oracle only)"""
    rng = ctx.rng
    env, exprs, allkeys = {}, [], []
    for _ in range(4):
        keys, m = sib_map(rng, env)
        allkeys += [k for k in keys if k not in allkeys]
        r = rng.random()
        if values:
            e = ("tolist", ("mapvalues", m)) if r < 0.6 else ("mapvalues", m)
        elif r < 0.55:
            e = ("tolist", m)
        elif r < 0.8:
            e = m
        else:           # the whole Map under pre-set / default options holding the parent table
            p = {}
            set_atoms(p, rng.choice(keys), 5)
            e = ("with", rng.random() < 0.5, p, ("tolist", m))
        exprs.append(e)
    dicts = sib_dicts(rng, allkeys)
    return dict(ftable=E_FT, env=env, exprs=exprs,
                ops=[("evaluate", j, False, False, o) for j in range(len(exprs)) for o in dicts])


def sibling_shapes():
    """fixed part of the family (no randomness): two / three sibling keys in both orders, the element
    reading all of them, over every pair of leaf iterables x dictionaries with and without the table"""
    en = Enum(rich=False)
    its = en.trees("its", 1) + [val([5, lit("a")])]
    x, y, z, u = K(SEC, SX), K(SEC, SY), K(SEC, S3), K(*gen.DEEP)
    w = K(gen.DEEP[0], gen.DEEP[1], D4)
    bodies = [("call", F_TAG, [opt(x), opt(y)]), ("tuple", [opt(y, val(0)), opt(x, val(0))])]
    out = []
    for b in bodies:
        for i, j in itertools.product(its, its):
            out.append(("tolist", ("map", b, [(x, i), (y, j)])))
            out.append(("tolist", ("map", b, [(y, i), (x, j)])))
    out.append(("map", ("call", F_TAG, [opt(z), opt(x), opt(y)]), [(x, val([1, 2])), (z, val([lit("a")])), (y, val([3, 4]))]))
    out.append(("tolist", ("map", ("tuple", [opt(u), opt(w), opt(K(A))]), [(u, val([1, 2])), (K(A), val([0])), (w, opt(K(LST)))])))
    out.append(("tolist", ("map", ("switch", opt(x), [(("j", 1), opt(y))], ("tuple", [opt(x), opt(y)])), [(x, val([1, 2])), (y, opt(K(LST)))])))
    out.append(("tolist", ("map", ("dataset", 1), [(y, val([1, 2])), (x, val([3]))])))
    env = {1: dict(fid=F_DS1, kwargs=[opt(x), opt(y), opt(z, val(0))], cache="none")}
    dicts = [{}, {LST: [1, 2]}, {SEC: {SX: 9, SY: 8, S3: 7}, LST: [2, 1]}, {SEC: {SX: 9}, gen.DEEP[0]: {gen.DEEP[1]: {gen.DEEP[2]: 9}}, LST: [5]},
             {SEC: {}, gen.DEEP[0]: {gen.DEEP[1]: {D4: 8, gen.DEEP[2]: 9}, D5: 6}, A: 4, LST: [lit("a"), 1]}]
    return [dict(ftable=E_FT, env=env, exprs=out[i:i + 4], ops=[("evaluate", j, False, False, o) for j in range(len(out[i:i + 4])) for o in dicts])
            for i in range(0, len(out), 4)]


# ---- random deeper trees (the general generator, restricted to the property's combinators)
def strip(e):
    """remove the nodes that are not this property's subject: caches (transparent: C01)"""
    if isinstance(e, tuple):
        if e and e[0] == "cached":
            return strip(e[2])
        return tuple(strip(x) for x in e)
    if isinstance(e, list):
        return [strip(x) for x in e]
    return e


def random_scn(ctx, depth, n_exprs=3):
    g = gen.Gen(ctx.rng, with_templates=False, with_domains=False, with_effects=False, with_alloptions=False,
                with_lists=True, preset_on_ds=0.25)
    s = g.scenario(n_exprs=n_exprs, depth=depth, n_ops=1, methods=("evaluate",))
    pool = g.dict_pool()
    env = {i: (dict(strip_env(d), cache="none") if d.get("derived") is None else d) for i, d in s["env"].items()}
    exprs = [strip(x) for x in s["exprs"]]
    ops = [("evaluate", j, False, False, o) for j in range(len(exprs)) for o in pool[:5]]
    return dict(ftable=s["ftable"], env=env, exprs=exprs, ops=ops)


def strip_env(d):
    out = dict(d)
    for k in ("dispatch", "callback"):
        if out.get(k) is not None:
            out[k] = strip(out[k])
    if "kwargs" in out:
        out["kwargs"] = [strip(x) for x in out["kwargs"]]
    if "overloads" in out:
        out["overloads"] = [(v, strip(x)) for v, x in out["overloads"]]
    return out


def lazy_scn(ctx):
    """generators handed out by coalesce members / nested in generators: correspondence only"""
    g = gen.Gen(ctx.rng, with_templates=False, with_domains=False, with_effects=False, with_presets=False, max_ds=1)
    g.scenario(n_exprs=0, depth=0, n_ops=0)
    rng = ctx.rng
    exprs = []
    for _ in range(4):
        body = strip(g.expr(2))
        lazy = rng.choice([("iter", [strip(g.expr(1)) for _ in range(rng.randint(1, 2))]),
                           ("map", body, [(K(A), rng.choice([val([1, 5]), opt(K(LST)), opt(K(LST), val([2]))]))]),
                           ("iter", [("iter", [strip(g.expr(1))]), strip(g.leaf())])])
        shape = rng.randrange(4)
        if shape == 0:
            exprs.append(("coalesce", [lazy, strip(g.expr(1))]))
        elif shape == 1:
            exprs.append(("coalesce", [strip(g.option()), lazy, val(0)]))
        elif shape == 2:
            exprs.append(("list", [("coalesce", [lazy, val(1)]), strip(g.leaf())]))
        else:
            exprs.append(("switch", opt(K(A), val(1)), [(("j", 1), lazy)], strip(g.leaf())))
    pool = g.dict_pool()
    env = {i: dict(strip_env(d), cache="none") for i, d in g.env.items()}
    return dict(ftable=dict(g.ftable), env=env, exprs=exprs,
                ops=[("evaluate", j, False, False, o) for j in range(len(exprs)) for o in pool[:4]])


# =============================================================================================
# datasets with a HISTORY: the public mutators (set_dispatch, register, overload, set_cache,
# add_effects / add_effect, disable_effects, enable_effects) and derivations (with_options,
# with_default_options) applied AFTER the dataset - and the expressions that refer to it - were
# evaluated (or validated / asked for keys / explained).  The eager computation an evaluation
# "corresponds to" is the one of the definition as it stands AT THAT EVALUATION: the reference
# follows the registration history.
# =============================================================================================
H_DICTS = [{}, {A: 1}, {A: 5, B: 1}, {A: 2, B: 2}, {A: 3, B: lit("a"), C: 1}, {B: 1}, {A: 1, B: lit("b"), C: 2},
           {A: 4, C: lit("a")}, {A: 6, B: 2, C: 1}]
H_ALIASES = [1, 2, lit("a"), lit("b")]


def gen_history(rng):
    d1 = dict(fid=F_DS1, kwargs=[opt(K(A), val(0)) if rng.random() < 0.5 else opt(K(A))], cache="none")
    if rng.random() < 0.3:
        d1["abstract"] = True
    if rng.random() < 0.25:
        d1["dispatch"] = opt(K(B))
        if rng.random() < 0.5:
            d1["overloads"] = [(("j", 1), val(lit("o")))]
    if rng.random() < 0.2:
        d1["callback"] = ("pstep", F_TAG, [])
    if rng.random() < 0.2:
        d1["options"] = {C: 1}
    env = {1: d1,
           2: dict(fid=F_DS2, kwargs=[("dataset", 1)], cache="none"),            # a dataset that takes it as an argument
           3: dict(fid=F_DS2, kwargs=[opt(K(A), val(7))], cache="none")}
    exprs = [("dataset", 1),
             ("switch", opt(K(C), val(1)), [(("j", 1), ("dataset", 1))], val(0)),
             ("dataset", 2),
             ("coalesce", [("dataset", 1), val(lit("n"))]),
             ("tolist", ("map", ("dataset", 1), [(K(B), val([1, 2]))]))]
    steps = []
    has_dispatch = d1.get("dispatch") is not None

    def evals(k):
        for _ in range(k):
            steps.append(("eval", rng.randrange(len(exprs)), rng.choice(H_DICTS)))
    # the first use, before any mutator
    first = rng.choice(["evaluate", "evaluate", "validate", "keys", "explain"])
    if first == "evaluate":
        evals(rng.randint(1, 2))
    else:
        steps.append(("touch", first, rng.randrange(len(exprs)), rng.choice(H_DICTS)))
    for _ in range(rng.randint(2, 5)):
        r = rng.random()
        if r < 0.3:
            steps.append(("set_dispatch", rng.choice([opt(K(B)), opt(K(B), val(1)), opt(K(C)), ("coalesce", [opt(K(B)), val(2)])])))
            has_dispatch = True
        elif r < 0.6 or (r < 0.75 and not has_dispatch):
            impl = rng.choice([val(lit("o")), ("call", F_TAG, [opt(K(A))]), opt(K(A), val(0)), ("dataset", 3),
                               ("switch", opt(K(A)), [(("j", 1), val(lit("one")))], val(lit("other")))])
            steps.append(("register", rng.choice(H_ALIASES), impl))
        elif r < 0.75:
            n = 10 + len(steps)
            env[n] = dict(fid=F_DS2, kwargs=[opt(K(A), val(n))], cache="none")
            steps.append(("overload", rng.sample(H_ALIASES, rng.choice([1, 1, 2])), n))
        elif r < 0.85:
            steps.append((rng.choice(["set_cache", "add_effects", "add_effect", "disable_effects", "enable_effects"]),))
        else:
            p = {rng.choice([A, B, C]): rng.choice([1, 2, lit("a")])}
            steps.append(("derive", rng.choice(["with_options", "with_default_options"]), p, rng.choice(H_DICTS)))
        if rng.random() < 0.7:
            evals(rng.randint(1, 2))
    for o in rng.sample(H_DICTS, 4):
        steps.append(("eval", 0, o))
        steps.append(("eval", rng.randrange(1, len(exprs)), o))
    return dict(ftable=E_FT, env=env, exprs=exprs, steps=steps)


def run_history(h):
    """apply the steps to ONE long-lived object graph; per evaluation: (step index, the definition as it stands
    (a scenario), the implementation's outcome, its result line)"""
    import copy
    from labrea.cache import NoCache
    w = core.World(h["ftable"])
    b = Builder(w, copy.deepcopy(h["env"]))
    objs = [b.build(e) for e in h["exprs"]]
    ds = b.dataset(1)
    cur = copy.deepcopy(h["env"])
    out = []

    def record(si, e, obj, o, env):
        try:
            raw = core.force(obj.evaluate(core.py_json(o)))
            got, line = ("ok", canon(raw)), "ok:" + core.show(raw)
        except RecursionError:
            got, line = ("fail", "fuel"), "err:fuel:F"
        except Exception as exc:  # noqa
            c, ee = core.classify(exc)
            got, line = ("fail", c), f"err:{c}:{'T' if ee else 'F'}"
        scn = dict(ftable=h["ftable"], env=copy.deepcopy(env), exprs=[e], ops=[("evaluate", 0, False, False, o)])
        out.append((si, scn, got, core.canon_names(line + "|")))
    for si, st in enumerate(h["steps"]):
        k = st[0]
        if k == "eval":
            record(si, h["exprs"][st[1]], objs[st[1]], st[2], cur)
        elif k == "touch":
            try:
                getattr(objs[st[2]], st[1])(core.py_json(st[3]))
            except Exception:  # noqa
                pass
        elif k == "set_dispatch":
            ds.set_dispatch(b.build(st[1]))
            cur[1]["dispatch"] = st[1]
        elif k == "register":
            ds.register(core.py_value(("j", st[1])), b.build(st[2]))
            cur[1]["overloads"] = list(cur[1].get("overloads", [])) + [(("j", st[1]), st[2])]
        elif k == "overload":
            aliases = [core.py_value(("j", a)) for a in st[1]]
            if cur[1].get("dispatch") is not None:       # the decorator requires a dispatch
                ds.overload(aliases if len(aliases) > 1 else aliases[0])(b.dataset(st[2]))
                cur[1]["overloads"] = list(cur[1].get("overloads", [])) + [(("j", a), ("dataset", st[2])) for a in st[1]]
        elif k == "set_cache":
            ds.set_cache(NoCache())                       # caches are outside this property's profile (C01)
        elif k in ("add_effects", "add_effect"):
            getattr(ds, k)(lambda value: None)            # an effect does not change the value
        elif k == "disable_effects":
            ds.disable_effects()
        elif k == "enable_effects":
            ds.enable_effects()
        elif k == "derive":
            env = copy.deepcopy(cur)
            env[99] = dict(derived=1, how=st[1], preset=st[2])
            obj = getattr(ds, st[1])(core.py_json(st[2]))
            record(si, ("dataset", 99), obj, st[3], env)
        else:
            raise AssertionError(st)
    return out


def history_oracle(h, stats=None):
    """(first violation or None, the per-evaluation records)"""
    recs = run_history(h)
    for si, scn, got, line in recs:
        v = oracle_case(scn, 0, scn["ops"][0][4], stats, got=got)
        if v is not None:
            return dict(v, desc=v["desc"] + f" [a dataset with a history: at step {si} of the history, after "
                                            f"{[st[0] for st in h['steps'][:si] if st[0] not in ('eval',)]}]",
                        history_repr=repr(dict(h, steps=h["steps"][:si + 1])), failing_step=si), recs
    return None, recs


# =============================================================================================
# model vs implementation (both Coq computations) and the run
# =============================================================================================

def coq_case(scn):
    pr = core.CoqPrinter(scn["env"])
    es = "[" + "; ".join(pr.expr(e) for e in scn["exprs"]) + "]"
    ops = "[" + "; ".join(
        "{| op_meth := MEval; op_expr := %d%%nat; op_cfg := {| cache_ctx_off := false; log_ctx_off := false |}; op_opts := %s |}"
        % (i, core.coq_dict(o)) for (_, i, _, _, o) in scn["ops"]) + "]"
    return (f"let t := {core.coq_ftable(scn['ftable'])} in let es := {es} in let ops := {ops} in "
            f"run_scenario t es ops ++ \" @@ \" ++ c05_sem_lines t es ops")


PACK_CHARS = 14000


def three_way(ctx, scns, name, given=None):
    """`given`: id(scenario) -> implementation lines obtained elsewhere (an object with a history: the
    scenario is the definition as it stands at that point); their results are compared, not their events"""
    given = given or {}
    impls = [given[id(s)] if id(s) in given else core.run_impl(s) for s in scns]
    # one generated file per pack of scenarios; packs are cut by the size of the expected output
    # (a vm_compute result string of more than ~30 KB overflows coqc's stack when read back)
    packs, cur, size = [], [], 0
    for i, il in enumerate(impls):
        est = int(2.2 * sum(len(l) + 4 for l in il))
        if cur and size + est > PACK_CHARS:
            packs.append(cur)
            cur, size = [], 0
        cur.append(i)
        size += est
    if cur:
        packs.append(cur)
    exprs = ["String.concat \" %% \" [" + "; ".join("(" + coq_case(scns[i]) + ")" for i in pk) + "]" for pk in packs]
    packed = ctx.coq_eval(name, REQ, PRELUDE, exprs, shard=1)
    outs = [None] * len(scns)
    for pk, line in zip(packs, packed):
        parts = line.split(" %% ")
        if len(parts) != len(pk):
            raise RuntimeError("pack/scenario count mismatch in the model's output")
        for i, part in zip(pk, parts):
            outs[i] = part
    mism = []
    stats = dict(ops=0, ok=0, err=0, unmodelled=0, by_cause={}, results_only_ops=0, disagreeing=set())
    for s, il, out in zip(scns, impls, outs):
        run_part, _, sem_part = out.partition(" @@ ")
        ml, sl = run_part.split(" ## "), sem_part.split(" ## ")
        if not (len(ml) == len(il) == len(sl)):
            mism.append(dict(where="line count", scenario_repr=cp.dump_scn(s)))
            stats["disagreeing"].add(id(s))
            continue
        for oi, (op, a, b, c) in enumerate(zip(s["ops"], il, ml, sl)):
            stats["ops"] += 1
            res = cp.split(a)[0]
            if res.startswith("ok"):
                stats["ok"] += 1
            else:
                stats["err"] += 1
                cz = res.split(":")[1].split("(")[0]
                stats["by_cause"][cz] = stats["by_cause"].get(cz, 0) + 1
            if "unmod" in b or "unmod" in c:
                stats["unmodelled"] += 1
            if late_lazy(s["exprs"][op[1]]) or id(s) in given:
                stats["results_only_ops"] += 1
                ok_eval = cp.same(res + "|", cp.split(b)[0] + "|", False)
            else:
                ok_eval = cp.same(a, b, False)
            ok_sem = cp.same(res + "|", c + "|", False)
            if not (ok_eval and ok_sem) and res.startswith("err:") and b.startswith("err:") and c.startswith("err:") \
                    and map_late_iterable(s["exprs"][op[1]]):
                stats["map_late_iterable_tolerated"] = stats.get("map_late_iterable_tolerated", 0) + 1
                ok_eval = ok_sem = True
            if not (ok_eval and ok_sem) and res.startswith("err:") and b.startswith("err:") and c.startswith("err:") \
                    and late_lazy(s["exprs"][op[1]]):
                # a generator handed out by a coalesce member / held in a collection is consumed later than it is made:
                # when it AND a sibling fail, labrea and the model (which forces an element when it stores it) surface
                # different failures; the property fixes no order there (cause_comparable) - all three fail, tolerated
                stats["late_lazy_failure_order_tolerated"] = stats.get("late_lazy_failure_order_tolerated", 0) + 1
                ok_eval = ok_sem = True
            if not (ok_eval and ok_sem):
                one = dict(s, exprs=[s["exprs"][op[1]]], ops=[("evaluate", 0, False, False, op[4])])
                stats["disagreeing"].add(id(s))
                mism.append(dict(where=("Model/Eval.v (eval) vs labrea" if not ok_eval else "Model/Spec.v (sem) vs labrea"),
                                 expr=repr(s["exprs"][op[1]]), options=repr(op[4]), impl=a, model=cp.strip_ghost(b), sem=c,
                                 scenario_repr=cp.dump_scn(one)))
                break
    return impls, mism, stats


def fixed_corpus():
    """scenarios of repaired defects that concern evaluation results (they must pass): D8, the
    callback of a dataset derived by with_options / with_default_options (fix 3f28b1e)"""
    out = []
    for name in ("D8",):
        s0 = FIXED[name]["scn"]
        env = {i: (dict(strip_env(d), cache="none") if d.get("derived") is None else d) for i, d in s0["env"].items()}
        out.append(dict(ftable=s0["ftable"], env=env, exprs=[strip(x) for x in s0["exprs"]],
                        ops=[("evaluate", op[1], False, False, op[4]) for op in s0["ops"] if op[0] == "evaluate"]))
    return out


def run(ctx):
    q = ctx.quick
    rng = ctx.rng
    corpus = [s for _, s in corpus_for(PID)] + fixed_corpus()
    enum_scns, by_size = enumerated(ctx, 4 if q else 5, sample_size=5 if q else 6, n_sample=800 if q else 5000,
                                    all_dicts_upto=3 if q else 4)
    rand_scns = [random_scn(ctx, depth=rng.choice([3, 4, 5, 6, 8])) for _ in range(150 if q else 2500)]
    lazy_scns = [lazy_scn(ctx) for _ in range(40 if q else 400)]
    extra_scns = extras(ctx)
    shape_scns = shapes()
    # drawn after every older stream, so that those stay what they were for a given seed
    sib_scns = sibling_shapes() + [sibling_scn(ctx) for _ in range(60 if q else 600)]
    extra_scns = extra_scns + [sibling_scn(ctx, values=True) for _ in range(12 if q else 120)]
    groups = [("corpus", corpus), ("enumerated", enum_scns), ("shapes", shape_scns), ("random", rand_scns), ("lazy", lazy_scns),
              ("map_sibling_keys", sib_scns)]
    # datasets with a history (drawn after every older stream): every evaluation is one scenario = the definition
    # as it stands at that point; the implementation's line comes from the long-lived object
    histories = [gen_history(rng) for _ in range(60 if q else 600)]
    violations, hstats, given, hist_scns = [], {}, {}, []
    import time
    t_h = time.time()
    for h in histories:
        v, recs = history_oracle(h, hstats)
        if v is not None:
            violations.append(dict(v, group="dataset_history"))
        for si, scn, got, line in recs:
            given[id(scn)] = [line]
            hist_scns.append(scn)
    lib.log(f"[C05] dataset histories: {len(histories)} histories, {len(hist_scns)} evaluations, {time.time() - t_h:.1f}s")
    groups_h = groups + [("dataset_history", hist_scns)]
    modelled = [s for _, g in groups_h for s in g]
    import time
    t0 = time.time()
    impls, mism, cstats = three_way(ctx, modelled, "Cases_C05", given=given)
    lib.log(f"[C05] model/sem vs implementation: {cstats['ops']} ops, {len(mism)} mismatches, {time.time() - t0:.1f}s")
    t0 = time.time()
    disagreeing = cstats.pop("disagreeing")

    ostats, distinct, kinds = {"dataset_history": hstats}, set(), {}
    samples = []
    alt_st, kind_st = {}, {}
    n_alt, t_alt, n_kind, t_kind = 0, 0.0, 0, 0.0
    for gname, g in groups + [("extras", extra_scns)]:
        st = {}
        for si_, s in enumerate(g):
            applies = {}
            for oi_, (_, i, _, _, o) in enumerate(s["ops"]):
                v = oracle_case(s, i, o, st, model_agrees=id(s) not in disagreeing)
                e = s["exprs"][i]
                if e[0] not in ("value", "option", "dataset"):
                    distinct.add(lib.stable_hash([repr(e), repr(o), repr(s["env"]) if gname in ("random", "lazy", "map_sibling_keys") else ""]))
                    kinds[e[0]] = kinds.get(e[0], 0) + 1
                if v is not None:
                    violations.append(dict(v, group=gname))
                # the same tree through another public spelling (one spelling per case, rotating; the large enumerated group:
                # every third case in the quick tier)
                if gname in ("lazy", "extras"):
                    continue
                # the same tree with every user-supplied callable of another kind (one rotation per expression: the
                # built graph serves all its dictionaries; the large enumerated group: every third case in the quick tier)
                if not (q and gname == "enumerated" and (si_ + oi_) % 3 != 1):
                    if (i, "kind") not in applies:
                        applies[(i, "kind")] = kind_applies(s, e)
                    if applies[(i, "kind")]:
                        n_kind += 1
                        t_a = time.time()
                        v = alt_case(s, i, o, KIND_SPELL0 + (si_ * 7 + i) % N_KIND_SPELLS, kind_st, model_agrees=id(s) not in disagreeing)
                        t_kind += time.time() - t_a
                        if v is not None:
                            violations.append(dict(v, group=gname + "/callable kinds"))
                if q and gname == "enumerated" and (si_ + oi_) % 3:
                    continue
                spell = 1 + (si_ + i + oi_) % 3
                if (i, spell) not in applies:
                    applies[(i, spell)] = alt_applies(s, e, spell)
                if applies[(i, spell)]:
                    n_alt += 1
                    t_a = time.time()
                    v = alt_case(s, i, o, spell, alt_st, model_agrees=id(s) not in disagreeing)
                    t_alt += time.time() - t_a
                    if v is not None:
                        violations.append(dict(v, group=gname + "/other spelling"))
        ostats[gname] = st
    ostats["other_spellings"] = alt_st
    ostats["callable_kinds"] = kind_st
    for s in (enum_scns[len(enum_scns) // 2], shape_scns[0], rand_scns[0]):
        i, o = s["ops"][0][1], s["ops"][0][4]
        samples.append(dict(expr=repr(s["exprs"][i])[:300], options=repr(o), labrea=repr(impl_outcome(s, s["exprs"][i], o))[:200],
                            eager=repr(ref_outcome(s, s["exprs"][i], o))[:200]))
    checked = sum(st.get("checked", 0) for st in ostats.values())
    cstats["dataset_history_ops_results_only"] = len(hist_scns)
    lib.log(f"[C05] eager reference vs implementation: {checked} cases, {len(violations)} failures, {time.time() - t0:.1f}s "
            f"(of which other spellings: {n_alt} cases, {t_alt:.1f}s; callable kinds: {n_kind} cases, {t_kind:.1f}s)")
    return {
        "evaluations": cstats["ops"] + checked,
        "distinct_nontrivial": len(distinct),
        "rule": "case = (expression tree, options dictionary); non-trivial = the root is a combinator of the property (not a bare "
                "leaf); distinct by hash of (tree, dictionary, datasets). Enumerated: EVERY well-typed tree of size <= "
                f"{4 if q else 5} nodes (and a random sample of size {5 if q else 6}) over the leaf set {{1, Option A, Option(B, 2), two datasets "
                "(plain, overloaded)}} with typed positions (dispatch: hashable scalars; functions; predicates; iterables) x 6 dictionaries "
                "(quick tier: trees of more than 3 nodes get every other dictionary, alternating); shapes: every combinator at its full "
                "arity (two-case case-when with default, three-member coalesce, two-iterable Map, ...) with all combinations of leaf "
                "children, and six datasets (overloaded, re-registered implementation, pre-set/default options, callback, derived) "
                "under Map / coalesce / switch / WithOptions x 7 dictionaries; "
                "random: trees of depth 3..8 from the general generator restricted to the property's combinators x 5 adversarial "
                "dictionaries; lazy: generators handed out by coalesce members (model comparison only); map_sibling_keys: Map over "
                "2-5 keys of which several are dotted keys sharing a parent table (siblings, siblings under a nested parent, keys sharing "
                "only the outer parent; both orders; mixed with undotted keys and dotted keys with parents of their own), the element "
                "expression (call / collections / switch / case / coalesce / dataset with parameters, overloads, pre-set tables / "
                "WithOptions / a nested Map) reading every mapped key, x 5 caller dictionaries (empty, every table present with other "
                "values, tables present in part, empty or scalar parents, random); extras: set collection and Map.values (oracle "
                "only; the sibling-key family through Map.values too); "
                "dataset_history: long-lived object graphs (a dataset, plain / abstract / overloaded / with callback or pre-set options, used "
                "directly, as a switch branch, as another dataset's argument, as a coalesce member, under a Map) first evaluated / validated / "
                "asked for keys / explained, then 2-5 public mutators (set_dispatch, register, overload([aliases]), set_cache, add_effects, "
                "add_effect, disable_effects, enable_effects) and derivations (with_options / with_default_options, evaluated at once) "
                "interleaved with evaluations: each evaluation is compared with the eager computation (and the Coq model and sem) of the "
                "definition as it stands at that evaluation; other spellings: the trees of the corpus / enumerated / shapes / random / "
                "sibling groups built through the other public spellings of each combinator (case-when: default first, default in the "
                "middle, CaseWhen(...); the shared bases that were extended are evaluated too; switch: Switch(...), Overloaded(...), "
                "Overloaded + register; coalesce(); >>; p += step, right-nested +; WithDefaultOptions; datasets: set_dispatch / register / "
                "overload after the definition, in both orders); callable kinds: the same groups built with every user-supplied callable of "
                "another kind (def / lambda / instance with __call__ / bound method / classmethod / staticmethod / class / functools.partial) and "
                "its argument expressions declared through another kind of parameter (keyword-only, mixed, supplied through defaults= / where() / "
                "lift(**kwargs) incl. **kwargs, bound or made keyword-only by a functools.partial, behind a positional-only input): dataset "
                "definitions, overload decorator, FunctionApplication.lift, pipeline steps; predicates, applied functions, callbacks and steps "
                "handed over as bare callables (one of 40 rotations per expression, all its dictionaries)",
        "samples": samples,
        "traces_validated_against_impl": cstats["ops"],
        "correspondence_mismatches": mism[:5],
        "violations": violations,
        "known": known_witnesses(),
        "distribution": dict(correspondence=cstats, oracle=ostats, enumerated_trees_by_size=by_size, root_kinds=kinds,
                             scenarios={n: len(g) for n, g in groups + [("extras", extra_scns)]},
                             dataset_histories=len(histories), dataset_history_evaluations=len(hist_scns), other_spelling_cases=n_alt,
                             callable_kind_cases=n_kind),
        "exhaustive": True,
        "assumptions": ["user functions are deterministic and consume (force) their arguments",
                        "dispatch values are hashable; dictionary/switch keys pairwise distinct under ==; no templated option values "
                        "(C09), no Option domains (C04), no caches (C01/D21), no effects (C06) in this profile",
                        "Iter/Map are generators: where a coalesce member hands out an unconsumed generator the eager reading does not "
                        "apply and only model-vs-implementation is compared; which of several failures surfaces is compared only "
                        "for trees without coalesce and without late-consumed generators"],
        "trusted_base": ["the set collection and Map.values have no value in the Coq model: compared with the Python reference only",
                         "core.classify (failure classes) and core.World (the scenario's user functions) are shared by implementation "
                         "runner and reference"],
    }


D23_WITNESS = dict(ftable={}, env={}, exprs=[("coalesce", [("bind", opt(K(B)), [(("j", 1), val(0))], None), opt(K(A))])],
                   ops=[("evaluate", 0, False, False, {A: 1, B: 2})])


def known_witnesses():
    v = oracle_case(D23_WITNESS, 0, D23_WITNESS["ops"][0][4])
    return [dict(id="D23", still_fails=bool(v and v.get("finding") == "D23"),
                 what="Coalesce(Option('B').bind(f), Option('A')) on {'A': 1, 'B': 2}, f raising for 2: raises instead of yielding 1")]


def replay(ctx, payload):
    if "history_repr" in payload:
        h = cp.load_scn(payload["history_repr"])
        v, recs = history_oracle(h)
        given = {id(scn): [line] for _, scn, _, line in recs}
        _, mism, _ = three_way(ctx, [scn for _, scn, _, _ in recs], "Replay_C05", given=given)
        return v is not None or bool(mism), dict(oracle=v, mismatches=mism[:2], steps=[repr(st) for st in h["steps"]])
    if payload.get("spelling"):
        scn = cp.load_scn(payload["scenario_repr"])
        v = alt_case(scn, 0, scn["ops"][0][4], payload["spelling"])
        return v is not None, dict(oracle=v, spelling=spelling_text(payload["spelling"]))
    reprs = [payload["scenario_repr"]] if "scenario_repr" in payload else [
        b["scenario_repr"] for b in payload.get("broken", []) if isinstance(b, dict) and "scenario_repr" in b]
    if not reprs:
        return True, dict(note="no scenario in the payload (a broken build / proof obligation): re-run the check")
    still, detail = False, []
    for text in reprs:
        scn = cp.load_scn(text)
        d = {}
        v = oracle_case(scn, 0, scn["ops"][0][4])
        d["oracle"] = v
        bad = v is not None
        if not any(n[0] in ("set", "mapvalues") for e in scn["exprs"] for n in nodes(e)):
            impls, mism, _ = three_way(ctx, [scn], "Replay_C05")
            d["impl"], d["mismatches"] = impls[0], mism
            bad = bad or bool(mism)
        still = still or bad
        detail.append(d)
    return still, dict(cases=detail)
