"""C08 - pre-set options override, defaults yield, sections merge; inputs never mutated."""
import collections
import collections.abc
import copy
import functools

import coreprop as cp
import core
import gen
import lib
from witnesses import corpus_for

PID = "C08"
COQ_TARGETS = cp.COQ_TARGETS


def overlay(base, top):
    """the property's 'base overlaid by top' (top wins, nested sections merged key by key),
    written independently of confectioner.mix"""
    out = dict(base)
    for k, v in top.items():
        if isinstance(v, dict):
            out[k] = overlay(out[k] if isinstance(out.get(k), dict) else {}, v)
        else:
            out[k] = v
    return out


def retag(p):
    """same shape, every leaf replaced by a value no generator produces elsewhere"""
    return {k: (retag(v) if isinstance(v, dict) else 77) for k, v in p.items()}


def leaf_keys(d, prefix=()):
    out = []
    for k, v in d.items():
        if isinstance(v, dict) and v:
            out += leaf_keys(v, prefix + (k,))
        else:
            out.append(prefix + (k,))
    return out


def plain(d):
    """the same dataset definition without pre-set / default options"""
    return {k: v for k, v in d.items() if k not in ("options", "default_options")}


def cases(rng):
    """(scenario, description of the equivalent plain evaluation) pairs"""
    g = gen.Gen(rng, with_presets=False, with_effects=True, with_alloptions=False, max_ds=3)
    base = g.scenario(n_exprs=1, depth=2, n_ops=0)
    pool = g.dict_pool()
    out = []
    x = base["exprs"][0]
    # 1. wrapper combinators, nested up to depth 3
    ws = [(rng.random() < 0.5, gen.rand_preset(rng)) for _ in range(rng.randint(1, 3))]
    wrapped = x
    for f, p in reversed(ws):
        wrapped = ("with", f, p, wrapped)
    for o in rng.sample(pool, min(3, len(pool))):
        eff = o
        for f, p in ws:
            eff = overlay(eff, p) if f else overlay(p, eff)
        out.append(dict(kind="wrappers depth %d" % len(ws), scn=dict(base, exprs=[wrapped, x]), o=o, eff=eff, lhs=0, rhs=1))
    # 2. dataset decorator options / default_options and derivatives
    dsids = [i for i, d in base["env"].items() if d.get("derived") is None]
    if dsids:
        i = rng.choice(dsids)
        P, D, P2 = gen.rand_preset(rng), gen.rand_preset(rng), gen.rand_preset(rng)
        env = dict(base["env"])
        n = max(env) + 1
        env[n] = dict(env[i], options=P, default_options=D)          # decorated with presets
        leaves = leaf_keys(overlay(overlay(D, P), P2))
        if leaves and rng.random() < 0.5:
            # an effect whose callback reads an option that (possibly only) a pre-set / default layer supplies:
            # evaluate AND validate must see it through the layers (the plain copy below gets the same effect)
            fid = max(list(base["ftable"]) + [199]) + 1
            base = dict(base, ftable={**base["ftable"], fid: ("tag",)})
            eff = ("pstep", fid, [("option", gen.K(*rng.choice(leaves)), None, None)])
            env[n] = dict(env[n], effects=list(env[n].get("effects") or []) + [eff])
        env[n + 1] = dict(derived=n, how="with_options", preset=P2)
        env[n + 2] = dict(derived=n, how="with_default_options", preset=P2)
        env[n + 3] = dict(plain(env[n]))                               # plain copy (own cache), same body / callback / effects
        P3 = retag(P2)                                                  # same keys as P2, other values
        env[n + 4] = dict(derived=n, how="with_default_options", preset=P3)
        env[n + 5] = dict(derived=n, how="with_options", preset=P3)
        scn = dict(base, env=env, exprs=[("dataset", n), ("dataset", n + 1), ("dataset", n + 2), ("dataset", n + 3),
                                         ("dataset", n + 4), ("dataset", n + 5)])
        # siblings derived from one dataset share its cache: evaluated one after the other on ONE long-lived
        # graph under the same caller options, each must still see its own layer
        for o in rng.sample(pool, min(2, len(pool))):
            seq = [(2, overlay(overlay(overlay(D, P2), o), P)), (4, overlay(overlay(overlay(D, P3), o), P)),
                   (0, overlay(overlay(D, o), P)), (1, overlay(overlay(D, o), overlay(P, P2))),
                   (5, overlay(overlay(D, o), overlay(P, P3))), (2, overlay(overlay(overlay(D, P2), o), P))]
            rng.shuffle(seq)
            out.append(dict(kind="siblings sharing one cache (history)", scn=scn, o=o, seq=seq, rhs=3))
        for o in rng.sample(pool, min(3, len(pool))):
            out.append(dict(kind="dataset options/default_options", scn=scn, o=o, eff=overlay(overlay(D, o), P), lhs=0, rhs=3))
            out.append(dict(kind="with_options derivative", scn=scn, o=o, eff=overlay(overlay(D, o), overlay(P, P2)), lhs=1, rhs=3))
            out.append(dict(kind="with_default_options derivative", scn=scn, o=o, eff=overlay(overlay(overlay(D, P2), o), P), lhs=2, rhs=3))
    return out, base, pool


def run(ctx):
    rng = ctx.rng
    n = 120 if ctx.quick else 1500
    violations, checks, kinds, distinct, tagged = [], 0, {}, set(), {}
    corr_scns = [s for _, s in corpus_for(PID)]
    for _ in range(n):
        cs, base, pool = cases(rng)
        for c in cs:
            scn = c["scn"]
            if c["kind"].startswith("wrappers") and c is cs[0]:
                seqd = [x["o"] for x in cs if x["kind"] == c["kind"]] + [c["o"]]
                checks += len(seqd)
                for v in same_dict_object_check(scn, c["lhs"], seqd):
                    # the wrapper is long-lived, so datasets below it keep their caches across the calls: inside the zone
                    # of a recorded stale-entry finding the difference is that finding, not the wrapper's
                    hscn = dict(scn, ops=[(m, c["lhs"], False, False, o2) for o2 in seqd[:v["call"] + 1] for m in ("evaluate", "validate")])
                    ml = ctx.coq_eval(f"Zone_C08_sd_{checks}", cp.REQ, "", [core.coq_scenario(hscn)])[0].split(" ## ")
                    if any(cp.is_dirty(x) for x in ml) and cp.agrees(core.run_impl(hscn), ml, hscn):
                        v["finding"] = cp.zone_of(hscn)
                        tagged[v["finding"]] = tagged.get(v["finding"], 0) + 1
                    violations.append(v)
            if "seq" in c:
                raws = []
                lines = core.run_impl(dict(scn, ops=[("evaluate", i, False, False, c["o"]) for i, _ in c["seq"]]), raw_out=raws)
                for j, ((i, eff), line) in enumerate(zip(c["seq"], lines)):
                    b = cp.fresh_eval(scn, c["rhs"], eff, method="evaluate", disabled=False, raw=True)
                    checks += 1
                    kinds[c["kind"]] = kinds.get(c["kind"], 0) + 1
                    if not cp.same_outcome(line, raws[j], b[0], b[1]):
                        # siblings share one cache: inside the zone of a recorded stale-entry finding (the model marks the
                        # history dirty and agrees with the implementation) the difference is that finding, seen through C08
                        hscn = dict(scn, ops=[("evaluate", i2, False, False, c["o"]) for i2, _ in c["seq"]])
                        ml = ctx.coq_eval(f"Zone_C08_{checks}", cp.REQ, "", [core.coq_scenario(hscn)])[0].split(" ## ")
                        zone = cp.zone_of(dict(hscn, ops=hscn["ops"] + [("evaluate", 0, False, False, e2) for _, e2 in c["seq"]]))
                        finding = zone if (any(cp.is_dirty(x) for x in ml[:j + 1]) and cp.agrees(lines, ml, hscn)) else None
                        if finding:
                            tagged[finding] = tagged.get(finding, 0) + 1
                        violations.append(dict(finding=finding, desc="siblings derived from one dataset (shared cache), evaluated one after the other under the same caller "
                                                    "options: a derivative does not evaluate like the plain object under ITS overlaid dictionary",
                                               position=j, lhs=cp.outcome(line), rhs=cp.outcome(b[0]), options=repr(c["o"]), overlaid=repr(eff),
                                               sequence=repr([i for i, _ in c["seq"]]),
                                               scenario_repr=cp.dump_scn(dict(scn, ops=[("evaluate", i, False, False, c["o"]) for i, _ in c["seq"]]))))
                        break
                continue
            for meth in ("evaluate", "validate"):
                raws = []
                a = cp.fresh_eval(scn, c["lhs"], c["o"], method=meth, disabled=False, raw=True)
                b = cp.fresh_eval(scn, c["rhs"], c["eff"], method=meth, disabled=False, raw=True)
                checks += 1
                kinds[c["kind"]] = kinds.get(c["kind"], 0) + 1
                if not cp.same_outcome(a[0], a[1], b[0], b[1]):
                    violations.append(dict(desc=f"{c['kind']}: {meth} under caller options differs from {meth} of the plain object under the independently overlaid dictionary",
                                           lhs=cp.outcome(a[0]), rhs=cp.outcome(b[0]), options=repr(c["o"]), overlaid=repr(c["eff"]),
                                           lhs_index=c["lhs"], rhs_index=c["rhs"], finding=None, scenario_repr=cp.dump_scn(scn)))
                elif cp.split(a[0])[0].startswith("ok:") and c["o"]:
                    distinct.add(lib.stable_hash([cp.dump_scn(scn), repr(c["o"]), c["lhs"]]))
            # a history for the correspondence: all four methods on the wrapped object
            ops = [(m, c["lhs"], False, False, c["o"]) for m in ("evaluate", "keys", "explain", "validate")]
            corr_scns.append(dict(scn, ops=ops))
        # inputs are never modified: deep snapshots around every method
        scn = cs[0]["scn"] if cs else base
        world_ops = [(m, i, False, False, o) for o in pool[:3] for i in range(len(scn["exprs"]))
                     for m in ("evaluate", "validate", "keys", "explain")]
        mut = mutation_check(dict(scn, ops=world_ops))
        checks += len(world_ops)
        violations.extend(mut)
    corr_scns = corr_scns[: (700 if ctx.quick else 8000)]
    impls, models, mism, stats = cp.correspondence(ctx, corr_scns, "Cases_C08")
    # round 3: derivatives / wrappers made BEFORE a registration on their base, evaluated after it (generated after the
    # older streams, which therefore stay as they were)
    late = []
    for _ in range(150 if ctx.quick else 1800):
        for c in late_cases(rng):
            v, obs, k = check_late(c)
            checks += k
            kinds[c["kind"]] = kinds.get(c["kind"], 0) + k
            for mu in c["hist"] + c["pre"]:
                kinds["late:" + mu[1][0]] = kinds.get("late:" + mu[1][0], 0) + 1
            if c["eval_before"]:
                kinds["late:evaluated before and after"] = kinds.get("late:evaluated before and after", 0) + 1
            violations.extend(v)
            late.append((c, obs))
    # ... and the model on the state AT the evaluation (everything registered): Model/Derived.v's derivative of the base record
    # as it is then must give the results the implementation gives after the history (results only; the model has no histories)
    late_mism, late_ops = late_correspondence(ctx, late, "Cases_C08_late")
    mism.extend(late_mism)
    stats["late_history_ops"] = late_ops
    # round 4 (generated after everything older): (a) dictionaries handed over as every kind of mapping
    kdone = []
    for _ in range(45 if ctx.quick else 600):
        for c in kind_cases(rng):
            v, kl = check_kinds(c)
            checks += len(c["scn"]["ops"])
            kk = f"mapping kind {c['kind']}: {c['plan']}"
            kinds[kk] = kinds.get(kk, 0) + 1
            violations.extend(v)
            kdone.append((c, kl))
    kmism, kops = kind_correspondence(ctx, kdone, "Cases_C08_kinds")
    mism.extend(kmism)
    stats["mapping_kind_ops"] = kops
    # ... (b) the decorator applied to every kind of definition it accepts (oracle-only)
    for _ in range(400 if ctx.quick else 6000):
        for c in wrap_cases(rng):
            v, k = check_wrap(c)
            checks += k
            kk = f"definition kind {c['defn']['kind']}"
            kinds[kk] = kinds.get(kk, 0) + 1
            violations.extend(v)
    return {
        "evaluations": checks + stats["ops"],
        "distinct_nontrivial": len(distinct),
        "rule": "random expressions X (datasets with callbacks/effects/overloads included) wrapped in 1-3 forced/default wrappers, and dataset "
                "definitions with options=/default_options= plus with_options/with_default_options derivatives, with P, D, o overlapping inside one "
                "section; each compared (evaluate and validate) with the plain object under a dictionary overlaid by an independent 8-line merge; "
                "non-trivial = caller dictionary non-empty and the evaluation succeeds; distinct by hash of (scenario, dictionary, object). "
                "Histories: derivatives (with_options / with_default_options chains, WithOptions wrappers) made BEFORE an overload is registered on their "
                "base (register, @overload on a function / a dataset / a list alias, an implementation class of an interface the base is a member of), "
                "with value-neutral mutators interleaved, evaluated after it and compared with the plain base described with everything registered. "
                "Mutation: deep snapshots of the caller's dictionary and of every pre-set dictionary around evaluate/validate/keys/explain. "
                "Round 4: (a) the caller's and the pre-set dictionaries handed over as every kind of mapping the unchanged library accepts in that position "
                "(OrderedDict, dict subclass, defaultdict with dict/int/list factories, dict subclasses with an inserting / a non-inserting __missing__, ChainMap "
                "over 2-3 maps with shadowed entries, UserDict, a user Mapping; top level, one root object per run: decorated datasets with both / one layer, "
                "their derivatives, the plain copy, wrapper chains): evaluate/validate(/keys/explain) compared with the same calls with plain dictionaries and with "
                "the plain object under the independently overlaid dictionary, kind-aware deep snapshots of every mapping handed to labrea, and the model against "
                "the implementation called with the kinds; (b) the dataset decorator (options=/default_options=/dispatch/callback/cache/effects, three spellings) "
                "applied to every kind of definition wrap() accepts (function, lambda, partial, callable instance, bound/class/static method, class, wraps "
                "wrapper, function/partial/instance/class carrying attributes named like Dataset fields, already-built datasets with layers/dispatch/registrations "
                "of their own and their derivatives, Option, WithOptions/WithDefaultOptions, lifted application, Value, Coalesce), its derivatives and the "
                "definition itself, against a reference written from the property's text (oracle-only), with snapshots of every dictionary involved.",
        "samples": [dict(kind=c["kind"], options=repr(c["o"]), overlaid=repr(c["eff"])) for c in (cases(ctx.rng)[0][:3])],
        "traces_validated_against_impl": stats["ops"] + late_ops + kops,
        "correspondence_mismatches": mism[:5],
        "violations": violations,
        "known": known_findings(),
        "distribution": dict(stats, oracle_checks=checks, by_kind=kinds, tagged=tagged),
        "exhaustive": False,
        "assumptions": ["the model is pure: 'inputs never mutated' is decided on the implementation by deep snapshots (runtime part, partial)",
                        "kinds of mappings (round 4) are generated only where the unchanged library supports them (measured on /repo): non-dict Mappings are "
                        "dropped where they are the dish of confectioner.mix (default layers, the caller of a bare forced wrapper, the options= of a dataset a "
                        "derivative is made from), MappingProxyType raises MixError, keys()/explain() index defaultdict-like pre-set / caller objects "
                        "themselves (they insert: reported separately, not asserted), a defaultdict-like default layer makes the mixed dictionary "
                        "defaultdict-like (snapshots only there); sections stay plain dictionaries",
                        "the definitions of family (b) are oracle-only: the core model's dataset record has a function body, not an arbitrary definition object"],
        "trusted_base": ["confectioner.mix is modelled (Base.mix) and validated by the correspondence; the oracle's overlay is an independent re-implementation of the property text"],
    }


# ----------------------------------------------------------------------------- round 4 (a): kinds of mappings
# Options is `Mapping[str, JSON]`.  The caller's dictionary and every pre-set dictionary are handed over as the kinds of mapping
# a user legitimately has: OrderedDict, a dict subclass, collections.defaultdict / a dict subclass with __missing__ (lookups of
# absent keys answer, and possibly INSERT), a collections.ChainMap spread over several maps (with shadowed entries below), a
# UserDict, a user collections.abc.Mapping - at the TOP LEVEL (sections stay plain dictionaries).  The property's sentences do
# not depend on the kind: the call must give what the plain object gives under the independently overlaid plain dictionary
# (= what the same call gives with plain dicts), and no input mapping may be modified (deep snapshot of every object handed to
# labrea: the caller's mapping, the mappings given as options= / default_options= / with_options / with_default_options /
# WithOptions / WithDefaultOptions pre-sets).
#
# What the UNCHANGED library supports was measured first (notes in the claim file); the family stays inside it:
#   * a non-dict Mapping is dropped by confectioner.mix where it is the DISH (default_options=, a WithDefaultOptions pre-set, the
#     caller of a bare WithOptions(force=True), the options= of a dataset from which a derivative is made): not generated there;
#   * types.MappingProxyType cannot be copied by mix (MixError): not generated;
#   * a defaultdict-like default layer / caller of a bare WithOptions(force=True) makes the mixed dictionary a defaultdict-like
#     copy (absent options read as the factory's value): there only the snapshots are checked, under evaluate and validate;
#   * keys()/explain() index the pre-set and the caller's mapping themselves (`_preset`): with a defaultdict-like object that
#     inserts (reported as a candidate finding, not asserted here): keys/explain are run on such objects only where no such
#     lookup can happen (a caller's mapping given to a root without a default layer).

class OptsDict(dict):
    """a dict subclass without behaviour of its own"""


class MissingDict(dict):
    """lookups of absent keys insert and return a fresh section"""

    def __missing__(self, k):
        self[k] = {}
        return self[k]


class MissingZero(dict):
    """lookups of absent keys answer 0 (nothing inserted)"""

    def __missing__(self, k):
        return 0


class FrozenOptions(collections.abc.Mapping):
    """a minimal read-only user Mapping (not a dict subclass)"""

    def __init__(self, data):
        self._data = dict(data)

    def __getitem__(self, k):
        return self._data[k]

    def __iter__(self):
        return iter(self._data)

    def __len__(self):
        return len(self._data)


def _chain(d, shadow):
    ks = list(d)
    n = 3 if len(ks) >= 3 else 2
    maps = [{k: d[k] for k in ks[i::n]} for i in range(n)]
    if shadow:      # lower maps hold OTHER values (and other sections) for keys an upper map defines: the upper one counts
        for i in range(1, n):
            for j in range(i):
                for k in maps[j]:
                    maps[i][k] = {"shadowed": i} if isinstance(d[k], dict) else f"shadowed{i}"
    return collections.ChainMap(*maps)


MAPPING_KINDS = {
    "ordered": lambda d: collections.OrderedDict((k, d[k]) for k in reversed(list(d))),
    "subclass": OptsDict,
    "ddict": lambda d: collections.defaultdict(dict, d),
    "dint": lambda d: collections.defaultdict(int, d),
    "dlist": lambda d: collections.defaultdict(list, d),
    "missing": MissingDict,
    "missing0": MissingZero,
    "chain": lambda d: _chain(d, False),
    "chain_shadow": lambda d: _chain(d, True),
    "userdict": collections.UserDict,
    "mapping": FrozenOptions,
}
BENIGN_KINDS = ["ordered", "subclass"]
SE_KINDS = ["ddict", "dint", "dlist", "missing", "missing0"]          # lookups of absent keys answer / insert
ND_KINDS = ["chain", "chain_shadow", "userdict", "mapping"]          # not dict subclasses


def snap(m):
    """deep, kind-aware snapshot of a mapping handed to labrea"""
    if isinstance(m, collections.ChainMap):
        return ("chain", [copy.deepcopy(dict(x)) for x in m.maps])
    if isinstance(m, collections.UserDict):
        return ("userdict", copy.deepcopy(m.data))
    if isinstance(m, FrozenOptions):
        return ("mapping", copy.deepcopy(m._data))
    return (type(m).__name__, copy.deepcopy(dict(m)))


def root_positions(scn, idx):
    """the dictionaries of the scenario description that labrea receives for the root object exprs[idx], with their position:
    'P' forced pre-set (options= of the root dataset, a WithOptions pre-set of the wrapper chain at the root), 'D' default layer
    (default_options=, WithDefaultOptions), 'W' argument of with_options / with_default_options along the root's derivation chain"""
    out = []
    e = scn["exprs"][idx]
    outer = None
    while e[0] == "with":
        out.append((e[2], "P" if e[1] else "D"))
        if outer is None:
            outer = "force" if e[1] else "default"
        e = e[3]
    has_default = any(p == "D" for _, p in out)
    derived = False
    if e[0] == "dataset" and outer is None:
        d = scn["env"][e[1]]
        while d.get("derived") is not None:
            derived = True
            out.append((d["preset"], "W"))
            if d["how"] == "with_default_options" and d["preset"]:
                has_default = True
            d = scn["env"][d["derived"]]
        if d.get("default_options"):
            has_default = True
        if not derived:      # (a derivative copies its base's layers through mix: the base's own dictionaries stay plain there)
            if d.get("options"):
                out.append((d["options"], "P"))
            if d.get("default_options"):
                out.append((d["default_options"], "D"))
        outer = "dataset"
    return out, outer, has_default


def kind_plans(scn, idx, kind):
    """the runs of one root with one kind of mapping that the unchanged library supports:
    (mode, positions realised as the kind, caller realised?, methods, compare values?)"""
    pos, outer, has_default = root_positions(scn, idx)
    if outer is None:
        return []        # a bare expression: its Option lookups index the caller's mapping directly (the user's own semantics)
    ev, all4 = ("evaluate", "validate"), ("evaluate", "validate", "keys", "explain")
    P = [d for d, p in pos if p == "P"]
    W = [d for d, p in pos if p == "W"]
    D = [d for d, p in pos if p == "D"]
    plans = []
    if kind in BENIGN_KINDS:
        plans.append(("every position", P + W + D, True, all4, True))
    elif kind in ND_KINDS:
        if outer != "force":
            plans.append(("caller", [], True, all4, True))
        if P or W:
            plans.append(("pre-set", P + W, False, all4, True))
        if outer != "force" and (P or W):
            plans.append(("caller and pre-set", P + W, True, all4, True))
    else:
        if outer == "force":
            plans.append(("caller", [], True, ev, False))
        else:
            plans.append(("caller", [], True, ev if has_default else all4, True))
        if P or W:
            plans.append(("pre-set", P + W, False, ev, True))
            if outer != "force":
                plans.append(("caller and pre-set", P + W, True, ev, True))
        if D:
            plans.append(("default layer", D, False, ev, False))
    return plans


def run_kinded(scn, kind, realised, caller):
    """core.run_impl with the dictionaries in `realised` (by identity) and, if `caller`, the caller's dictionary of every op handed
    over as `kind` (top level only).  Returns (lines, raws, [(what, live mapping, snapshot before)])"""
    ids = {id(d): "pre-set" for d in realised}
    if caller:
        for op in scn["ops"]:
            ids[id(op[4])] = "caller"
    held = []
    depth = [0]
    orig = core.py_json

    def kinded(j):
        depth[0] += 1
        try:
            r = orig(j)        # (its recursive calls come back here with depth > 1: sections stay plain)
        finally:
            depth[0] -= 1
        if depth[0] == 0 and isinstance(r, dict):
            what = ids.get(id(j))
            if what is not None:
                r = MAPPING_KINDS[kind](r)
            held.append((what or "plain", r, snap(r), repr(r)))
        return r
    core.py_json = kinded
    try:
        raws = []
        lines = core.run_impl(scn, raw_out=raws)
    finally:
        core.py_json = orig
    return lines, raws, held


def check_kinds(c):
    """the oracle on one (scenario, root, kind, plan) case; returns (violations, kinded lines)"""
    scn = c["scn"]
    realised = [d for d, _ in root_positions(scn, 0)[0]]
    realised = [realised[i] for i in c["realise"]]
    out = []
    kl, kr, held = run_kinded(scn, c["kind"], realised, c["caller"])
    for what, live, before, rep in held:
        if snap(live) != before or repr(live) != rep:
            out.append(dict(desc=f"an input mapping ({what}, handed over as {type(live).__name__}) was modified by {'/'.join(sorted({op[0] for op in scn['ops']}))}",
                            before=rep, after=repr(live), mapping_kind=c["kind"], plan=c["plan"], finding=None, kind_case=cp.dump_scn(c)))
            return out, kl
    if c["compare"]:
        pr = []
        pl = core.run_impl(scn, raw_out=pr)
        for j, (op, a, ra, b, rb) in enumerate(zip(scn["ops"], kl, kr, pl, pr)):
            same = cp.same_outcome(a, ra, b, rb) if op[0] in ("evaluate", "validate") else cp.outcome(a) == cp.outcome(b)
            if not same:
                out.append(dict(desc=f"{op[0]} with the {c['plan']} dictionary handed over as a {c['kind']} mapping differs from the same call with plain dictionaries "
                                     "(which is the plain object under the independently overlaid dictionary)",
                                op_index=j, got=cp.outcome(a), want=cp.outcome(b), options=repr(op[4]), mapping_kind=c["kind"], plan=c["plan"],
                                finding=None, kind_case=cp.dump_scn(c)))
                return out, kl
        if c.get("eff") is not None:
            # the property's own sentence on the first calls of the history (ops[0] / ops[1] = evaluate / validate under c["o"] on a fresh
            # graph): the plain object under the independently overlaid dictionary
            for j, meth in enumerate(("evaluate", "validate")):
                assert scn["ops"][j][0] == meth and scn["ops"][j][4] == c["o"]
                b = cp.fresh_eval(c["ref_scn"], c["rhs"], c["eff"], method=meth, disabled=False, raw=True)
                if not cp.same_outcome(kl[j], kr[j], b[0], b[1]):
                    out.append(dict(desc=f"{meth} with the {c['plan']} dictionary handed over as a {c['kind']} mapping differs from {meth} of the plain object under "
                                         "the independently overlaid dictionary", op_index=j, got=cp.outcome(kl[j]), want=cp.outcome(b[0]),
                                    options=repr(c["o"]), overlaid=repr(c["eff"]), mapping_kind=c["kind"], plan=c["plan"], finding=None,
                                    kind_case=cp.dump_scn(c)))
                    return out, kl
    return out, kl


def kind_cases(rng):
    """cases of the round-4 (a) family drawn from the same scenario generator as the older streams"""
    cs, base, pool = cases(rng)
    out = []
    picked = [c for c in cs if "seq" not in c]
    rng.shuffle(picked)
    for c in picked[:3]:
        for idx, eff_known in ((c["lhs"], True), (c["rhs"], False)):
            if not eff_known and rng.random() < 0.5:
                continue
            scn = cp.load_scn(cp.dump_scn(dict(c["scn"], exprs=[c["scn"]["exprs"][idx]], ops=[])))      # a private copy: no shared objects
            root = scn["exprs"][0]
            if root[0] == "dataset" and scn["env"][root[1]].get("derived") is None and rng.random() < 0.5:
                # the decorated dataset with only one of its two layers (an EMPTY other layer is a different path through the merge)
                d = dict(scn["env"][root[1]])
                d.pop(rng.choice(["options", "default_options"]), None)
                scn["env"][root[1]] = d
                eff_known = False
            kind = rng.choice(BENIGN_KINDS + SE_KINDS + SE_KINDS + ND_KINDS + ND_KINDS)
            plans = kind_plans(scn, 0, kind)
            if not plans:
                continue
            pos = [d for d, _ in root_positions(scn, 0)[0]]
            os_ = [copy.deepcopy(c["o"]), {}] + ([copy.deepcopy(rng.choice(pool))] if rng.random() < 0.4 else [])
            if rng.random() < 0.3:
                os_.reverse()
            first = os_[0] is not os_[-1] and os_[0] == c["o"]
            for plan, realised, caller, meths, compare in plans:
                ops = [(m, 0, False, False, o) for o in os_ for m in meths]
                out.append(dict(kind=kind, plan=plan, caller=caller, compare=compare, realise=[i for i, d in enumerate(pos) if any(d is r for r in realised)],
                                scn=dict(scn, ops=ops), o=c["o"], eff=c["eff"] if (eff_known and first) else None,
                                ref_scn=dict(c["scn"], ops=[]) if (eff_known and first) else None, rhs=c["rhs"], source=c["kind"]))
    return out


def kind_correspondence(ctx, done, name):
    """the model (which sees the key -> value function only) vs the implementation called with the kinds of mappings"""
    todo = [(c, kl) for c, kl in done if c["compare"]]
    mism, ops = [], 0
    outs = ctx.coq_eval(name, cp.REQ, "", [core.coq_scenario(c["scn"]) for c, _ in todo], shard=30) if todo else []
    for (c, kl), mo in zip(todo, outs):
        ml = mo.split(" ## ")
        scn = c["scn"]
        multi = cp._multi_ref(scn["exprs"]) or cp._multi_ref(scn["env"]) or cp._multi_ref([op[4] for op in scn["ops"]])
        for j, (a, b) in enumerate(zip(kl, ml)):
            ops += 1
            if not cp.same(a, b, multi):
                mism.append(dict(where=f"Model/Eval.v vs labrea called with the {c['plan']} dictionary as a {c['kind']} mapping", op_index=j, op=repr(scn["ops"][j]),
                                 impl=a, model=cp.strip_ghost(b), kind_case=cp.dump_scn(c)))
                break
            if "unmod" in cp.split(cp.strip_ghost(b))[0]:
                break
    return mism, ops


# ----------------------------------------------------------------------------- round 4 (b): every kind of definition the decorator accepts
# `dataset(options=P, default_options=D, ...)(definition)`: DatasetFactory.wrap accepts any callable it can lift (a function, a lambda,
# a functools.partial, a callable instance, a bound / class / static method, a class, a functools.wraps wrapper, a function object
# carrying attributes of its own) and any Evaluatable (an already-built dataset - plain, with layers, dispatch, registrations,
# callback, cache and effects of its own, or a with_options / with_default_options derivative - an Option, a WithOptions /
# WithDefaultOptions wrapper, a lifted application, a Value, a Coalesce).  The property's sentence "this holds ... for the
# options/default_options arguments of the dataset decorator ... on any dataset whatever its callback, effects, dispatch or cache,
# and it composes when nested" is checked against a reference written from the property's text only (plain nested dictionaries,
# the 8-line overlay, a table lookup for the dispatch): the decorated object under o gives callback(what the definition gives under
# D overlaid by o overlaid by P), its with_options / with_default_options derivatives compose, the definition itself (when it is a
# dataset) keeps evaluating as before whatever is registered on / evaluated through the new dataset, and no dictionary handed to
# labrea (P, D, the definition's own layers, attribute values of the definition, the caller's dictionaries) is modified.
# Oracle-only: the core model's dataset record has a function body, not an arbitrary definition object.

W_KEYS = ["S.A", "S.B", "T.C", "T.E", "U", "M"]
W_VALS = [1, 2, 3, "x", "y", None, True, 2.5]
W_ALIASES = ["a", "b", "c", 7]
FIELD_NAMES = ["options", "default_options", "overloads", "cache", "callback", "effects", "_effects_disabled", "fmt"]
DEF_KINDS = ["function", "lambda", "partial", "partial_kw", "callable_instance", "bound_method", "classmethod", "staticmethod", "class",
             "function_attrs", "wraps", "dataset", "dataset", "dataset_derived", "option", "with_options", "with_default_options",
             "application", "value", "coalesce"]


def w_get(d, dotted):
    for seg in dotted.split("."):
        if not isinstance(d, dict) or seg not in d:
            return False, None
        d = d[seg]
    return True, d


def w_dict(rng, p=0.5):
    out = {}
    for k in W_KEYS:
        if rng.random() < p:
            v = rng.choice(W_ALIASES) if k == "M" else rng.choice([x for x in W_VALS if x is not None])
            if "." in k:
                out.setdefault(k.split(".")[0], {})[k.split(".")[1]] = v
            else:
                out[k] = v
    return out


def w_reads(rng):
    ks = rng.sample(W_KEYS, rng.randint(1, 4))
    return [[k, rng.choice([None, None, "dflt-" + k, 0])] for k in ks]


def w_fnnode(rng, tag):
    return ["fn", tag, w_reads(rng)]


class WFail(Exception):
    pass


def w_ref_fn(node, eff):
    vals = []
    for k, dflt in node[2]:
        ok, v = w_get(eff, k)
        if not ok:
            if dflt is None:
                raise WFail(k)
            v = dflt
        vals.append(v)
    return ("t", node[1], tuple(vals))


def w_ref_ds(spec, table, o):
    """a dataset per the property's text: layers, dispatch by table lookup, callback outside"""
    eff = overlay(overlay(spec.get("D") or {}, o), spec.get("P") or {})
    impl = None
    if spec.get("dispatch"):
        ok, v = w_get(eff, spec["dispatch"][1])
        if not ok and len(spec["dispatch"]) > 2:
            ok, v = True, spec["dispatch"][2]
        if ok:
            try:
                impl = table.get(v)
            except TypeError:
                impl = None
    r = w_ref_fn(impl, eff) if impl is not None else spec["body"](eff)
    return ("cb", spec["cb"], r) if spec.get("cb") is not None else r


class WrapWorld:
    """the live objects of one case, built through the public API only"""

    def __init__(self, c):
        import labrea
        self.L = labrea
        self.c = c
        self.held = []          # (what, live dictionary, deep snapshot)
        self.effects = []
        self.keep = []

    def give(self, what, d):
        """a private copy of a description dictionary, handed to labrea and watched"""
        live = copy.deepcopy(d)
        self.held.append((what, live, copy.deepcopy(live), repr(live)))
        return live

    def opt(self, k, dflt):
        return self.L.Option(k) if dflt is None else self.L.Option(k, dflt)

    def fn(self, node, extra=0):
        """a python function def f(a0=Option(..), ...) returning ('t', tag, values)"""
        tag, reads = node[1], node[2]
        names = [f"a{i}" for i in range(len(reads))]
        ns = {"tag": tag}
        src = "def f(" + ", ".join(f"{a}=None" for a in names) + "):\n    return ('t', tag, (" + "".join(a + ", " for a in names) + "))\n"
        exec(src, ns)
        f = ns["f"]
        f.__defaults__ = tuple(self.opt(k, d) for k, d in reads)
        f.__name__ = f.__qualname__ = f"body{tag}"
        self.keep.append(f)
        return f

    def set_attrs(self, obj, attrs):
        for name, v in attrs.items():
            setattr(obj, name, self.give(f"attribute {name} of the definition", v) if isinstance(v, dict) else copy.deepcopy(v))

    def definition(self, d):
        """(the definition object, reference function eff -> value)"""
        L = self.L
        from labrea.application import FunctionApplication
        kind, node, attrs = d["kind"], d["node"], d.get("attrs") or {}

        def body(eff):
            return w_ref_fn(node, eff)
        if kind == "function":
            return self.fn(node), body
        if kind == "function_attrs":
            f = self.fn(node)
            self.set_attrs(f, attrs)
            return f, body
        if kind == "lambda":
            opts = [self.opt(k, dv) for k, dv in node[2]] + [None] * 4
            n, tag = len(node[2]), node[1]
            f = [lambda: ("t", tag, ()), lambda a=opts[0]: ("t", tag, (a,)), lambda a=opts[0], b=opts[1]: ("t", tag, (a, b)),
                 lambda a=opts[0], b=opts[1], c=opts[2]: ("t", tag, (a, b, c)),
                 lambda a=opts[0], b=opts[1], c=opts[2], e=opts[3]: ("t", tag, (a, b, c, e))][n]
            return f, body
        if kind == "partial":
            f = functools.partial(self.fn(node))
            self.set_attrs(f, attrs)
            return f, body
        if kind == "partial_kw":      # the last parameter's Option is supplied by the partial, the function's own default is another one
            g = self.fn(node)
            dfl = list(g.__defaults__)
            real, dfl[-1] = dfl[-1], self.opt("NOT.THIS", "wrong")
            g.__defaults__ = tuple(dfl)
            f = functools.partial(g, **{f"a{len(dfl) - 1}": real})
            self.set_attrs(f, attrs)
            return f, body
        if kind == "wraps":
            g = self.fn(node)

            @functools.wraps(g)
            def f(*a, **k):
                return g(*a, **k)
            self.set_attrs(f, attrs)
            return f, body
        if kind in ("callable_instance", "bound_method", "classmethod", "staticmethod"):
            g = self.fn(node)
            names = [f"a{i}" for i in range(len(node[2]))]
            ns = {"g": g}
            exec("def m(self, " + ", ".join(f"{a}=None" for a in names) + "):\n    return g(" + ", ".join(names) + ")\n"
                 "def s(" + ", ".join(f"{a}=None" for a in names) + "):\n    return g(" + ", ".join(names) + ")\n", ns)
            ns["m"].__defaults__ = ns["s"].__defaults__ = g.__defaults__
            if kind == "callable_instance":
                cls = type("Loader", (), {"__call__": ns["m"]})
                obj = cls()
                self.set_attrs(obj, attrs)
                return obj, body
            if kind == "bound_method":
                self.set_attrs(ns["m"], attrs)       # (a bound method shows its function's attributes)
                cls = type("Loader", (), {"load": ns["m"]})
                obj = cls()
                self.keep.append(obj)
                return obj.load, body
            if kind == "classmethod":
                self.set_attrs(ns["m"], attrs)
                cls = type("Loader", (), {"load": classmethod(ns["m"])})
                return cls.load, body
            self.set_attrs(ns["s"], attrs)
            cls = type("Loader", (), {"load": staticmethod(ns["s"])})
            return cls.load, body
        if kind == "class":
            g = self.fn(node)
            names = [f"a{i}" for i in range(len(node[2]))]
            ns = {"g": g}
            exec("def __init__(self, " + ", ".join(f"{a}=None" for a in names) + "):\n    self.record = g(" + ", ".join(names) + ")\n", ns)
            ns["__init__"].__defaults__ = g.__defaults__
            clsns = {"__init__": ns["__init__"]}
            for name, v in attrs.items():
                clsns[name] = self.give(f"class attribute {name} of the definition", v) if isinstance(v, dict) else copy.deepcopy(v)
            return type("Record", (), clsns), body
        if kind == "application":
            return FunctionApplication.lift(self.fn(node)), body
        if kind == "option":
            k, dv = node[2][0]
            return self.opt(k, dv), (lambda eff: w_ref_fn(["fn", 0, [[k, dv]]], eff)[2][0])
        if kind == "value":
            return L.Value(("t", node[1], ())), (lambda eff: ("t", node[1], ()))
        if kind == "coalesce":
            (k1, _), (k2, d2) = (node[2] + node[2])[:2]

            def ref(eff):
                ok, v = w_get(eff, k1)
                return v if ok else w_ref_fn(["fn", 0, [[k2, d2]]], eff)[2][0]
            return L.Coalesce(L.Option(k1), self.opt(k2, d2)), ref
        if kind in ("with_options", "with_default_options"):
            q = d["Q"]
            force = kind == "with_options"
            obj = L.WithOptions(FunctionApplication.lift(self.fn(node)), self.give("pre-set dictionary of the definition (a wrapper)", q), force=force)
            return obj, (lambda eff: w_ref_fn(node, overlay(eff, q) if force else overlay(q, eff)))
        if kind in ("dataset", "dataset_derived"):
            inner, ref = self.inner_dataset(d)
            return inner, ref
        raise AssertionError(kind)

    def deco_kwargs(self, spec, what):
        L = self.L
        from labrea.cache import MemoryCache, NoCache
        kw = {}
        if spec.get("P"):
            kw["options"] = self.give(f"options= of {what}", spec["P"])
        if spec.get("D"):
            kw["default_options"] = self.give(f"default_options= of {what}", spec["D"])
        if spec.get("cb") is not None:
            c = spec["cb"]

            def cb(v):
                return ("cb", c, v)
            self.keep.append(cb)
            kw["callback"] = cb
        if spec.get("dispatch"):
            dsp = spec["dispatch"]
            kw["dispatch"] = dsp[1] if dsp[0] == "str" else self.opt(dsp[1], dsp[2] if len(dsp) > 2 else None)
        if spec.get("cache") == "mem":
            kw["cache"] = MemoryCache()
        elif spec.get("cache") == "none":
            kw["cache"] = NoCache()
        elif spec.get("cache") == "factory":
            kw["cache"] = MemoryCache
        if spec.get("effects"):
            log = self.effects

            def eff(v):
                log.append(what)
            self.keep.append(eff)
            kw["effects"] = [eff]
        return kw

    def register(self, obj, spec, alias, node, how):
        from labrea.application import FunctionApplication
        if how == "register":
            obj.register(alias, FunctionApplication.lift(self.fn(node)))
        elif how == "overload":
            obj.overload(alias)(self.fn(node))
        else:
            obj.overload([alias])(self.fn(node))

    def inner_dataset(self, d):
        spec = d["inner"]
        node = d["node"]
        inner = self.L.dataset(self.fn(node), **self.deco_kwargs(spec, "the definition (a dataset)"))
        self.inner_table = {}
        for alias, n2, how in spec.get("registrations", []):
            self.register(inner, spec, alias, n2, how)
            self.inner_table[alias] = n2
        self.inner_base = inner
        rspec = dict(spec, body=lambda eff: w_ref_fn(node, eff))
        if d["kind"] == "dataset_derived":
            how, p = d["derive"]
            live = self.give(f"{how} argument of the definition (a derivative)", p)
            inner = inner.with_options(live) if how == "with_options" else inner.with_default_options(live)
            rspec = dict(rspec, **({"P": overlay(spec.get("P") or {}, p)} if how == "with_options" else {"D": overlay(spec.get("D") or {}, p)}))
        table = self.inner_table
        return inner, (lambda eff: w_ref_ds(rspec, table, eff))


def wrap_cases(rng):
    kind = rng.choice(DEF_KINDS)
    d = dict(kind=kind, node=w_fnnode(rng, 1))
    if kind == "partial_kw" and not d["node"][2]:
        d["node"][2] = [["U", 0]]
    if kind in ("function_attrs", "callable_instance", "class", "partial", "partial_kw", "bound_method", "classmethod", "staticmethod", "wraps"):
        attrs = {}
        for name in rng.sample(FIELD_NAMES, rng.randint(1, 4)):
            attrs[name] = rng.choice([w_dict(rng), w_dict(rng), "text", None, True, [1, 2], 0])
        if kind == "function_attrs" or rng.random() < 0.6:
            d["attrs"] = attrs
    if kind in ("with_options", "with_default_options"):
        d["Q"] = w_dict(rng, 0.4)
    if kind in ("dataset", "dataset_derived"):
        inner = dict(P=w_dict(rng, 0.3) if rng.random() < 0.6 else {}, D=w_dict(rng, 0.3) if rng.random() < 0.6 else {},
                     cb=rng.choice([None, 5]), cache=rng.choice([None, None, "mem", "none", "factory"]), effects=rng.random() < 0.4)
        if rng.random() < 0.6:
            inner["dispatch"] = rng.choice([["str", "M"], ["opt", "M"], ["opt", "M", "a"], ["str", "T.E"]])
            inner["registrations"] = [[a, w_fnnode(rng, 20 + i), rng.choice(["register", "overload", "overload_list"])]
                                      for i, a in enumerate(rng.sample(W_ALIASES, rng.randint(0, 2)))]
        d["inner"] = inner
        if kind == "dataset_derived":
            d["derive"] = [rng.choice(["with_options", "with_default_options"]), w_dict(rng, 0.3)]
    deco = dict(P=w_dict(rng, 0.4) if rng.random() < 0.85 else {}, D=w_dict(rng, 0.4) if rng.random() < 0.7 else {},
                cb=rng.choice([None, None, 9]), cache=rng.choice([None, None, "mem", "none", "factory"]), effects=rng.random() < 0.3,
                spelling=rng.choice(["direct", "factory", "split"]))
    if rng.random() < 0.5:
        deco["dispatch"] = rng.choice([["str", "M"], ["opt", "M"], ["opt", "M", "b"], ["str", "S.A"]])
        deco["registrations"] = [[a, w_fnnode(rng, 40 + i), rng.choice(["register", "overload", "overload_list"])]
                                 for i, a in enumerate(rng.sample(W_ALIASES, rng.randint(0, 2)))]
    # dictionaries that overlap the layers inside the same section, and select registered aliases now and then
    os_ = [w_dict(rng, 0.5) for _ in range(rng.randint(2, 3))] + [{}]
    for o in os_[:2]:
        if rng.random() < 0.5:
            o["M"] = rng.choice(W_ALIASES)
    derive = [[rng.choice(["with_options", "with_default_options"]), w_dict(rng, 0.3)] for _ in range(rng.choice([0, 1, 1, 2]))]
    whos = ["new"] + (["inner"] if kind in ("dataset", "dataset_derived") else []) + (["derived"] if derive else [])
    hist = []
    for o in os_:
        for who in whos:
            if rng.random() < 0.8:
                hist.append([rng.choice(["evaluate", "evaluate", "validate", "keys"]), who, o])
    rng.shuffle(hist)
    # the same dictionary through the new dataset, the definition and the derivative in turn (each has a cache of its own to answer from)
    hist = [["evaluate", who, os_[0]] for who in whos + ["new"]] + hist
    late_inner = []
    if kind in ("dataset", "dataset_derived") and d["inner"].get("dispatch") and rng.random() < 0.5:
        free = [a for a in W_ALIASES if a not in [r[0] for r in d["inner"].get("registrations", [])]]
        late_inner = [[rng.choice(free), w_fnnode(rng, 60), "register"]]      # registered on the definition AFTER the new dataset exists
    return [dict(defn=d, deco=deco, derive=derive, hist=hist, late_inner=late_inner)]


def check_wrap(c):
    """the oracle on one case: returns (violations, number of checks)"""
    try:
        return _check_wrap(c)
    except Exception as exc:  # noqa  (the unchanged library builds, registers on and derives from every generated definition)
        return [dict(desc=f"dataset decorator applied to a definition of kind '{c['defn']['kind']}': building the decorated object, registering on it or "
                          f"deriving from it raised {type(exc).__name__}", step=-1, op=None, got=type(exc).__name__, want="no exception",
                     definition_kind=c["defn"]["kind"], finding=None, wrap_case=cp.dump_scn(c))], 1


def _check_wrap(c):
    import labrea
    w = WrapWorld(c)
    d, deco = c["defn"], c["deco"]
    defn, dref = w.definition(d)
    kw = w.deco_kwargs(deco, "the decorator")
    if deco["spelling"] == "direct":
        new = labrea.dataset(defn, **kw)
    elif deco["spelling"] == "factory":
        new = labrea.dataset(**kw)(defn)
    else:
        first = {k: v for k, v in kw.items() if k in ("options", "cache", "dispatch")}
        new = labrea.dataset(**first)(defn, **{k: v for k, v in kw.items() if k not in first})
    table = {}
    for alias, n2, how in deco.get("registrations", []):
        w.register(new, deco, alias, n2, how)
        table[alias] = n2
    for alias, n2, how in c["late_inner"]:
        w.register(w.inner_base, d["inner"], alias, n2, how)
        w.inner_table[alias] = n2
    objs = {"new": new, "inner": defn}
    nspec = dict(deco, body=dref)
    refs = {"new": lambda o: w_ref_ds(nspec, table, o), "inner": dref}
    if c["derive"]:
        y, yspec = new, dict(nspec)
        for how, p in c["derive"]:
            live = w.give(f"{how} argument", p)
            if how == "with_options":
                y, yspec = y.with_options(live), dict(yspec, P=overlay(yspec.get("P") or {}, p))
            else:
                y, yspec = y.with_default_options(live), dict(yspec, D=overlay(yspec.get("D") or {}, p))
        objs["derived"] = y
        refs["derived"] = lambda o: w_ref_ds(yspec, table, o)
    out, checks = [], 0

    def canon(v):
        if type(v).__name__ == "Record":
            return v.record
        if isinstance(v, tuple) and len(v) == 3 and v[0] == "cb":
            return ("cb", v[1], canon(v[2]))
        return v
    for j, (meth, who, o) in enumerate(c["hist"]):
        live = w.give("the caller's dictionary", o)
        try:
            want = ("ok", refs[who](o))
        except WFail:
            want = ("err",)
        try:
            r = getattr(objs[who], meth)(live)
            got = ("ok", canon(r)) if meth == "evaluate" else ("ok",)
        except Exception as exc:  # noqa
            got = ("err", type(exc).__name__)
        checks += 1
        bad = None
        if meth == "evaluate" and (got[0] != want[0] or (got[0] == "ok" and not (got[1] == want[1] and repr(got[1]) == repr(want[1])))):
            what = {"new": "the decorated object", "inner": "the definition itself (a dataset), after the new dataset was built from it",
                    "derived": "a with_options / with_default_options derivative of the decorated object"}[who]
            bad = f"dataset decorator applied to a definition of kind '{d['kind']}': evaluate of {what} under the caller's options differs from callback(the definition " \
                  "under the independently overlaid dictionary / the implementation registered for the dispatch value there)"
        elif meth == "validate" and got[0] != want[0]:
            bad = f"dataset decorator applied to a definition of kind '{d['kind']}': validate {'fails' if got[0] == 'err' else 'passes'} although evaluation under the " \
                  "independently overlaid dictionary " + ("succeeds" if want[0] == "ok" else "fails")
        if bad is None:
            for what, lv, before, rep in w.held:
                if lv != before or repr(lv) != rep:
                    bad = f"{meth} modified an input dictionary ({what})"
                    want, got = rep, repr(lv)
                    break
        if bad:
            out.append(dict(desc=bad, step=j, op=[meth, who, repr(o)], got=repr(got), want=repr(want), definition_kind=d["kind"], finding=None,
                            wrap_case=cp.dump_scn(c)))
            break
    return out, checks


# ----------------------------------------------------------------------------- round 3: a history between derivation and evaluation
# y = x.with_options(P) / x.with_default_options(D) / chains of both / WithOptions(x, P) wrappers are made FIRST; then x is
# changed through its public mutators (an overload registered by x.register, @x.overload on a function or on a dataset, a
# list alias, an implementation class of an interface x is a member of; value-neutral ones interleaved: add_effects,
# disable/enable_effects, set_cache, further derivatives); then y is evaluated / validated.  The property speaks about
# "evaluating X under o overlaid by P": X is the object as it is when the evaluation happens, so y must give what the plain
# x, described WITH everything registered so far, gives under the independently overlaid dictionary.

LATE_KEYS = [gen.K(10), gen.K(11), gen.K(12), gen.K(gen.SEC, gen.SX), gen.K(gen.SEC, gen.SY), gen.K(*gen.DEEP)]
NEUTRAL = ["add_effects", "disable_effects", "enable_effects", "set_cache_mem", "set_cache_none", "sibling_with_options",
           "sibling_with_default_options"]


def at_key(k, v):
    """the dictionary holding v under the dotted key k"""
    out = v
    for seg in reversed(k):
        out = {seg[1]: out}
    return out


def late_cases(rng):
    g = gen.Gen(rng, with_presets=False, with_effects=True, with_alloptions=False, max_ds=3)
    base = g.scenario(n_exprs=1, depth=2, n_ops=0)
    pool = g.dict_pool()
    env = dict(base["env"])
    i = rng.choice(sorted(env))
    n = max(env) + 1
    d0 = dict(env[i])
    dk = rng.choice(LATE_KEYS)
    d0["dispatch"] = ("option", dk, ("value", ("j", rng.choice(gen.DISPATCH_VALS))) if rng.random() < 0.25 else None, None)
    vals = list(gen.DISPATCH_VALS)
    rng.shuffle(vals)
    early = [(("j", v), g.leaf()) for v in vals[:rng.choice([0, 0, 1])]]
    d0["overloads"] = early
    d0.pop("abstract", None)
    if rng.random() < 0.2:
        d0["abstract"] = True
    d0["cache"] = "none" if rng.random() < 0.5 else "mem"
    P0, D0 = (gen.rand_preset(rng) if rng.random() < 0.4 else {}), (gen.rand_preset(rng) if rng.random() < 0.4 else {})
    if P0:
        d0["options"] = P0
    if D0:
        d0["default_options"] = D0
    # the registrations made after the derivatives exist
    late, muts = [], []
    start = len(early) - 1 if (early and rng.random() < 0.3) else len(early)      # sometimes an early alias is registered again
    for a in vals[start:start + rng.choice([1, 1, 2])]:
        form = rng.choice(["register", "register", "overload_fn", "overload_fn", "overload_ds", "implements"])
        if form == "implements" and a is None:
            form = "register"       # @implements needs an alias
        if form == "overload_ds":
            m = rng.choice(sorted(env))
            muts.append((("overload_ds", [a], m, rng.random() < 0.3), [(("j", a), ("dataset", m))]))
        elif form == "overload_fn":
            m = n + 20 + len(muts)
            env[m] = dict(fid=g.body_fid(), kwargs=[g.leaf() for _ in range(rng.randint(0, 2))])
            als = [a] + ([x for x in vals if x != a][:1] if rng.random() < 0.3 else [])
            muts.append((("overload_fn", als, m, len(als) > 1 or rng.random() < 0.3), [(("j", a2), ("dataset", m)) for a2 in als]))
        else:
            impl = rng.choice([g.leaf(), ("call", g.body_fid(), [g.leaf() for _ in range(rng.randint(0, 2))])])
            muts.append(((form, a, impl), [(("j", a), impl)]))
    rng.shuffle(muts)
    late = [e for _, es in muts for e in es]      # in the order the history performs them: the last registration of an alias wins
    muts = [mu for mu, _ in muts]
    iface = any(mu[0] == "implements" for mu in muts)
    noise = [(rng.choice(NEUTRAL), gen.rand_preset(rng)) for _ in range(rng.choice([0, 0, 1, 2]))]
    hist = [("mut", mu) for mu in muts]
    for x in noise:
        hist.insert(rng.randint(0, len(hist)), ("noise", x))
    pre = [("noise", (rng.choice(NEUTRAL[:5] + ["set_dispatch_same"]), {})) for _ in range(rng.choice([0, 0, 1]))]
    # the derivation chain: 1-3 dataset derivatives, then 0-2 wrapper combinators around the last one
    steps = [(rng.choice(["with_options", "with_default_options"]), gen.rand_preset(rng)) for _ in range(rng.choice([1, 1, 2, 3]))]
    wraps = [(rng.random() < 0.5, gen.rand_preset(rng)) for _ in range(rng.choice([0, 0, 0, 1, 2]))]
    a_sel = late[0][0][1]
    if rng.random() < 0.7:      # a layer of the chain itself selects a late overload (else the caller / another layer may)
        j = rng.randrange(len(steps))
        steps[j] = (steps[j][0], overlay(steps[j][1], at_key(dk, a_sel)))
    env_before = dict(env)
    env_before[n] = dict(d0)
    env_after = dict(env)
    env_after[n] = dict(d0, overloads=early + late)
    cur = n
    for j, (how, p) in enumerate(steps):
        env_after[n + 1 + j] = dict(derived=cur, how=how, preset=p)
        env_before[n + 1 + j] = dict(derived=cur, how=how, preset=p)
        cur = n + 1 + j
    env_after[n + 10] = plain(env_after[n])
    env_before[n + 10] = plain(env_before[n])
    yexpr = ("dataset", cur)
    for f, p in wraps:
        yexpr = ("with", f, p, yexpr)
    ft = dict(g.ftable)
    out = []
    os_ = rng.sample(pool, min(2, len(pool)))
    if rng.random() < 0.6:
        os_.append(overlay(rng.choice(pool), at_key(dk, a_sel)))      # the caller's dictionary selects the late overload
    for o in os_:
        o = dict(o)
        eff = o
        for f, p in reversed(wraps):          # outermost wrapper first
            eff = overlay(eff, p) if f else overlay(p, eff)
        Pacc, Dacc = P0, D0
        for how, p in steps:
            if how == "with_options":
                Pacc = overlay(Pacc, p)
            else:
                Dacc = overlay(Dacc, p)
        eff = overlay(overlay(Dacc, eff), Pacc)
        out.append(dict(kind="derivative made before a registration on its base", ftable=ft, env_before=env_before, env_after=env_after,
                        x=n, steps=steps, wraps=wraps, pre=pre, hist=hist, iface=iface, yexpr=yexpr, plain_idx=n + 10,
                        o=o, eff=eff, eval_before=d0["cache"] == "none" and rng.random() < 0.5))
    return out


def run_late(c):
    """drive the history on the implementation (public API only); returns the observations
    {'before': [evaluate], 'after': [evaluate, validate]} as (canonical result, raw value) pairs"""
    import labrea
    from labrea.cache import MemoryCache, NoCache
    n = c["x"]
    scn0 = dict(ftable=c["ftable"], env=c["env_before"], exprs=[("dataset", n)], ops=[])
    _, objs, w, b = core.run_impl(scn0, want_objects=True)
    x = objs[0]
    keep = []

    def neutral(kind, p):
        if kind == "add_effects":
            def eff(v):
                w.calls.append("late-effect")
            keep.append(eff)
            x.add_effects(eff)
        elif kind == "disable_effects":
            x.disable_effects()
        elif kind == "enable_effects":
            x.enable_effects()
        elif kind == "set_cache_mem":
            x.set_cache(MemoryCache())
        elif kind == "set_cache_none":
            x.set_cache(NoCache())
        elif kind == "set_dispatch_same":      # (only before the derivatives are made: they share the registry x has THEN)
            x.set_dispatch(b.build(c["env_before"][n]["dispatch"]))
        elif kind == "sibling_with_options":
            keep.append(x.with_options(core.py_json(p)))
        elif kind == "sibling_with_default_options":
            keep.append(x.with_default_options(core.py_json(p)))

    for _, (kind, p) in c["pre"]:
        if not (kind.startswith("set_cache") and c["env_before"][n].get("cache") == "none" and c["eval_before"]):
            neutral(kind, p)
        # (a cache given to an uncached x before the first evaluation would store it: then the later registration
        #  legitimately does not apply to that dictionary any more)
    I = None
    if c["iface"]:
        I = labrea.interface(b.build(c["env_before"][n]["dispatch"]))(type("LateIface", (), {"m": x}))
        assert I.m is x
    y = x
    for how, p in c["steps"]:
        y = y.with_options(core.py_json(p)) if how == "with_options" else y.with_default_options(core.py_json(p))
    for f, p in c["wraps"]:                   # the last one is the outermost
        y = labrea.WithOptions(y, core.py_json(p), force=f)

    def observe(meth):
        po = core.py_json(c["o"])
        try:
            if meth == "evaluate":
                raw = core.force(y.evaluate(po))
                return core.canon_names("ok:" + core.show(raw)), raw
            y.validate(po)
            return "ok:()", None
        except RecursionError:
            return "err:fuel:F", None
        except Exception as exc:  # noqa
            cause, ee = core.classify(exc)
            return core.canon_names(f"err:{cause}:{'T' if ee else 'F'}"), None

    obs = dict(before=[], after=[])
    if c["eval_before"]:
        obs["before"].append(observe("evaluate"))
    for what, mu in c["hist"]:
        if what == "noise":
            if mu[0].startswith("set_cache") and c["eval_before"]:
                continue
            neutral(*mu)
        elif mu[0] == "register":
            x.register(core.py_value(("j", mu[1])), b.build(mu[2]))
        elif mu[0] == "implements":
            labrea.implements(I, alias=core.py_value(("j", mu[1])))(type("LateImpl", (), {"m": b.build(mu[2])}))
        elif mu[0] == "overload_ds":
            als = [core.py_value(("j", a)) for a in mu[1]]
            x.overload(als if mu[3] else als[0])(b.dataset(mu[2]))
        elif mu[0] == "overload_fn":
            d = c["env_after"][mu[2]]
            f = w.kwfn(d["fid"], len(d["kwargs"]))
            f.__defaults__ = tuple(b.build(e) for e in d["kwargs"])       # def f(a0=<Evaluatable>, ...): the decorator reads the signature
            f.__name__ = f.__qualname__ = f"ds{mu[2]}"
            als = [core.py_value(("j", a)) for a in mu[1]]
            x.overload(als if mu[3] else als[0])(f)
    obs["after"] = [observe("evaluate"), observe("validate")]
    return obs


def check_late(c):
    """the oracle on one case; returns (violations, observations, checks)"""
    out = []
    obs = run_late(c)
    checks = 0
    stages = [("after", "env_after", ("evaluate", "validate"))]
    if c["eval_before"]:
        stages.insert(0, ("before", "env_before", ("evaluate",)))
    for stage, envk, meths in stages:
        scn = dict(ftable=c["ftable"], env=c[envk], exprs=[("dataset", c["plain_idx"])])
        for meth, (line, raw) in zip(meths, obs[stage]):
            b = cp.fresh_eval(scn, 0, c["eff"], method=meth, disabled=False, raw=True)
            checks += 1
            if not cp.same_outcome(line + "|", raw, b[0], b[1]):
                out.append(dict(desc=f"{c['kind']}: {meth} of the derivative ({'after' if stage == 'after' else 'before'} the registration) differs from {meth} of the "
                                     "plain object, as it is at that moment, under the independently overlaid dictionary",
                                stage=stage, lhs=cp.outcome(line + "|"), rhs=cp.outcome(b[0]), options=repr(c["o"]), overlaid=repr(c["eff"]),
                                history=repr([("derive", c["steps"], c["wraps"])] + c["hist"]), finding=None, late_case=cp.dump_scn(c)))
                return out, obs, checks
    return out, obs, checks


def late_correspondence(ctx, late, name):
    """model (static description of the state at the evaluation) vs the implementation's results after the history"""
    mism, ops = [], 0
    louts = ctx.coq_eval(name, cp.REQ, "", [core.coq_scenario(late_scenario(c)) for c, _ in late], shard=30) if late else []
    for (c, obs), lo in zip(late, louts):
        ls = late_scenario(c)
        multi = cp._multi_ref(ls["exprs"]) or cp._multi_ref(ls["env"]) or cp._multi_ref([c["o"]])
        for meth, (line, _), ml in zip(("evaluate", "validate"), obs["after"], lo.split(" ## ")):
            ops += 1
            if not cp.same(line + "|" + cp.strip_ghost(ml).partition("|")[2], ml, multi):
                mism.append(dict(where="Model/Derived.v (derivative of the base record as it is at the evaluation) vs labrea (derivative made before the registration)",
                                 method=meth, impl=line, model=cp.split(cp.strip_ghost(ml))[0], late_case=cp.dump_scn(c)))
                break
            if "unmod" in ml:
                break
    return mism, ops


def late_scenario(c):
    """the static description of the state at the evaluation (for the model): everything registered, y, the two methods"""
    return dict(ftable=c["ftable"], env=c["env_after"], exprs=[c["yexpr"]],
                ops=[("evaluate", 0, False, False, c["o"]), ("validate", 0, False, False, c["o"])])


def same_dict_object_check(scn, idx, dicts):
    """one long-lived wrapper object, called repeatedly with the SAME caller dictionary object, updated in place
    between the calls (a parameter sweep): every call must see the dictionary as it is at that call"""
    _, objs, _, _ = core.run_impl(dict(scn, ops=[]), want_objects=True)
    po = {}
    out = []
    for j, o in enumerate(dicts):
        po.clear()
        po.update(core.py_json(o))
        got = []
        for meth in ("evaluate", "validate"):
            try:
                r = getattr(objs[idx], meth)(po)
                got.append("ok:" + core.show(core.force(r)) if meth == "evaluate" else "ok:()")
            except Exception as exc:  # noqa
                got.append("err")
        want = [cp.outcome(cp.fresh_eval(scn, idx, o, method=m, disabled=False)) for m in ("evaluate", "validate")]
        want = [w if w.startswith("ok:") else "err" for w in want]
        if [core.canon_names(g) for g in got] != want:
            out.append(dict(desc="a long-lived wrapper called again with the same caller dictionary object, updated in place, does not see "
                                 "the update", call=j, got=got, want=want, options=repr(o), same_dict_history=repr(dicts[:j + 1]),
                            lhs_index=idx, finding=None, scenario_repr=cp.dump_scn(scn)))
            break
    return out


def known_findings():
    """the stale-entry findings D1 / D19 seen through C08: two with_default_options siblings of one dataset
    (shared cache) that differ only in a key the cached body reads without reporting it"""
    from gen import K
    out = []
    S = core.S
    # D1: the body reads the whole section K20, whose string value references K23 (supplied by the default layers)
    d1 = dict(ftable={100: ("tag",)}, env={1: dict(fid=100, kwargs=[("option", K(20), None, None)]),
                                            2: dict(derived=1, how="with_default_options", preset={23: 5}),
                                            3: dict(derived=1, how="with_default_options", preset={23: 77})},
              exprs=[("dataset", 2), ("dataset", 3)])
    o1 = {20: {22: S(("ref", K(23)))}}
    # D19: a coalesce member that reads K10 (present only through the default layer) and then misses K11
    d19 = dict(ftable={100: ("tag",)},
               env={1: dict(fid=100, kwargs=[("coalesce", [("switch", ("option", K(10), ("value", ("j", 2)), None),
                                                              [(("j", 1), ("option", K(11), None, None)), (("j", 2), ("value", ("j", core.lit("c"))))], None),
                                                             ("value", ("j", core.lit("d")))])]),
                    2: dict(derived=1, how="with_default_options", preset={10: 1}),
                    3: dict(derived=1, how="with_default_options", preset={12: 0})},
               exprs=[("dataset", 2), ("dataset", 3)])
    for fid, scn, o, what in (("D1", d1, o1, "templated string inside a section value read whole: siblings with_default_options({'K23':5}) then "
                                             "({'K23':77}) of one dataset under {'K20':{'K21Y':'{K23}'}}: the second is served the first's value"),
                              ("D19", d19, {}, "a coalesce member that read a key supplied by one sibling's default layer and was passed over: "
                                               "with_default_options({'K10':1}) then ({'K12':0}) under {}: the second is served the first's value")):
        lines = core.run_impl(dict(scn, ops=[("evaluate", 0, False, False, o), ("evaluate", 1, False, False, o)]))
        fresh = cp.fresh_eval(scn, 1, o, method="evaluate", disabled=False)
        out.append(dict(id=fid, still_fails=cp.outcome(lines[1]) != cp.outcome(fresh), what=what))
    return out


def mutation_check(scn):
    """run the ops while holding deep snapshots of every dictionary handed to labrea"""
    out = []
    w = core.World(scn["ftable"])
    b = core.Builder(w, scn["env"])
    presets = []
    orig_py_json = core.py_json

    def tracking(j):
        r = orig_py_json(j)
        if isinstance(r, dict):
            presets.append((r, copy.deepcopy(r)))
        return r
    core.py_json = tracking
    try:
        objs = [b.build(e) for e in scn["exprs"]]
    finally:
        core.py_json = orig_py_json
    for (m, i, cc, lc, o) in scn["ops"]:
        po = core.py_json(o)
        snap = copy.deepcopy(po)
        try:
            r = getattr(objs[i], m)(po)
            if m == "evaluate":
                core.force(r)
        except Exception:
            pass
        if po != snap or repr(po) != repr(snap):
            out.append(dict(desc=f"{m} modified the caller's options dictionary", before=repr(snap), after=repr(po),
                            finding=None, scenario_repr=cp.dump_scn(scn)))
            break
        for live, snap_p in presets:
            if live != snap_p or repr(live) != repr(snap_p):
                out.append(dict(desc=f"{m} modified a pre-set/default options dictionary", before=repr(snap_p), after=repr(live),
                                finding=None, scenario_repr=cp.dump_scn(scn)))
                return out
    return out


def replay(ctx, payload):
    if "kind_case" in payload:
        c = cp.load_scn(payload["kind_case"])
        v, kl = check_kinds(c)
        mm, _ = kind_correspondence(ctx, [(c, kl)], "Replay_C08_kinds")
        return bool(v) or bool(mm), dict(mapping_kind=c["kind"], plan=c["plan"], ops=[(op[0], repr(op[4])) for op in c["scn"]["ops"]], observed=kl,
                                         violations=[{k: x.get(k) for k in ("desc", "op_index", "got", "want", "before", "after")} for x in v],
                                         model_mismatch=[{k: x[k] for k in ("op", "impl", "model")} for x in mm])
    if "wrap_case" in payload:
        c = cp.load_scn(payload["wrap_case"])
        v, _ = check_wrap(c)
        return bool(v), dict(definition=c["defn"], decorator=c["deco"], derive=c["derive"], history=c["hist"],
                             violations=[{k: x[k] for k in ("desc", "step", "op", "got", "want")} for x in v])
    if "late_case" in payload:
        c = cp.load_scn(payload["late_case"])
        v, obs, _ = check_late(c)
        mm, _ = late_correspondence(ctx, [(c, obs)], "Replay_C08_late")
        return bool(v) or bool(mm), dict(observed={k: [x[0] for x in xs] for k, xs in obs.items()},
                                         violations=[{k: x[k] for k in ("desc", "stage", "lhs", "rhs")} for x in v],
                                         model_mismatch=[{k: x[k] for k in ("method", "impl", "model")} for x in mm])
    if "scenario_repr" not in payload:
        for b in payload.get("broken", []):
            if isinstance(b, dict) and (b.get("late_case") or b.get("kind_case")):
                return replay(ctx, b)
        return True, {"note": "payload carries no scenario (a proof obligation or the build broke); re-run the check"}
    scn = cp.load_scn(payload["scenario_repr"])
    detail = {}
    still = False
    if "same_dict_history" in payload:
        dicts = eval(payload["same_dict_history"], {"S": core.S})
        v = same_dict_object_check(scn, payload["lhs_index"], dicts)
        return bool(v), dict(violations=[{k: x[k] for k in ("call", "got", "want")} for x in v])
    if "lhs_index" in payload:
        o = eval(payload["options"], {"S": core.S})
        eff = eval(payload["overlaid"], {"S": core.S})
        for meth in ("evaluate", "validate"):
            a = cp.fresh_eval(scn, payload["lhs_index"], o, method=meth, disabled=False, raw=True)
            b = cp.fresh_eval(scn, payload["rhs_index"], eff, method=meth, disabled=False, raw=True)
            detail[meth] = (cp.outcome(a[0]), cp.outcome(b[0]))
            still = still or not cp.same_outcome(a[0], a[1], b[0], b[1])
    elif scn.get("ops"):
        if "modified" in payload.get("desc", ""):
            still = bool(mutation_check(scn))
        else:
            il = core.run_impl(scn)
            ml = ctx.coq_eval("Replay_C08", cp.REQ, "", [core.coq_scenario(scn)])[0].split(" ## ")
            still = not cp.agrees(il, ml, scn)
            detail = dict(impl=il, model=[cp.strip_ghost(x) for x in ml])
    return still, detail
