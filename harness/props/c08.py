"""C08 - pre-set options override, defaults yield, sections merge; inputs never mutated."""
import copy

import coreprop as cp
import core
import gen
import lib
from witnesses import corpus_for

PID = "C08"
COQ_TARGETS = cp.COQ_TARGETS


def overlay(base, top):
    """the property's 'base overlaid by top' (top wins, nested sections merged key by key),
    written independently of confectioner.mix"""
    out = dict(base)
    for k, v in top.items():
        if isinstance(v, dict):
            out[k] = overlay(out[k] if isinstance(out.get(k), dict) else {}, v)
        else:
            out[k] = v
    return out


def retag(p):
    """same shape, every leaf replaced by a value no generator produces elsewhere"""
    return {k: (retag(v) if isinstance(v, dict) else 77) for k, v in p.items()}


def leaf_keys(d, prefix=()):
    out = []
    for k, v in d.items():
        if isinstance(v, dict) and v:
            out += leaf_keys(v, prefix + (k,))
        else:
            out.append(prefix + (k,))
    return out


def plain(d):
    """the same dataset definition without pre-set / default options"""
    return {k: v for k, v in d.items() if k not in ("options", "default_options")}


def cases(rng):
    """(scenario, description of the equivalent plain evaluation) pairs"""
    g = gen.Gen(rng, with_presets=False, with_effects=True, with_alloptions=False, max_ds=3)
    base = g.scenario(n_exprs=1, depth=2, n_ops=0)
    pool = g.dict_pool()
    out = []
    x = base["exprs"][0]
    # 1. wrapper combinators, nested up to depth 3
    ws = [(rng.random() < 0.5, gen.rand_preset(rng)) for _ in range(rng.randint(1, 3))]
    wrapped = x
    for f, p in reversed(ws):
        wrapped = ("with", f, p, wrapped)
    for o in rng.sample(pool, min(3, len(pool))):
        eff = o
        for f, p in ws:
            eff = overlay(eff, p) if f else overlay(p, eff)
        out.append(dict(kind="wrappers depth %d" % len(ws), scn=dict(base, exprs=[wrapped, x]), o=o, eff=eff, lhs=0, rhs=1))
    # 2. dataset decorator options / default_options and derivatives
    dsids = [i for i, d in base["env"].items() if d.get("derived") is None]
    if dsids:
        i = rng.choice(dsids)
        P, D, P2 = gen.rand_preset(rng), gen.rand_preset(rng), gen.rand_preset(rng)
        env = dict(base["env"])
        n = max(env) + 1
        env[n] = dict(env[i], options=P, default_options=D)          # decorated with presets
        leaves = leaf_keys(overlay(overlay(D, P), P2))
        if leaves and rng.random() < 0.5:
            # an effect whose callback reads an option that (possibly only) a pre-set / default layer supplies:
            # evaluate AND validate must see it through the layers (the plain copy below gets the same effect)
            fid = max(list(base["ftable"]) + [199]) + 1
            base = dict(base, ftable={**base["ftable"], fid: ("tag",)})
            eff = ("pstep", fid, [("option", gen.K(*rng.choice(leaves)), None, None)])
            env[n] = dict(env[n], effects=list(env[n].get("effects") or []) + [eff])
        env[n + 1] = dict(derived=n, how="with_options", preset=P2)
        env[n + 2] = dict(derived=n, how="with_default_options", preset=P2)
        env[n + 3] = dict(plain(env[n]))                               # plain copy (own cache), same body / callback / effects
        P3 = retag(P2)                                                  # same keys as P2, other values
        env[n + 4] = dict(derived=n, how="with_default_options", preset=P3)
        env[n + 5] = dict(derived=n, how="with_options", preset=P3)
        scn = dict(base, env=env, exprs=[("dataset", n), ("dataset", n + 1), ("dataset", n + 2), ("dataset", n + 3),
                                         ("dataset", n + 4), ("dataset", n + 5)])
        # siblings derived from one dataset share its cache: evaluated one after the other on ONE long-lived
        # graph under the same caller options, each must still see its own layer
        for o in rng.sample(pool, min(2, len(pool))):
            seq = [(2, overlay(overlay(overlay(D, P2), o), P)), (4, overlay(overlay(overlay(D, P3), o), P)),
                   (0, overlay(overlay(D, o), P)), (1, overlay(overlay(D, o), overlay(P, P2))),
                   (5, overlay(overlay(D, o), overlay(P, P3))), (2, overlay(overlay(overlay(D, P2), o), P))]
            rng.shuffle(seq)
            out.append(dict(kind="siblings sharing one cache (history)", scn=scn, o=o, seq=seq, rhs=3))
        for o in rng.sample(pool, min(3, len(pool))):
            out.append(dict(kind="dataset options/default_options", scn=scn, o=o, eff=overlay(overlay(D, o), P), lhs=0, rhs=3))
            out.append(dict(kind="with_options derivative", scn=scn, o=o, eff=overlay(overlay(D, o), overlay(P, P2)), lhs=1, rhs=3))
            out.append(dict(kind="with_default_options derivative", scn=scn, o=o, eff=overlay(overlay(overlay(D, P2), o), P), lhs=2, rhs=3))
    return out, base, pool


def run(ctx):
    rng = ctx.rng
    n = 120 if ctx.quick else 1500
    violations, checks, kinds, distinct, tagged = [], 0, {}, set(), {}
    corr_scns = [s for _, s in corpus_for(PID)]
    for _ in range(n):
        cs, base, pool = cases(rng)
        for c in cs:
            scn = c["scn"]
            if c["kind"].startswith("wrappers") and c is cs[0]:
                seqd = [x["o"] for x in cs if x["kind"] == c["kind"]] + [c["o"]]
                checks += len(seqd)
                for v in same_dict_object_check(scn, c["lhs"], seqd):
                    # the wrapper is long-lived, so datasets below it keep their caches across the calls: inside the zone
                    # of a recorded stale-entry finding the difference is that finding, not the wrapper's
                    hscn = dict(scn, ops=[(m, c["lhs"], False, False, o2) for o2 in seqd[:v["call"] + 1] for m in ("evaluate", "validate")])
                    ml = ctx.coq_eval(f"Zone_C08_sd_{checks}", cp.REQ, "", [core.coq_scenario(hscn)])[0].split(" ## ")
                    if any(cp.is_dirty(x) for x in ml) and cp.agrees(core.run_impl(hscn), ml, hscn):
                        v["finding"] = cp.zone_of(hscn)
                        tagged[v["finding"]] = tagged.get(v["finding"], 0) + 1
                    violations.append(v)
            if "seq" in c:
                raws = []
                lines = core.run_impl(dict(scn, ops=[("evaluate", i, False, False, c["o"]) for i, _ in c["seq"]]), raw_out=raws)
                for j, ((i, eff), line) in enumerate(zip(c["seq"], lines)):
                    b = cp.fresh_eval(scn, c["rhs"], eff, method="evaluate", disabled=False, raw=True)
                    checks += 1
                    kinds[c["kind"]] = kinds.get(c["kind"], 0) + 1
                    if not cp.same_outcome(line, raws[j], b[0], b[1]):
                        # siblings share one cache: inside the zone of a recorded stale-entry finding (the model marks the
                        # history dirty and agrees with the implementation) the difference is that finding, seen through C08
                        hscn = dict(scn, ops=[("evaluate", i2, False, False, c["o"]) for i2, _ in c["seq"]])
                        ml = ctx.coq_eval(f"Zone_C08_{checks}", cp.REQ, "", [core.coq_scenario(hscn)])[0].split(" ## ")
                        zone = cp.zone_of(dict(hscn, ops=hscn["ops"] + [("evaluate", 0, False, False, e2) for _, e2 in c["seq"]]))
                        finding = zone if (any(cp.is_dirty(x) for x in ml[:j + 1]) and cp.agrees(lines, ml, hscn)) else None
                        if finding:
                            tagged[finding] = tagged.get(finding, 0) + 1
                        violations.append(dict(finding=finding, desc="siblings derived from one dataset (shared cache), evaluated one after the other under the same caller "
                                                    "options: a derivative does not evaluate like the plain object under ITS overlaid dictionary",
                                               position=j, lhs=cp.outcome(line), rhs=cp.outcome(b[0]), options=repr(c["o"]), overlaid=repr(eff),
                                               sequence=repr([i for i, _ in c["seq"]]),
                                               scenario_repr=cp.dump_scn(dict(scn, ops=[("evaluate", i, False, False, c["o"]) for i, _ in c["seq"]]))))
                        break
                continue
            for meth in ("evaluate", "validate"):
                raws = []
                a = cp.fresh_eval(scn, c["lhs"], c["o"], method=meth, disabled=False, raw=True)
                b = cp.fresh_eval(scn, c["rhs"], c["eff"], method=meth, disabled=False, raw=True)
                checks += 1
                kinds[c["kind"]] = kinds.get(c["kind"], 0) + 1
                if not cp.same_outcome(a[0], a[1], b[0], b[1]):
                    violations.append(dict(desc=f"{c['kind']}: {meth} under caller options differs from {meth} of the plain object under the independently overlaid dictionary",
                                           lhs=cp.outcome(a[0]), rhs=cp.outcome(b[0]), options=repr(c["o"]), overlaid=repr(c["eff"]),
                                           lhs_index=c["lhs"], rhs_index=c["rhs"], finding=None, scenario_repr=cp.dump_scn(scn)))
                elif cp.split(a[0])[0].startswith("ok:") and c["o"]:
                    distinct.add(lib.stable_hash([cp.dump_scn(scn), repr(c["o"]), c["lhs"]]))
            # a history for the correspondence: all four methods on the wrapped object
            ops = [(m, c["lhs"], False, False, c["o"]) for m in ("evaluate", "keys", "explain", "validate")]
            corr_scns.append(dict(scn, ops=ops))
        # inputs are never modified: deep snapshots around every method
        scn = cs[0]["scn"] if cs else base
        world_ops = [(m, i, False, False, o) for o in pool[:3] for i in range(len(scn["exprs"]))
                     for m in ("evaluate", "validate", "keys", "explain")]
        mut = mutation_check(dict(scn, ops=world_ops))
        checks += len(world_ops)
        violations.extend(mut)
    corr_scns = corr_scns[: (700 if ctx.quick else 8000)]
    impls, models, mism, stats = cp.correspondence(ctx, corr_scns, "Cases_C08")
    # round 3: derivatives / wrappers made BEFORE a registration on their base, evaluated after it (generated after the
    # older streams, which therefore stay as they were)
    late = []
    for _ in range(150 if ctx.quick else 1800):
        for c in late_cases(rng):
            v, obs, k = check_late(c)
            checks += k
            kinds[c["kind"]] = kinds.get(c["kind"], 0) + k
            for mu in c["hist"] + c["pre"]:
                kinds["late:" + mu[1][0]] = kinds.get("late:" + mu[1][0], 0) + 1
            if c["eval_before"]:
                kinds["late:evaluated before and after"] = kinds.get("late:evaluated before and after", 0) + 1
            violations.extend(v)
            late.append((c, obs))
    # ... and the model on the state AT the evaluation (everything registered): Model/Derived.v's derivative of the base record
    # as it is then must give the results the implementation gives after the history (results only; the model has no histories)
    late_mism, late_ops = late_correspondence(ctx, late, "Cases_C08_late")
    mism.extend(late_mism)
    stats["late_history_ops"] = late_ops
    return {
        "evaluations": checks + stats["ops"],
        "distinct_nontrivial": len(distinct),
        "rule": "random expressions X (datasets with callbacks/effects/overloads included) wrapped in 1-3 forced/default wrappers, and dataset "
                "definitions with options=/default_options= plus with_options/with_default_options derivatives, with P, D, o overlapping inside one "
                "section; each compared (evaluate and validate) with the plain object under a dictionary overlaid by an independent 8-line merge; "
                "non-trivial = caller dictionary non-empty and the evaluation succeeds; distinct by hash of (scenario, dictionary, object). "
                "Histories: derivatives (with_options / with_default_options chains, WithOptions wrappers) made BEFORE an overload is registered on their "
                "base (register, @overload on a function / a dataset / a list alias, an implementation class of an interface the base is a member of), "
                "with value-neutral mutators interleaved, evaluated after it and compared with the plain base described with everything registered. "
                "Mutation: deep snapshots of the caller's dictionary and of every pre-set dictionary around evaluate/validate/keys/explain.",
        "samples": [dict(kind=c["kind"], options=repr(c["o"]), overlaid=repr(c["eff"])) for c in (cases(ctx.rng)[0][:3])],
        "traces_validated_against_impl": stats["ops"] + late_ops,
        "correspondence_mismatches": mism[:5],
        "violations": violations,
        "known": known_findings(),
        "distribution": dict(stats, oracle_checks=checks, by_kind=kinds, tagged=tagged),
        "exhaustive": False,
        "assumptions": ["the model is pure: 'inputs never mutated' is decided on the implementation by deep snapshots (runtime part, partial)"],
        "trusted_base": ["confectioner.mix is modelled (Base.mix) and validated by the correspondence; the oracle's overlay is an independent re-implementation of the property text"],
    }


# ----------------------------------------------------------------------------- round 3: a history between derivation and evaluation
# y = x.with_options(P) / x.with_default_options(D) / chains of both / WithOptions(x, P) wrappers are made FIRST; then x is
# changed through its public mutators (an overload registered by x.register, @x.overload on a function or on a dataset, a
# list alias, an implementation class of an interface x is a member of; value-neutral ones interleaved: add_effects,
# disable/enable_effects, set_cache, further derivatives); then y is evaluated / validated.  The property speaks about
# "evaluating X under o overlaid by P": X is the object as it is when the evaluation happens, so y must give what the plain
# x, described WITH everything registered so far, gives under the independently overlaid dictionary.

LATE_KEYS = [gen.K(10), gen.K(11), gen.K(12), gen.K(gen.SEC, gen.SX), gen.K(gen.SEC, gen.SY), gen.K(*gen.DEEP)]
NEUTRAL = ["add_effects", "disable_effects", "enable_effects", "set_cache_mem", "set_cache_none", "sibling_with_options",
           "sibling_with_default_options"]


def at_key(k, v):
    """the dictionary holding v under the dotted key k"""
    out = v
    for seg in reversed(k):
        out = {seg[1]: out}
    return out


def late_cases(rng):
    g = gen.Gen(rng, with_presets=False, with_effects=True, with_alloptions=False, max_ds=3)
    base = g.scenario(n_exprs=1, depth=2, n_ops=0)
    pool = g.dict_pool()
    env = dict(base["env"])
    i = rng.choice(sorted(env))
    n = max(env) + 1
    d0 = dict(env[i])
    dk = rng.choice(LATE_KEYS)
    d0["dispatch"] = ("option", dk, ("value", ("j", rng.choice(gen.DISPATCH_VALS))) if rng.random() < 0.25 else None, None)
    vals = list(gen.DISPATCH_VALS)
    rng.shuffle(vals)
    early = [(("j", v), g.leaf()) for v in vals[:rng.choice([0, 0, 1])]]
    d0["overloads"] = early
    d0.pop("abstract", None)
    if rng.random() < 0.2:
        d0["abstract"] = True
    d0["cache"] = "none" if rng.random() < 0.5 else "mem"
    P0, D0 = (gen.rand_preset(rng) if rng.random() < 0.4 else {}), (gen.rand_preset(rng) if rng.random() < 0.4 else {})
    if P0:
        d0["options"] = P0
    if D0:
        d0["default_options"] = D0
    # the registrations made after the derivatives exist
    late, muts = [], []
    start = len(early) - 1 if (early and rng.random() < 0.3) else len(early)      # sometimes an early alias is registered again
    for a in vals[start:start + rng.choice([1, 1, 2])]:
        form = rng.choice(["register", "register", "overload_fn", "overload_fn", "overload_ds", "implements"])
        if form == "implements" and a is None:
            form = "register"       # @implements needs an alias
        if form == "overload_ds":
            m = rng.choice(sorted(env))
            muts.append((("overload_ds", [a], m, rng.random() < 0.3), [(("j", a), ("dataset", m))]))
        elif form == "overload_fn":
            m = n + 20 + len(muts)
            env[m] = dict(fid=g.body_fid(), kwargs=[g.leaf() for _ in range(rng.randint(0, 2))])
            als = [a] + ([x for x in vals if x != a][:1] if rng.random() < 0.3 else [])
            muts.append((("overload_fn", als, m, len(als) > 1 or rng.random() < 0.3), [(("j", a2), ("dataset", m)) for a2 in als]))
        else:
            impl = rng.choice([g.leaf(), ("call", g.body_fid(), [g.leaf() for _ in range(rng.randint(0, 2))])])
            muts.append(((form, a, impl), [(("j", a), impl)]))
    rng.shuffle(muts)
    late = [e for _, es in muts for e in es]      # in the order the history performs them: the last registration of an alias wins
    muts = [mu for mu, _ in muts]
    iface = any(mu[0] == "implements" for mu in muts)
    noise = [(rng.choice(NEUTRAL), gen.rand_preset(rng)) for _ in range(rng.choice([0, 0, 1, 2]))]
    hist = [("mut", mu) for mu in muts]
    for x in noise:
        hist.insert(rng.randint(0, len(hist)), ("noise", x))
    pre = [("noise", (rng.choice(NEUTRAL[:5] + ["set_dispatch_same"]), {})) for _ in range(rng.choice([0, 0, 1]))]
    # the derivation chain: 1-3 dataset derivatives, then 0-2 wrapper combinators around the last one
    steps = [(rng.choice(["with_options", "with_default_options"]), gen.rand_preset(rng)) for _ in range(rng.choice([1, 1, 2, 3]))]
    wraps = [(rng.random() < 0.5, gen.rand_preset(rng)) for _ in range(rng.choice([0, 0, 0, 1, 2]))]
    a_sel = late[0][0][1]
    if rng.random() < 0.7:      # a layer of the chain itself selects a late overload (else the caller / another layer may)
        j = rng.randrange(len(steps))
        steps[j] = (steps[j][0], overlay(steps[j][1], at_key(dk, a_sel)))
    env_before = dict(env)
    env_before[n] = dict(d0)
    env_after = dict(env)
    env_after[n] = dict(d0, overloads=early + late)
    cur = n
    for j, (how, p) in enumerate(steps):
        env_after[n + 1 + j] = dict(derived=cur, how=how, preset=p)
        env_before[n + 1 + j] = dict(derived=cur, how=how, preset=p)
        cur = n + 1 + j
    env_after[n + 10] = plain(env_after[n])
    env_before[n + 10] = plain(env_before[n])
    yexpr = ("dataset", cur)
    for f, p in wraps:
        yexpr = ("with", f, p, yexpr)
    ft = dict(g.ftable)
    out = []
    os_ = rng.sample(pool, min(2, len(pool)))
    if rng.random() < 0.6:
        os_.append(overlay(rng.choice(pool), at_key(dk, a_sel)))      # the caller's dictionary selects the late overload
    for o in os_:
        o = dict(o)
        eff = o
        for f, p in reversed(wraps):          # outermost wrapper first
            eff = overlay(eff, p) if f else overlay(p, eff)
        Pacc, Dacc = P0, D0
        for how, p in steps:
            if how == "with_options":
                Pacc = overlay(Pacc, p)
            else:
                Dacc = overlay(Dacc, p)
        eff = overlay(overlay(Dacc, eff), Pacc)
        out.append(dict(kind="derivative made before a registration on its base", ftable=ft, env_before=env_before, env_after=env_after,
                        x=n, steps=steps, wraps=wraps, pre=pre, hist=hist, iface=iface, yexpr=yexpr, plain_idx=n + 10,
                        o=o, eff=eff, eval_before=d0["cache"] == "none" and rng.random() < 0.5))
    return out


def run_late(c):
    """drive the history on the implementation (public API only); returns the observations
    {'before': [evaluate], 'after': [evaluate, validate]} as (canonical result, raw value) pairs"""
    import labrea
    from labrea.cache import MemoryCache, NoCache
    n = c["x"]
    scn0 = dict(ftable=c["ftable"], env=c["env_before"], exprs=[("dataset", n)], ops=[])
    _, objs, w, b = core.run_impl(scn0, want_objects=True)
    x = objs[0]
    keep = []

    def neutral(kind, p):
        if kind == "add_effects":
            def eff(v):
                w.calls.append("late-effect")
            keep.append(eff)
            x.add_effects(eff)
        elif kind == "disable_effects":
            x.disable_effects()
        elif kind == "enable_effects":
            x.enable_effects()
        elif kind == "set_cache_mem":
            x.set_cache(MemoryCache())
        elif kind == "set_cache_none":
            x.set_cache(NoCache())
        elif kind == "set_dispatch_same":      # (only before the derivatives are made: they share the registry x has THEN)
            x.set_dispatch(b.build(c["env_before"][n]["dispatch"]))
        elif kind == "sibling_with_options":
            keep.append(x.with_options(core.py_json(p)))
        elif kind == "sibling_with_default_options":
            keep.append(x.with_default_options(core.py_json(p)))

    for _, (kind, p) in c["pre"]:
        if not (kind.startswith("set_cache") and c["env_before"][n].get("cache") == "none" and c["eval_before"]):
            neutral(kind, p)
        # (a cache given to an uncached x before the first evaluation would store it: then the later registration
        #  legitimately does not apply to that dictionary any more)
    I = None
    if c["iface"]:
        I = labrea.interface(b.build(c["env_before"][n]["dispatch"]))(type("LateIface", (), {"m": x}))
        assert I.m is x
    y = x
    for how, p in c["steps"]:
        y = y.with_options(core.py_json(p)) if how == "with_options" else y.with_default_options(core.py_json(p))
    for f, p in c["wraps"]:                   # the last one is the outermost
        y = labrea.WithOptions(y, core.py_json(p), force=f)

    def observe(meth):
        po = core.py_json(c["o"])
        try:
            if meth == "evaluate":
                raw = core.force(y.evaluate(po))
                return core.canon_names("ok:" + core.show(raw)), raw
            y.validate(po)
            return "ok:()", None
        except RecursionError:
            return "err:fuel:F", None
        except Exception as exc:  # noqa
            cause, ee = core.classify(exc)
            return core.canon_names(f"err:{cause}:{'T' if ee else 'F'}"), None

    obs = dict(before=[], after=[])
    if c["eval_before"]:
        obs["before"].append(observe("evaluate"))
    for what, mu in c["hist"]:
        if what == "noise":
            if mu[0].startswith("set_cache") and c["eval_before"]:
                continue
            neutral(*mu)
        elif mu[0] == "register":
            x.register(core.py_value(("j", mu[1])), b.build(mu[2]))
        elif mu[0] == "implements":
            labrea.implements(I, alias=core.py_value(("j", mu[1])))(type("LateImpl", (), {"m": b.build(mu[2])}))
        elif mu[0] == "overload_ds":
            als = [core.py_value(("j", a)) for a in mu[1]]
            x.overload(als if mu[3] else als[0])(b.dataset(mu[2]))
        elif mu[0] == "overload_fn":
            d = c["env_after"][mu[2]]
            f = w.kwfn(d["fid"], len(d["kwargs"]))
            f.__defaults__ = tuple(b.build(e) for e in d["kwargs"])       # def f(a0=<Evaluatable>, ...): the decorator reads the signature
            f.__name__ = f.__qualname__ = f"ds{mu[2]}"
            als = [core.py_value(("j", a)) for a in mu[1]]
            x.overload(als if mu[3] else als[0])(f)
    obs["after"] = [observe("evaluate"), observe("validate")]
    return obs


def check_late(c):
    """the oracle on one case; returns (violations, observations, checks)"""
    out = []
    obs = run_late(c)
    checks = 0
    stages = [("after", "env_after", ("evaluate", "validate"))]
    if c["eval_before"]:
        stages.insert(0, ("before", "env_before", ("evaluate",)))
    for stage, envk, meths in stages:
        scn = dict(ftable=c["ftable"], env=c[envk], exprs=[("dataset", c["plain_idx"])])
        for meth, (line, raw) in zip(meths, obs[stage]):
            b = cp.fresh_eval(scn, 0, c["eff"], method=meth, disabled=False, raw=True)
            checks += 1
            if not cp.same_outcome(line + "|", raw, b[0], b[1]):
                out.append(dict(desc=f"{c['kind']}: {meth} of the derivative ({'after' if stage == 'after' else 'before'} the registration) differs from {meth} of the "
                                     "plain object, as it is at that moment, under the independently overlaid dictionary",
                                stage=stage, lhs=cp.outcome(line + "|"), rhs=cp.outcome(b[0]), options=repr(c["o"]), overlaid=repr(c["eff"]),
                                history=repr([("derive", c["steps"], c["wraps"])] + c["hist"]), finding=None, late_case=cp.dump_scn(c)))
                return out, obs, checks
    return out, obs, checks


def late_correspondence(ctx, late, name):
    """model (static description of the state at the evaluation) vs the implementation's results after the history"""
    mism, ops = [], 0
    louts = ctx.coq_eval(name, cp.REQ, "", [core.coq_scenario(late_scenario(c)) for c, _ in late], shard=30) if late else []
    for (c, obs), lo in zip(late, louts):
        ls = late_scenario(c)
        multi = cp._multi_ref(ls["exprs"]) or cp._multi_ref(ls["env"]) or cp._multi_ref([c["o"]])
        for meth, (line, _), ml in zip(("evaluate", "validate"), obs["after"], lo.split(" ## ")):
            ops += 1
            if not cp.same(line + "|" + cp.strip_ghost(ml).partition("|")[2], ml, multi):
                mism.append(dict(where="Model/Derived.v (derivative of the base record as it is at the evaluation) vs labrea (derivative made before the registration)",
                                 method=meth, impl=line, model=cp.split(cp.strip_ghost(ml))[0], late_case=cp.dump_scn(c)))
                break
            if "unmod" in ml:
                break
    return mism, ops


def late_scenario(c):
    """the static description of the state at the evaluation (for the model): everything registered, y, the two methods"""
    return dict(ftable=c["ftable"], env=c["env_after"], exprs=[c["yexpr"]],
                ops=[("evaluate", 0, False, False, c["o"]), ("validate", 0, False, False, c["o"])])


def same_dict_object_check(scn, idx, dicts):
    """one long-lived wrapper object, called repeatedly with the SAME caller dictionary object, updated in place
    between the calls (a parameter sweep): every call must see the dictionary as it is at that call"""
    _, objs, _, _ = core.run_impl(dict(scn, ops=[]), want_objects=True)
    po = {}
    out = []
    for j, o in enumerate(dicts):
        po.clear()
        po.update(core.py_json(o))
        got = []
        for meth in ("evaluate", "validate"):
            try:
                r = getattr(objs[idx], meth)(po)
                got.append("ok:" + core.show(core.force(r)) if meth == "evaluate" else "ok:()")
            except Exception as exc:  # noqa
                got.append("err")
        want = [cp.outcome(cp.fresh_eval(scn, idx, o, method=m, disabled=False)) for m in ("evaluate", "validate")]
        want = [w if w.startswith("ok:") else "err" for w in want]
        if [core.canon_names(g) for g in got] != want:
            out.append(dict(desc="a long-lived wrapper called again with the same caller dictionary object, updated in place, does not see "
                                 "the update", call=j, got=got, want=want, options=repr(o), same_dict_history=repr(dicts[:j + 1]),
                            lhs_index=idx, finding=None, scenario_repr=cp.dump_scn(scn)))
            break
    return out


def known_findings():
    """the stale-entry findings D1 / D19 seen through C08: two with_default_options siblings of one dataset
    (shared cache) that differ only in a key the cached body reads without reporting it"""
    from gen import K
    out = []
    S = core.S
    # D1: the body reads the whole section K20, whose string value references K23 (supplied by the default layers)
    d1 = dict(ftable={100: ("tag",)}, env={1: dict(fid=100, kwargs=[("option", K(20), None, None)]),
                                            2: dict(derived=1, how="with_default_options", preset={23: 5}),
                                            3: dict(derived=1, how="with_default_options", preset={23: 77})},
              exprs=[("dataset", 2), ("dataset", 3)])
    o1 = {20: {22: S(("ref", K(23)))}}
    # D19: a coalesce member that reads K10 (present only through the default layer) and then misses K11
    d19 = dict(ftable={100: ("tag",)},
               env={1: dict(fid=100, kwargs=[("coalesce", [("switch", ("option", K(10), ("value", ("j", 2)), None),
                                                              [(("j", 1), ("option", K(11), None, None)), (("j", 2), ("value", ("j", core.lit("c"))))], None),
                                                             ("value", ("j", core.lit("d")))])]),
                    2: dict(derived=1, how="with_default_options", preset={10: 1}),
                    3: dict(derived=1, how="with_default_options", preset={12: 0})},
               exprs=[("dataset", 2), ("dataset", 3)])
    for fid, scn, o, what in (("D1", d1, o1, "templated string inside a section value read whole: siblings with_default_options({'K23':5}) then "
                                             "({'K23':77}) of one dataset under {'K20':{'K21Y':'{K23}'}}: the second is served the first's value"),
                              ("D19", d19, {}, "a coalesce member that read a key supplied by one sibling's default layer and was passed over: "
                                               "with_default_options({'K10':1}) then ({'K12':0}) under {}: the second is served the first's value")):
        lines = core.run_impl(dict(scn, ops=[("evaluate", 0, False, False, o), ("evaluate", 1, False, False, o)]))
        fresh = cp.fresh_eval(scn, 1, o, method="evaluate", disabled=False)
        out.append(dict(id=fid, still_fails=cp.outcome(lines[1]) != cp.outcome(fresh), what=what))
    return out


def mutation_check(scn):
    """run the ops while holding deep snapshots of every dictionary handed to labrea"""
    out = []
    w = core.World(scn["ftable"])
    b = core.Builder(w, scn["env"])
    presets = []
    orig_py_json = core.py_json

    def tracking(j):
        r = orig_py_json(j)
        if isinstance(r, dict):
            presets.append((r, copy.deepcopy(r)))
        return r
    core.py_json = tracking
    try:
        objs = [b.build(e) for e in scn["exprs"]]
    finally:
        core.py_json = orig_py_json
    for (m, i, cc, lc, o) in scn["ops"]:
        po = core.py_json(o)
        snap = copy.deepcopy(po)
        try:
            r = getattr(objs[i], m)(po)
            if m == "evaluate":
                core.force(r)
        except Exception:
            pass
        if po != snap or repr(po) != repr(snap):
            out.append(dict(desc=f"{m} modified the caller's options dictionary", before=repr(snap), after=repr(po),
                            finding=None, scenario_repr=cp.dump_scn(scn)))
            break
        for live, snap_p in presets:
            if live != snap_p or repr(live) != repr(snap_p):
                out.append(dict(desc=f"{m} modified a pre-set/default options dictionary", before=repr(snap_p), after=repr(live),
                                finding=None, scenario_repr=cp.dump_scn(scn)))
                return out
    return out


def replay(ctx, payload):
    if "late_case" in payload:
        c = cp.load_scn(payload["late_case"])
        v, obs, _ = check_late(c)
        mm, _ = late_correspondence(ctx, [(c, obs)], "Replay_C08_late")
        return bool(v) or bool(mm), dict(observed={k: [x[0] for x in xs] for k, xs in obs.items()},
                                         violations=[{k: x[k] for k in ("desc", "stage", "lhs", "rhs")} for x in v],
                                         model_mismatch=[{k: x[k] for k in ("method", "impl", "model")} for x in mm])
    if "scenario_repr" not in payload:
        for b in payload.get("broken", []):
            if isinstance(b, dict) and b.get("late_case"):
                return replay(ctx, b)
        return True, {"note": "payload carries no scenario (a proof obligation or the build broke); re-run the check"}
    scn = cp.load_scn(payload["scenario_repr"])
    detail = {}
    still = False
    if "same_dict_history" in payload:
        dicts = eval(payload["same_dict_history"], {"S": core.S})
        v = same_dict_object_check(scn, payload["lhs_index"], dicts)
        return bool(v), dict(violations=[{k: x[k] for k in ("call", "got", "want")} for x in v])
    if "lhs_index" in payload:
        o = eval(payload["options"], {"S": core.S})
        eff = eval(payload["overlaid"], {"S": core.S})
        for meth in ("evaluate", "validate"):
            a = cp.fresh_eval(scn, payload["lhs_index"], o, method=meth, disabled=False, raw=True)
            b = cp.fresh_eval(scn, payload["rhs_index"], eff, method=meth, disabled=False, raw=True)
            detail[meth] = (cp.outcome(a[0]), cp.outcome(b[0]))
            still = still or not cp.same_outcome(a[0], a[1], b[0], b[1])
    elif scn.get("ops"):
        if "modified" in payload.get("desc", ""):
            still = bool(mutation_check(scn))
        else:
            il = core.run_impl(scn)
            ml = ctx.coq_eval("Replay_C08", cp.REQ, "", [core.coq_scenario(scn)])[0].split(" ## ")
            still = not cp.agrees(il, ml, scn)
            detail = dict(impl=il, model=[cp.strip_ghost(x) for x in ml])
    return still, detail
