"""C14 — handler scoping of labrea.runtime.

Correspondence of Model/Runtime.v (through Model/RuntimeRun.v, vm_compute) with labrea.runtime on
generated well-nested histories, each executed in a NEW thread through the public API only
(Runtime, labrea.runtime.handle, Runtime.handle, `with r:`, Request.handle / handle_by_default,
Request.run, current_runtime), plus the property's own oracle: an independent Python stack
(`StackOracle`, the property text and nothing else).  Three comparisons per scenario:
    implementation  vs  Gallina code model          -> correspondence_mismatches
    implementation  vs  Python stack oracle         -> violations
    Python stack oracle vs Gallina stack spec       -> correspondence_mismatches (oracle == theorem's spec)
"""
import json
import multiprocessing
import os
import threading

import lib

PID = "C14"
COQ_TARGETS = ["Model/RuntimeRun.vo"]
REQUIRES = ["Model.Runtime", "Model.RuntimeRun"]
PRELUDE = "Open Scope N_scope."

TYPES = (1, 2)
TAGS = (1, 2, 3)
FALSY = 0              # a callable whose bool() is False (Model/Runtime.v falsy_tag); must serve like any other
NVARS = 4

# The LIBRARY's own request types (scenarios with "lib": True).  They are ordinary request types whose
# defaults were registered when labrea was imported (tag LIB_BUILTIN); the library's own derivers
# labrea.cache.disabled() / labrea.logging.disabled() are `runtime.handle(...)` calls that override
# them with the library's disabled handlers (tag LIB_DISABLED).  Which handler served is observed by
# what happens to a probe cache / a probe logger (touched = builtin, untouched = disabled); a user
# handler installed for such a type answers with its own tag like for every other type.
LIB_TYPES = (3, 4, 5, 6)          # CacheSetRequest, CacheGetRequest, CacheExistsRequest, LogRequest
LIB_BUILTIN = 7
LIB_DISABLED = 8
LIB_PRE = [[t, LIB_BUILTIN] for t in LIB_TYPES]
LIB_DERIVERS = {"cache": [[3, LIB_DISABLED], [4, LIB_DISABLED], [5, LIB_DISABLED]],
                "logging": [[6, LIB_DISABLED]]}
PROBE_LOGGER = "verif.c14.probe"


# ----------------------------------------------------------------------------- implementation side

RAISING_CLASSES = (LookupError, KeyError, TypeError, IndexError)   # tag 1 -> KeyError, 2 -> TypeError, 3 -> IndexError


class _Boom(Exception):
    """private exception used to leave a `with` block by exception"""


def _match_table(prog):
    """index of the exit op matching each enter (len(prog) when the block is never closed)"""
    m, st = {}, []
    for i, op in enumerate(prog):
        if op[0] == "enter":
            st.append(i)
        elif op[0] in ("exit", "exitexc") and st:
            m[st.pop()] = i
    for i in st:
        m[i] = len(prog)
    return m


def _exec_impl(sc):
    """Run one scenario on labrea.runtime in the CURRENT thread; returns the list of observations."""
    import labrea.runtime as R

    types = {t: type(f"VerifReq{t}", (R.Request,), {}) for t in TYPES}   # fresh per scenario
    hier = [(t, list(ps)) for t, ps in sc.get("hier", [])]
    lib_root = {t: t for t in LIB_TYPES}      # type id -> the library type it derives from (constructor arguments)
    if sc.get("lib") or any(p in LIB_TYPES for _, ps in hier for p in ps):
        import logging as pylogging

        import labrea
        import labrea.cache as C
        import labrea.logging as L
        types.update({3: C.CacheSetRequest, 4: C.CacheGetRequest, 5: C.CacheExistsRequest, 6: L.LogRequest})
        probe_ev = labrea.Value(0)

        class Probe(C.Cache):
            def __init__(self):
                self.calls = []

            def get(self, evaluatable, options):
                self.calls.append("get")
                return "stored"

            def set(self, evaluatable, options, value):
                self.calls.append("set")

            def exists(self, evaluatable, options):
                self.calls.append("exists")
                return True

        class Collect(pylogging.Handler):
            def __init__(self):
                super().__init__()
                self.records = []

            def emit(self, record):
                self.records.append(record)

        def run_lib(t):
            """which handler serves a request of library type t (or of a user SUBCLASS of one: same constructor,
            a request type of its own): a user handler answers its tag (an int); the builtin default touches the
            probe backend / probe logger; the disabled handler does not"""
            cls = types[t]
            t = lib_root[t]
            probe = Probe()
            touched = lambda: bool(probe.calls)     # noqa: E731
            if t == 6:
                logger = pylogging.getLogger(PROBE_LOGGER)
                col = Collect()
                logger.addHandler(col)
                old = (logger.level, logger.propagate)
                logger.setLevel(pylogging.DEBUG)
                logger.propagate = False
                touched = lambda: bool(col.records)     # noqa: E731
            try:
                try:
                    if t == 3:
                        res = cls(probe_ev, {}, "val", probe).run()
                    elif t == 4:
                        res = cls(probe_ev, {}, probe).run()
                    elif t == 5:
                        res = cls(probe_ev, {}, probe).run()
                    else:
                        res = cls(pylogging.INFO, PROBE_LOGGER, "probe", {}).run()
                except C.CacheGetFailure:
                    res = None
                if type(res) is int:
                    return res
                return LIB_BUILTIN if touched() else LIB_DISABLED
            finally:
                if t == 6:
                    logger.removeHandler(col)
                    logger.setLevel(old[0])
                    logger.propagate = old[1]

    # request types related by INHERITANCE (sc["hier"]: [type id, [parent ids]] in definition order; a parent is
    # a user type, an earlier type of the hierarchy or one of the library's own request types).  Each is a
    # request type of its own: what is held / registered for a base or a derived class says nothing about it.
    for t, ps in hier:
        types[t] = type(f"VerifReq{t}", tuple(types[p] for p in ps), {})
        roots = [lib_root[p] for p in ps if p in lib_root]
        if roots:
            lib_root[t] = roots[0]

    def mk(h):
        if h == FALSY:
            class Falsy:
                def __call__(self, request):
                    return h

                def __bool__(self):
                    return False
            return Falsy()
        if sc.get("raising"):
            # a handler that answers by RAISING (KeyError / TypeError / LookupError ... carrying its
            # tag): the request is still served by this handler, and by no other one
            def raiser(request, _h=h):
                e = RAISING_CLASSES[_h % len(RAISING_CLASSES)](f"tag{_h}")
                e.verif_tag = _h
                raise e
            return raiser
        return lambda request: h
    handlers = {h: mk(h) for h in TAGS + (FALSY,)}
    prog = sc["prog"]
    match = _match_table(prog)
    env, out = {}, []

    def aliases(obj):
        if not isinstance(obj, R.Runtime):
            return "notruntime"
        return "ret[" + ",".join(str(x) for x in sorted(env) if env[x] is obj) + "]"

    def table(ov):
        return {types[t]: handlers[h] for t, h in ov}

    def derive(target, ov, form):
        if form == "pair" and len(ov) == 1:
            return target(types[ov[0][0]], handlers[ov[0][1]])
        return target(table(ov))

    def simple(op):
        k = op[0]
        if k == "new":
            r = R.Runtime(table(op[2])) if (op[2] or op[3] == "map") else R.Runtime()
            s = aliases(r)
            env[op[1]] = r
            return s
        if k == "handle":
            r = derive(R.handle, op[2], op[3])
            s = aliases(r)
            env[op[1]] = r
            return s
        if k == "handle_on":
            if op[2] not in env:
                return "unbound"
            r = derive(env[op[2]].handle, op[3], op[4])
            s = aliases(r)
            env[op[1]] = r
            return s
        if k == "bad_handle":
            return aliases(R.handle(types[1], None))
        if k == "bad_handle_on":
            if op[1] not in env:
                return "unbound"
            return aliases(env[op[1]].handle(types[1], None))
        if k == "cur":
            r = R.current_runtime()
            s = aliases(r)
            env[op[1]] = r
            return s
        if k == "default":
            fn = handlers[op[2]]
            if op[3] == "decorator":
                return "done" if types[op[1]].handle(fn) is fn else "notsame"
            return "done" if R.handle_by_default(types[op[1]], fn) is None else "notnone"
        if k == "run":
            try:
                if op[1] in lib_root:
                    return f"h{run_lib(op[1])}"
                return f"h{types[op[1]]().run()}"
            except Exception as e:  # noqa: BLE001
                if hasattr(e, "verif_tag"):       # the exception of the (raising) handler that served
                    return f"h{e.verif_tag}"
                raise
        if k == "lib":
            # the library's own derivers: runtimes derived (with handle()) from the CURRENT runtime
            r = C.disabled() if op[2] == "cache" else L.disabled()
            s = aliases(r)
            env[op[1]] = r
            return s
        if k in ("inherit_run", "thread_run"):
            # inherit_run: a helper thread adopts this thread's runtime (labrea.runtime.inherit) and asks there;
            # thread_run: a brand-new helper thread (it has entered nothing, inherited nothing) asks
            parent = threading.current_thread()
            box = {}

            def child():
                try:
                    if k == "inherit_run":
                        R.inherit(parent)
                    box["out"] = simple(["run", op[1]])
                except TypeError:
                    box["out"] = "TypeError"
                except BaseException as e:  # noqa: BLE001
                    box["out"] = f"exc:{type(e).__name__}"
            th = threading.Thread(target=child)
            th.start()
            th.join()
            return box["out"]
        raise AssertionError(op)

    def block(i, top=False):
        """execute ops from i up to the exit closing the current block; returns (next index, exit kind)"""
        while i < len(prog):
            op = prog[i]
            k = op[0]
            if k in ("exit", "exitexc"):
                if top:           # no open block: a `with` statement cannot express this; never generated
                    out.append("unmatched")
                    i += 1
                    continue
                return i + 1, k
            if k == "enter":
                if op[1] not in env:
                    out.append("unbound")
                    i += 1
                    continue
                r = env[op[1]]
                st = {}
                try:
                    with r as z:
                        out.append(aliases(z))
                        st["next"], st["kind"] = block(i + 1)
                        if st["kind"] == "exitexc":
                            raise _Boom()
                    out.append("done" if st.get("kind") != "exitexc" else "swallowed")
                except _Boom:
                    out.append("raised")
                except Exception as e:  # noqa: BLE001  (__enter__/__exit__ themselves failed)
                    out.append("TypeError" if isinstance(e, TypeError) else f"exc:{type(e).__name__}")
                i = st.get("next", match[i] + 1)
                continue
            try:
                out.append(simple(op))
            except TypeError:
                out.append("TypeError")
            except Exception as e:  # noqa: BLE001
                out.append(f"exc:{type(e).__name__}")
            i += 1
        return i, "exit"

    for t, h in sc.get("pre", []):
        R.handle_by_default(types[t], handlers[h])
    if sc.get("existing"):
        R.current_runtime()
    block(0, top=True)
    return out


def run_impl(sc):
    """One scenario in a brand-new thread (clean per-thread state)."""
    box = {}

    def target():
        try:
            box["out"] = _exec_impl(sc)
        except BaseException as e:  # noqa: BLE001
            box["out"] = [f"harness-exc:{type(e).__name__}:{e}"]
    th = threading.Thread(target=target)
    th.start()
    th.join()
    return ",".join(box["out"])


# ----------------------------------------------------------------------------- the oracle

class _Rt:
    def __init__(self, held):
        self.held = held


class StackOracle:
    """The property text: a request is served by the most recently entered, not yet exited runtime
    (else the thread's own runtime, created on first use): by the handler it holds for the type (a
    runtime holds the defaults of the moment it was created plus what it was given; a derived one
    what its source held plus the overrides), else by the current default, else TypeError.  Leaving a
    block pops exactly the runtime that block entered.  Deriving creates a new object."""

    def __init__(self, existing, pre):
        self.defaults = dict(pre)
        self.stack = []
        self.base = self.new({}) if existing else None

    def new(self, ov):
        return _Rt({**self.defaults, **ov})

    def top(self):
        if self.stack:
            return self.stack[-1]
        if self.base is None:
            self.base = self.new({})
        return self.base

    def derive(self, src, ov):
        return self.new({**(src or self.top()).held, **ov})

    def run(self, t):
        r = self.top()
        if t in r.held:
            return r.held[t]
        if t in self.defaults:
            return self.defaults[t]
        raise TypeError


def run_oracle(sc):
    o = StackOracle(bool(sc.get("existing")), [tuple(p) for p in scenario_pre(sc)])
    env, out = {}, []

    def aliases(r):
        return "ret[" + ",".join(str(x) for x in sorted(env) if env[x] is r) + "]"
    for op in sc["prog"]:
        k = op[0]
        if k in ("handle_on", "bad_handle_on") and op[2 if k == "handle_on" else 1] not in env:
            out.append("unbound")
        elif k == "enter" and op[1] not in env:
            out.append("unbound")
        elif k == "new":
            r = o.new(dict(map(tuple, op[2])))
            out.append(aliases(r))
            env[op[1]] = r
        elif k == "handle":
            r = o.derive(None, dict(map(tuple, op[2])))
            out.append(aliases(r))
            env[op[1]] = r
        elif k == "handle_on":
            r = o.derive(env[op[2]], dict(map(tuple, op[3])))
            out.append(aliases(r))
            env[op[1]] = r
        elif k == "bad_handle":
            o.top()
            out.append("TypeError")
        elif k == "bad_handle_on":
            out.append("TypeError")
        elif k == "cur":
            r = o.top()
            out.append(aliases(r))
            env[op[1]] = r
        elif k == "enter":
            o.stack.append(env[op[1]])
            out.append(aliases(env[op[1]]))
        elif k in ("exit", "exitexc"):
            if o.stack:
                o.stack.pop()
                out.append("done" if k == "exit" else "raised")
            else:
                out.append("unmatched")
        elif k == "default":
            o.defaults[op[1]] = op[2]
            out.append("done")
        elif k == "run":
            try:
                out.append(f"h{o.run(op[1])}")
            except TypeError:
                out.append("TypeError")
        elif k == "lib":
            # labrea.cache.disabled() / labrea.logging.disabled(): "runtimes derived via handle()" (property
            # anchors) -- from the runtime that is current at THIS call -- overriding the library's own types
            r = o.derive(None, dict(map(tuple, LIB_DERIVERS[op[2]])))
            out.append(aliases(r))
            env[op[1]] = r
        elif k == "thread_run":
            # a thread that entered nothing is served by a runtime of its own, created on first use: the defaults of now
            held = o.new({}).held
            out.append(f"h{held[op[1]]}" if op[1] in held else "TypeError")
        elif k == "inherit_run":
            # the helper thread adopts this thread's current runtime if it has one, else gets a runtime of
            # its own (this thread still has none afterwards)
            try:
                if o.stack or o.base is not None:
                    out.append(f"h{o.run(op[1])}")
                else:
                    held = o.new({}).held
                    out.append(f"h{held[op[1]]}" if op[1] in held else "TypeError")
            except TypeError:
                out.append("TypeError")
        else:
            raise AssertionError(op)
    return ",".join(out)


def scenario_pre(sc):
    """defaults registered before the thread starts (library types: registered at import)"""
    return list(sc.get("pre", [])) + (LIB_PRE if sc.get("lib") else [])


# ----------------------------------------------------------------------------- Coq rendering

def coq_table(ov):
    return "[" + "; ".join(f"({t}, {h})" for t, h in ov) + "]"


def coq_op(op):
    k = op[0]
    if k == "new":
        return f"PNew {op[1]} {coq_table(op[2])}"
    if k == "handle":
        return f"PHandle {op[1]} {coq_table(op[2])}"
    if k == "handle_on":
        return f"PHandleOn {op[1]} {op[2]} {coq_table(op[3])}"
    if k == "bad_handle":
        return "PBadHandle"
    if k == "bad_handle_on":
        return f"PBadHandleOn {op[1]}"
    if k == "cur":
        return f"PCur {op[1]}"
    if k == "enter":
        return f"PEnter {op[1]}"
    if k == "exit":
        return "PExit"
    if k == "exitexc":
        return "PExitExc"
    if k == "default":
        return f"PDefault {op[1]} {op[2]}"
    if k == "run":
        return f"PRun {op[1]}"
    if k == "lib":           # = labrea.runtime.handle({library types: disabled handlers})
        return f"PHandle {op[1]} {coq_table(LIB_DERIVERS[op[2]])}"
    if k == "thread_run":
        raise ValueError("thread_run is outside Model/Runtime.v (one thread): oracle only")
    if k == "inherit_run":   # generated only where the thread has a runtime: the helper thread is served by it
        return f"PRun {op[1]}"
    raise AssertionError(op)


def split_model(line):
    conc, _, spec = line.partition("|")
    return conc, (conc if spec == "=" else spec)


def coq_scenario(sc, fn="observe"):
    return (f"{fn} {'true' if sc.get('existing') else 'false'} {coq_table(scenario_pre(sc))} "
            f"[" + "; ".join(coq_op(op) for op in sc["prog"]) + "]")


# ----------------------------------------------------------------------------- generators

def audit_suffix(bound, types=TYPES):
    """enter every still-named runtime once more and ask every request type; then ask outside"""
    out = []
    for v in sorted(bound):
        out += [["enter", v]] + [["run", t] for t in types] + [["exit"]]
    out += [["run", t] for t in types] + [["cur", NVARS]]
    return out


def gen_random(rng, maxlen, tags=TAGS):
    existing = rng.random() < 0.5
    pre = []
    if rng.random() < 0.3:
        pre = [[t, rng.choice(tags)] for t in TYPES if rng.random() < 0.6]
    n = rng.randint(1, maxlen)
    prog, bound, active = [], set(), []

    def ov():
        r = rng.random()
        k = 1 if r < 0.7 else (2 if r < 0.9 else 0)
        ts = rng.sample(TYPES, k)
        return [[t, rng.choice(tags)] for t in ts]
    while len(prog) < n:
        r = rng.random()
        if r < 0.08:
            v = rng.randrange(NVARS)
            prog.append(["new", v, ov(), rng.choice(["map", "plain"])])
            bound.add(v)
        elif r < 0.22:
            v = rng.randrange(NVARS)
            prog.append(["handle", v, ov(), rng.choice(["pair", "map"])])
            bound.add(v)
        elif r < 0.32:
            if bound:
                v = rng.randrange(NVARS)
                prog.append(["handle_on", v, rng.choice(sorted(bound)), ov(), rng.choice(["pair", "map"])])
                bound.add(v)
        elif r < 0.36:
            v = rng.randrange(NVARS)
            prog.append(["cur", v])
            bound.add(v)
        elif r < 0.54:
            if bound and len(active) < 6:
                if active and rng.random() < 0.3:
                    v = rng.choice(active)            # re-enter a runtime that is active right now
                else:
                    v = rng.choice(sorted(bound))
                prog.append(["enter", v])
                active.append(v)
        elif r < 0.68:
            if active:
                active.pop()
                prog.append([rng.choice(["exit", "exit", "exitexc"])])
        elif r < 0.78:
            prog.append(["default", rng.choice(TYPES), rng.choice(tags), rng.choice(["decorator", "function"])])
        elif r < 0.80:
            if bound and rng.random() < 0.5:
                prog.append(["bad_handle_on", rng.choice(sorted(bound))])
            else:
                prog.append(["bad_handle"])
        else:
            prog.append(["run", rng.choice(TYPES)])
    while active:
        active.pop()
        prog.append([rng.choice(["exit", "exitexc"])])
    prog += audit_suffix(bound)
    return {"existing": existing, "pre": pre, "prog": prog}


def gen_lib_random(rng, maxlen, tags=TAGS, helper_threads=False, hier=None):
    """gen_random over the user types AND the library's own request types, with the library-provided
    derivers (labrea.cache.disabled(), labrea.logging.disabled()) and labrea.runtime.inherit next to
    Runtime() / runtime.handle / Runtime.handle.  The thread always has a runtime (inherit_run is
    rendered as a plain request for the model).  No default is ever registered for a library type.
    With `hier` (gen_hierarchy) the request types of that inheritance hierarchy join the user types."""
    TYPES = globals()["TYPES"] + tuple(t for t, _ in (hier or []))      # noqa: N806  (user types: defaults allowed)
    alltypes = TYPES + LIB_TYPES
    pre = []
    if rng.random() < (0.6 if hier else 0.3):
        pre = [[t, rng.choice(tags)] for t in TYPES if rng.random() < 0.6]
    n = rng.randint(3, maxlen)
    prog, bound, active = [], set(), []

    def ov():
        r = rng.random()
        k = 1 if r < 0.6 else (2 if r < 0.85 else (3 if r < 0.92 else 0))
        ts = rng.sample(alltypes, k)
        return [[t, rng.choice(tags)] for t in ts]
    while len(prog) < n:
        r = rng.random()
        if r < 0.06:
            v = rng.randrange(NVARS)
            prog.append(["new", v, ov(), rng.choice(["map", "plain"])])
            bound.add(v)
        elif r < 0.16:
            v = rng.randrange(NVARS)
            prog.append(["handle", v, ov(), rng.choice(["pair", "map"])])
            bound.add(v)
        elif r < 0.30:
            v = rng.randrange(NVARS)
            prog.append(["lib", v, rng.choice(["cache", "logging"])])
            bound.add(v)
        elif r < 0.36:
            if bound:
                v = rng.randrange(NVARS)
                prog.append(["handle_on", v, rng.choice(sorted(bound)), ov(), rng.choice(["pair", "map"])])
                bound.add(v)
        elif r < 0.39:
            v = rng.randrange(NVARS)
            prog.append(["cur", v])
            bound.add(v)
        elif r < 0.56:
            if bound and len(active) < 6:
                v = rng.choice(active) if active and rng.random() < 0.3 else rng.choice(sorted(bound))
                prog.append(["enter", v])
                active.append(v)
        elif r < 0.68:
            if active:
                active.pop()
                prog.append([rng.choice(["exit", "exit", "exitexc"])])
        elif r < 0.73:
            prog.append(["default", rng.choice(TYPES), rng.choice(tags), rng.choice(["decorator", "function"])])
        elif r < 0.80:
            prog.append(["inherit_run", rng.choice(alltypes)])
        elif helper_threads and r < 0.88:
            prog.append(["thread_run", rng.choice(alltypes)])
        else:
            prog.append(["run", rng.choice(alltypes)])
    while active:
        active.pop()
        prog.append([rng.choice(["exit", "exitexc"])])
    prog += audit_suffix(bound, alltypes)
    extra = {"hier": hier} if hier else {}
    if helper_threads:
        prog += [["thread_run", t] for t in TYPES]
        return dict({"existing": True, "lib": True, "pre": pre, "prog": prog, "oracle_only": True}, **extra)
    return dict({"existing": True, "lib": True, "pre": pre, "prog": prog}, **extra)


HIER_IDS = (11, 12, 13, 14, 15, 16)


def gen_hierarchy(rng):
    """Request types related by inheritance: [type id, [parent ids]] in definition order.  Roots are a user type
    or one of the library's own request types (a user `AuditRequest(LogRequest)`); shapes: a chain of depth 1-3,
    two siblings, a diamond, a chain under a user type next to a chain under a library type."""
    ids = list(HIER_IDS)
    root = lambda: rng.choice(TYPES + LIB_TYPES + (6, 6))      # noqa: E731
    shape = rng.choice(["chain", "chain", "siblings", "diamond", "two-chains", "mixed-bases"])
    if shape == "chain":
        r, out = root(), []
        for i in range(rng.randint(1, 3)):
            out.append([ids[i], [r if i == 0 else ids[i - 1]]])
        return out
    if shape == "siblings":
        r = root()
        return [[ids[0], [r]], [ids[1], [r]], [ids[2], [ids[rng.randrange(2)]]]][:rng.randint(2, 3)]
    if shape == "diamond":
        r = root()
        if rng.random() < 0.5:          # the library / user type itself is the apex
            return [[ids[0], [r]], [ids[1], [r]], [ids[2], [ids[0], ids[1]]]]
        return [[ids[0], [r]], [ids[1], [ids[0]]], [ids[2], [ids[0]]], [ids[3], [ids[1], ids[2]]]]
    if shape == "two-chains":
        a, b = rng.choice(TYPES), rng.choice(LIB_TYPES)
        return [[ids[0], [a]], [ids[1], [ids[0]]], [ids[2], [b]], [ids[3], [ids[2]]]][:rng.randint(3, 4)]
    # a class deriving from a user request type AND a library request type
    a, b = rng.choice(TYPES), rng.choice(LIB_TYPES)
    return [[ids[0], [a, b]], [ids[1], [ids[0]]]][:rng.randint(1, 2)]


def hier_related(hier):
    """(ancestor, descendant) pairs, every distance, of the hierarchy (roots included)"""
    parents = {t: list(ps) for t, ps in hier}
    out = []
    for t in parents:
        seen, todo = [], list(parents[t])
        while todo:
            p = todo.pop()
            if p not in seen:
                seen.append(p)
                todo += parents.get(p, [])
        out += [(a, t) for a in seen]
    return sorted(out)


def gen_hier_directed(rng, tags=TAGS):
    """Directed family over request types related by inheritance: one type of a related pair gets a handler of its
    own (a default registered before the thread starts, a late default, a handler held by an enclosing block, by a
    fresh Runtime(...)), then a runtime is DERIVED overriding the other type of the pair (runtime.handle /
    Runtime.handle in pair and mapping form, current_runtime().handle, the library's own derivers when the
    overridden type is the library's), entered, and every type is asked: the derived runtime holds the handlers of
    the runtime it was derived from plus ONLY its overrides.  The runtime derived from is asked again afterwards."""
    hier = gen_hierarchy(rng)
    utypes = TYPES + tuple(t for t, _ in hier)
    alltypes = utypes + LIB_TYPES
    pairs = hier_related(hier)
    existing = rng.random() < 0.7
    pre, prog, bound = [], [], set()
    nextvar = [0]

    def fresh():
        v = nextvar[0] % NVARS
        nextvar[0] += 1
        bound.add(v)
        return v

    def probe(k=None):
        ts = list(alltypes)
        rng.shuffle(ts)
        hs = [t for t, _ in hier]
        ops = [["run", t] for t in hs + ts[:rng.randint(2, 4)]]
        if existing and rng.random() < 0.3:
            ops.append(["inherit_run", rng.choice(hs)])
        return ops if k is None else ops[:k]

    for t in utypes:
        if rng.random() < 0.4:
            pre.append([t, rng.choice(tags)])
    for _ in range(rng.randint(1, 3)):
        anc, desc = rng.choice(pairs)
        own, other = (desc, anc) if rng.random() < 0.7 else (anc, desc)     # `own` gets its handler first
        opened = 0
        how = rng.choice(["pre", "late-default", "block", "block", "fresh-runtime", "none"])
        if own in LIB_TYPES and how in ("pre", "late-default"):
            how = "block"
        if how == "pre" and own not in [t for t, _ in pre]:
            pre.append([own, rng.choice(tags)])
        elif how == "late-default":
            prog.append(["default", own, rng.choice(tags), rng.choice(["decorator", "function"])])
        elif how == "block":
            a = fresh()
            prog += [["handle", a, [[own, rng.choice(tags)]], rng.choice(["pair", "map"])], ["enter", a]]
            opened = 1
        elif how == "fresh-runtime":
            a = fresh()
            prog += [["new", a, [[own, rng.choice(tags)]], "map"], ["enter", a]]
            opened = 1
        prog += probe(3)
        v = fresh()
        dk = rng.choice(["pair", "pair", "map", "map2", "cur-handle", "lib", "on-var"])
        if dk == "lib" and other in (3, 4, 5):
            prog.append(["lib", v, "cache"])
        elif dk == "lib" and other == 6:
            prog.append(["lib", v, "logging"])
        elif dk == "map2":
            third = rng.choice([t for t in alltypes if t not in (own, other)])
            prog.append(["handle", v, [[other, rng.choice(tags)], [third, rng.choice(tags)]], "map"])
        elif dk == "cur-handle":
            c = NVARS + 1
            prog += [["cur", c], ["handle_on", v, c, [[other, rng.choice(tags)]], rng.choice(["pair", "map"])]]
        elif dk == "on-var" and len(bound) > 1:
            prog.append(["handle_on", v, rng.choice(sorted(bound - {v})), [[other, rng.choice(tags)]], rng.choice(["pair", "map"])])
        else:
            prog.append(["handle", v, [[other, rng.choice(tags)]], "map" if dk == "map" else "pair"])
        prog += [["enter", v]] + probe()
        if rng.random() < 0.4:
            prog.append(["default", rng.choice(utypes), rng.choice(tags), rng.choice(["decorator", "function"])])
            prog += probe(3)
        prog += [[rng.choice(["exit", "exit", "exitexc"])]] + probe(4)
        prog += [[rng.choice(["exit", "exitexc"])] for _ in range(opened)]
    prog += audit_suffix({v for v in bound if v < NVARS}, alltypes)
    return {"existing": existing, "lib": True, "pre": pre, "prog": prog, "hier": hier}


def gen_repeat_derive(rng, tags=TAGS):
    """Directed family: the SAME way of deriving a runtime used several times in one history, each time
    while a DIFFERENT runtime is current (top level, inside a block overriding a user type, inside a block
    overriding a library type, inside a fresh Runtime(), inside a previously derived runtime, two blocks
    deep); every derived runtime is entered and every request type asked in it (it must hold the handlers
    of the runtime it was derived from plus its overrides), also from a helper thread that inherits."""
    alltypes = TYPES + LIB_TYPES
    kind = rng.choice(["cache", "logging", "cache", "logging", "handle-pair", "handle-map", "handle-empty", "cur-handle"])
    fixed_ov = [[rng.choice(alltypes), rng.choice(tags)]]
    if kind == "handle-map":
        fixed_ov = [[t, rng.choice(tags)] for t in rng.sample(alltypes, 2)]
    existing = rng.random() < 0.7
    prog, bound = [], set()
    nextvar = [0]

    def fresh():
        v = nextvar[0] % NVARS
        nextvar[0] += 1
        bound.add(v)
        return v

    def derive_op(v):
        if kind in ("cache", "logging"):
            return [["lib", v, kind]]
        if kind == "handle-pair":
            return [["handle", v, fixed_ov, "pair"]]
        if kind == "handle-map":
            return [["handle", v, fixed_ov, "map"]]
        if kind == "handle-empty":
            return [["handle", v, [], "map"]]
        c = NVARS + 1                                  # current_runtime().handle(...)
        return [["cur", c], ["handle_on", v, c, fixed_ov, rng.choice(["pair", "map"])]]

    def probe():
        ts = list(alltypes)
        rng.shuffle(ts)
        ops = [["run", t] for t in ts[:rng.randint(3, 6)]]
        if existing and rng.random() < 0.4:
            ops.append(["inherit_run", rng.choice(alltypes)])
        return ops

    contexts = ["top", "user-override", "lib-override", "fresh-runtime", "in-derived", "two-deep"]
    rng.shuffle(contexts)
    last = None
    for cx in contexts[:rng.randint(2, 4)]:
        opened = 0
        if cx == "user-override":
            a = fresh()
            prog += [["handle", a, [[rng.choice(TYPES), rng.choice(tags)]], rng.choice(["pair", "map"])], ["enter", a]]
            opened = 1
        elif cx == "lib-override":
            a = fresh()
            prog += [["handle", a, [[rng.choice(LIB_TYPES), rng.choice(tags)]], rng.choice(["pair", "map"])], ["enter", a]]
            opened = 1
        elif cx == "fresh-runtime":
            a = fresh()
            prog += [["new", a, [[rng.choice(alltypes), rng.choice(tags)]], "map"], ["enter", a]]
            opened = 1
        elif cx == "in-derived" and last is not None:
            prog += [["enter", last]]
            opened = 1
        elif cx == "two-deep":
            a, b = fresh(), fresh()
            prog += [["handle", a, [[1, rng.choice(tags)]], "pair"], ["enter", a],
                     ["handle", b, [[2, rng.choice(tags)], [rng.choice(LIB_TYPES), rng.choice(tags)]], "map"], ["enter", b]]
            opened = 2
        if rng.random() < 0.3:
            prog.append(["default", rng.choice(TYPES), rng.choice(tags), rng.choice(["decorator", "function"])])
        v = fresh()
        prog += derive_op(v) + [["enter", v]] + probe()
        if rng.random() < 0.4:                          # an override on top of the derived runtime, then back
            w = fresh()
            prog += [["handle", w, [[rng.choice(alltypes), rng.choice(tags)]], "pair"], ["enter", w]] + probe() + \
                    [[rng.choice(["exit", "exitexc"])]] + probe()[:2]
        prog += [[rng.choice(["exit", "exit", "exitexc"])]] + probe()[:2]
        prog += [[rng.choice(["exit", "exitexc"])] for _ in range(opened)]
        last = v
    prog += audit_suffix({v for v in bound if v < NVARS}, alltypes)
    return {"existing": existing, "lib": True, "pre": [], "prog": prog}


EXH_ALPHABET = [
    ["handle", 0, [[1, 1]], "pair"],
    ["handle", 1, [[2, 2]], "map"],
    ["handle_on", 1, 0, [[2, 2]], "pair"],
    ["handle_on", 0, 1, [[1, 3]], "map"],
    ["new", 0, [], "plain"],
    ["enter", 0],
    ["enter", 1],
    ["exit"],
    ["exitexc"],
    ["default", 1, 3, "decorator"],
    ["default", 2, 1, "function"],
    ["run", 1],
    ["run", 2],
    ["cur", 1],
]


def gen_exhaustive(maxlen):
    """ALL well-nested sequences over EXH_ALPHABET of length <= maxlen (variables used only when bound,
    exits only inside a block), each closed, audited, and started both with and without a runtime."""
    out = []

    def rec(prog, bound, depth):
        if prog:
            closed = prog + [["exit"]] * depth + audit_suffix(bound)
            for existing in (False, True):
                out.append({"existing": existing, "pre": [], "prog": closed})
        if len(prog) == maxlen:
            return
        for op in EXH_ALPHABET:
            k = op[0]
            if k == "enter" and op[1] not in bound:
                continue
            if k == "handle_on" and op[2] not in bound:
                continue
            if k in ("exit", "exitexc") and depth == 0:
                continue
            nb = bound | {op[1]} if k in ("handle", "handle_on", "new", "cur") else bound
            nd = depth + 1 if k == "enter" else depth - 1 if k in ("exit", "exitexc") else depth
            rec(prog + [op], nb, nd)
    rec([], frozenset(), 0)
    return out


FALSY_WITNESS = {"existing": False, "pre": [],
                 "prog": [["default", 1, 2, "decorator"], ["new", 0, [[1, FALSY]], "map"],
                          ["enter", 0], ["run", 1], ["exit"]]}

# regression corpus: the witnesses of the repaired defects (D14/D15, D16, the falsy-handler `or`) and friends
CORPUS = [
    FALSY_WITNESS,
    {"existing": True, "pre": [[1, 2]], "prog": [["handle", 0, [[1, 1]], "pair"], ["enter", 0], ["enter", 0], ["run", 1],
                                                  ["exit"], ["run", 1], ["exit"], ["run", 1], ["cur", 1]]},
    {"existing": False, "pre": [[1, 2]], "prog": [["new", 0, [[1, 1]], "map"], ["enter", 0], ["run", 1], ["exit"],
                                                   ["run", 1], ["cur", 1]]},
    {"existing": True, "pre": [], "prog": [["run", 1], ["default", 1, 3, "decorator"], ["run", 1],
                                            ["handle", 0, [[2, 2]], "pair"], ["enter", 0], ["run", 1], ["run", 2], ["exitexc"],
                                            ["run", 2]]},
    {"existing": False, "pre": [], "prog": [["new", 0, [], "plain"], ["default", 1, 1, "function"], ["enter", 0], ["run", 1],
                                             ["default", 1, 2, "function"], ["run", 1], ["exit"], ["run", 1]]},
]


# ----------------------------------------------------------------------------- classification

def features(sc):
    prog = sc["prog"]
    depth = maxd = 0
    active = []
    f = dict(reentry=False, exc_exit=False, late_default=False, served_in_block=False, on_demand=False,
             derive_in_block=False, lib_deriver_repeated=False, inherit=False, helper_thread=False)
    lib_ctx = {}
    created = bool(sc.get("existing"))
    have_rt = bool(sc.get("existing"))
    for op in prog:
        k = op[0]
        if k == "enter":
            if op[1] in active:
                f["reentry"] = True
            active.append(op[1])
            depth += 1
            maxd = max(maxd, depth)
        elif k in ("exit", "exitexc"):
            if active:
                active.pop()
                depth -= 1
            if k == "exitexc":
                f["exc_exit"] = True
        elif k == "default":
            if created:
                f["late_default"] = True
        elif k == "run":
            if depth:
                f["served_in_block"] = True
            elif not have_rt:
                f["on_demand"] = True
            created = True
        elif k in ("new", "handle", "handle_on", "cur", "lib"):
            created = True
            if depth and k != "new":
                f["derive_in_block"] = True
            if k == "lib":
                ctx_now = tuple(active)
                if any(c != ctx_now for c in lib_ctx.get(op[2], [])):
                    f["lib_deriver_repeated"] = True      # same library deriver, another runtime current
                lib_ctx.setdefault(op[2], []).append(ctx_now)
        elif k == "thread_run":
            f["helper_thread"] = True
        elif k == "inherit_run":
            f["inherit"] = True
            if depth:
                f["served_in_block"] = True
    f["max_depth"] = maxd
    return f


def nontrivial(f):
    return f["served_in_block"] and (f["max_depth"] >= 2 or f["reentry"] or f["exc_exit"] or f["late_default"])


# ----------------------------------------------------------------------------- batch execution

def _worker(chunk):
    return [(run_impl(sc), run_oracle(sc)) for sc in chunk]


def run_batch(scenarios, chunk=400):
    """implementation + oracle observations; worker processes are replaced after every chunk so that the
    module-global defaults table (two fresh Request subclasses per scenario) stays small."""
    chunks = [scenarios[i:i + chunk] for i in range(0, len(scenarios), chunk)]
    if len(chunks) <= 1:
        return _worker(scenarios)
    ctx = multiprocessing.get_context("fork")
    with ctx.Pool(processes=min(16, os.cpu_count() or 4), maxtasksperchild=1) as pool:
        res = pool.map(_worker, chunks, chunksize=1)
    return [x for r in res for x in r]


def in_child(fn):
    """fn() (a JSON-able result) computed in a forked child of this process: nothing the computation leaves in
    the library's module state (memo tables, registries, per-thread tables) stays in this process"""
    rd, wr = os.pipe()
    pid = os.fork()
    if pid == 0:
        code = 0
        try:
            os.close(rd)
            data = json.dumps(fn()).encode()
            with os.fdopen(wr, "wb") as fh:
                fh.write(data)
        except BaseException:  # noqa: BLE001
            code = 1
        finally:
            os._exit(code)
    os.close(wr)
    with os.fdopen(rd, "rb") as fh:
        data = fh.read()
    os.waitpid(pid, 0)
    return json.loads(data.decode()) if data else None


def run_impl_isolated(sc):
    """run_impl in a forked child of this process (which never runs a scenario itself): nothing an earlier
    scenario left behind in the library's module state can leak into the observation, so a scenario that
    fails here fails in the fresh interpreter of `./check --replay` too"""
    out = in_child(lambda: run_impl(sc))
    return out if out is not None else "harness-exc:child"


def first_diff(a, b, prog):
    la, lb = a.split(","), b.split(",")
    for i, (x, y) in enumerate(zip(la, lb)):
        if x != y:
            return {"index": i, "op": prog[i] if i < len(prog) else None, "a": x, "b": y}
    if len(la) != len(lb):
        return {"index": min(len(la), len(lb)), "op": None, "a": f"{len(la)} observations", "b": f"{len(lb)} observations"}
    return None


def shrink(sc, fails):
    """greedy deletion of single ops and of matched enter/exit pairs while `fails` persists"""
    cur = sc
    changed = True
    while changed:
        changed = False
        prog = cur["prog"]
        m = _match_table(prog)
        cands = []
        for i, op in enumerate(prog):
            if op[0] == "enter":
                j = m[i]
                cands.append([k for k in range(len(prog)) if k not in (i, j)])
                cands.append([k for k in range(len(prog)) if k < i or k > j])      # drop the whole block
            elif op[0] not in ("exit", "exitexc"):
                cands.append([k for k in range(len(prog)) if k != i])
        for keep in cands:
            cand = dict(cur, prog=[prog[k] for k in keep])
            try:
                if fails(cand):
                    cur = cand
                    changed = True
                    break
            except Exception:  # noqa: BLE001
                pass
        if not changed and cur.get("pre"):
            cand = dict(cur, pre=[])
            if fails(cand):
                cur, changed = cand, True
    return cur


def eval_model(ctx, streams, budget=2000):
    """Model observations, one coq_eval call per stream; files are kept below `budget` operations each
    (the printed result of one file is a single Coq string; beyond ~5000 operations coqc overflows its stack)."""
    out = [None] * len(streams)
    groups = {}
    for i, (name, sc) in enumerate(streams):
        if not sc.get("oracle_only"):
            groups.setdefault(name, []).append(i)
    for name, idx in groups.items():
        longest = max(len(streams[i][1]["prog"]) for i in idx)
        shard = max(5, budget // max(1, longest))
        tag = "".join(ch if ch.isalnum() else "_" for ch in name)
        lines = ctx.coq_eval(f"Cases_C14_{tag}", REQUIRES, PRELUDE, [coq_scenario(streams[i][1]) for i in idx], shard=shard,
                             **({} if ctx.quick else {"jobs": 8}))     # (thorough: at most 8 coqc at a time, ~0.45 GB each)
        for i, l in zip(idx, lines):
            out[i] = l
    return out


# ----------------------------------------------------------------------------- run / replay

def run(ctx):
    import labrea.runtime  # noqa: F401  (fail early if the tree does not import)
    rng = ctx.rng
    quick = ctx.quick
    n_rand = 3000 if quick else 30000
    maxlen = 25 if quick else 60
    exh_len = 4 if quick else 5
    n_falsy = 300 if quick else 3000
    n_lib = 600 if quick else 6000

    streams = []          # (stream name, scenario)
    for sc in CORPUS:
        streams.append(("corpus", sc))
    for sc in gen_exhaustive(exh_len):
        streams.append(("exhaustive", sc))
    for _ in range(n_rand):
        streams.append(("random", gen_random(rng, maxlen)))
    for _ in range(n_falsy):
        streams.append(("falsy-handlers", gen_random(rng, min(maxlen, 25), tags=TAGS + (FALSY,))))
    for _ in range(n_falsy):
        streams.append(("raising-handlers", dict(gen_random(rng, min(maxlen, 25)), raising=True)))
    n_main = len(streams)
    # library-provided derivers, library request types, inherit (each scenario in a process of its own)
    for _ in range(n_lib):
        streams.append(("repeat-derive", gen_repeat_derive(rng)))
    for _ in range(n_lib):
        streams.append(("library-derivers", gen_lib_random(rng, min(maxlen, 25))))
    for _ in range(n_lib // 3):
        streams.append(("library-derivers-falsy", gen_lib_random(rng, min(maxlen, 25), tags=TAGS + (FALSY,))))
    for _ in range(n_lib // 3):
        streams.append(("library-derivers-raising", dict(gen_lib_random(rng, min(maxlen, 25)), raising=True)))
    # short-lived helper threads next to the history's own thread (oracle only: the model has one thread)
    for _ in range(n_lib // 2):
        streams.append(("helper-threads", gen_lib_random(rng, min(maxlen, 25), helper_threads=True)))
    # (drawn after every earlier stream: those stay what they were for a given seed)
    # request types related by inheritance (user subclasses of user request types and of the library's own):
    # distinct request types for the model (type ids), classes deriving from one another on the implementation
    for _ in range(n_lib // 4):
        streams.append(("type-hierarchy-directed", gen_hier_directed(rng)))
    for _ in range(n_lib // 6):
        streams.append(("type-hierarchy-random", gen_lib_random(rng, min(maxlen, 25), hier=gen_hierarchy(rng))))
    for _ in range(n_lib // 12):
        streams.append(("type-hierarchy-falsy", gen_hier_directed(rng, tags=TAGS + (FALSY,))))
    for _ in range(n_lib // 12):
        streams.append(("type-hierarchy-raising", dict(gen_hier_directed(rng), raising=True)))
    scenarios = [sc for _, sc in streams]

    obs = run_batch(scenarios[:n_main]) + run_batch(scenarios[n_main:], chunk=1)
    model = eval_model(ctx, streams)

    mism, viol = [], []
    n_mism = n_viol = 0
    per_stream = {}
    dist = {"streams": {}, "ops": {}, "answers": {"served": 0, "TypeError": 0}, "max_depth": {},
            "features": {}, "start": {"fresh": 0, "existing": 0}}
    distinct = set()
    ops_total = 0
    n_modelled = 0
    for (stream, sc), (impl, orc), ml in zip(streams, obs, model):
        if ml is None:      # oracle-only stream: nothing to say for the model
            conc, spec = impl, orc
        else:
            conc, spec = split_model(ml)
            n_modelled += 1
        dist["streams"][stream] = dist["streams"].get(stream, 0) + 1
        dist["start"]["existing" if sc.get("existing") else "fresh"] += 1
        for op in sc["prog"]:
            dist["ops"][op[0]] = dist["ops"].get(op[0], 0) + 1
        ops_total += len(sc["prog"])
        for x in impl.split(","):
            if x.startswith("h"):
                dist["answers"]["served"] += 1
            elif x == "TypeError":
                dist["answers"]["TypeError"] += 1
        f = features(sc)
        dist["max_depth"][f["max_depth"]] = dist["max_depth"].get(f["max_depth"], 0) + 1
        for k, v in f.items():
            if v is True:
                dist["features"][k] = dist["features"].get(k, 0) + 1
        if nontrivial(f):
            distinct.add(lib.stable_hash(sc))
        # 1. implementation vs code model
        if impl != conc:
            n_mism += 1
            if len(mism) < 5:
                mism.append(dict(where="Model/Runtime.v (code model) vs labrea.runtime", stream=stream, scenario=sc,
                                 impl=impl, model=conc, first_difference=first_diff(impl, conc, sc["prog"])))
        # 2. python oracle vs Gallina specification (the oracle IS the spec of the theorems)
        if orc != spec:
            n_mism += 1
            if len(mism) < 5:
                mism.append(dict(where="python StackOracle vs Gallina stack specification (astep)", stream=stream,
                                 scenario=sc, impl=orc, model=spec, first_difference=first_diff(orc, spec, sc["prog"])))
        # 3. the property itself on the implementation
        if impl != orc:
            n_viol += 1
            per_stream[stream] = per_stream.get(stream, 0) + 1
            if per_stream[stream] <= 15:        # (a few of every stream: the later streams hold the self-contained histories)
                viol.append(dict(desc="implementation's answers differ from the stack oracle (property text)",
                                 stream=stream, scenario=sc, impl=impl, oracle=orc,
                                 first_difference=first_diff(impl, orc, sc["prog"]), finding=None))

    # shrink the first new violations to a short failing history
    # (every candidate runs in a forked child: what an earlier scenario left in the library's module state
    # must not decide; histories that fail on their own come first)
    new = [v for v in viol if v["finding"] is None]
    for v in new:
        v["fails_in_fresh_process"] = run_impl_isolated(v["scenario"]) != v["oracle"]
    new.sort(key=lambda v: (not v["fails_in_fresh_process"], len(v["scenario"]["prog"])))
    for v in new[:5]:
        # fast: the whole greedy shrink inside ONE child (its candidates run one after the other in that process)
        small = in_child(lambda: shrink(v["scenario"], lambda c: run_impl(c) != run_oracle(c))) or v["scenario"]
        rerun = run_impl_isolated
        if rerun(small) == run_oracle(small):
            if v["fails_in_fresh_process"]:
                # that minimum leaned on what its predecessors left in the process: shrink again, every candidate on its own
                small = shrink(v["scenario"], lambda c: run_impl_isolated(c) != run_oracle(c))
            else:
                # fails only after other histories ran in the same process: report the history as found, with the
                # observation of the batch run
                small = None
        if small is None:
            v["note"] = "observed in a batch of histories run one after the other in one process; the history alone, in a fresh process, agrees with the oracle"
            v["history"] = [" ".join(map(str, op)) for op in v["scenario"]["prog"]]
            continue
        v["scenario"] = small
        v["impl"], v["oracle"] = rerun(small), run_oracle(small)
        v["first_difference"] = first_diff(v["impl"], v["oracle"], small["prog"])
        v["history"] = [" ".join(map(str, op)) for op in small["prog"]]
    viol = new[:5]

    idx = [i for i, (s, _) in enumerate(streams) if s in ("random", "exhaustive")]
    pick = [idx[0], idx[len(idx) // 3], idx[2 * len(idx) // 3], idx[-1]] if idx else []
    samples = [dict(stream=streams[i][0], scenario=scenarios[i], implementation=obs[i][0]) for i in pick]
    return {
        "evaluations": len(scenarios),
        "distinct_nontrivial": len(distinct),
        "rule": "one evaluation = one history executed in a new thread on labrea.runtime, on the Gallina code model, on the "
                "Gallina stack specification and on the Python stack oracle (all four compared observation by observation; "
                f"{ops_total} operations in total). Non-trivial = at least one request served inside a `with` block and at "
                "least one of: nesting depth >= 2, re-entry of a runtime that is active, a block left by exception, a default "
                "registered after a runtime exists. Distinct by hash of the scenario.",
        "samples": samples,
        "traces_validated_against_impl": n_modelled,
        "correspondence_mismatches": mism,
        "violations": viol,
        "known": [],
        "distribution": dict(dist, operations=ops_total, mismatches=n_mism, oracle_failures=n_viol,
                             exhaustive_length=exh_len,
                             exhaustive_alphabet=[" ".join(map(str, o)) for o in EXH_ALPHABET],
                             random_max_length=maxlen),
        "exhaustive": False,
        "assumptions": [
            "one thread (interleavings are C15); each history runs in a new threading.Thread",
            "handlers are arbitrary callables; the falsy-handler stream uses callables whose bool() is False and must satisfy the "
            "oracle and the correspondence like every other stream",
            "a runtime 'holds' the defaults of the moment it was created (Runtime.__init__ snapshots them): re-registering a default "
            "for a type is not seen by runtimes created before (model, specification and oracle agree on this reading)",
            "the exhaustive stream is complete for its 14-symbol alphabet and length bound only; it is not the whole space",
            "request types related by inheritance (type-hierarchy streams: chains of depth 1-3, siblings, diamonds, classes "
            "deriving from a user type and a library type, user subclasses of LogRequest / Cache*Request) are DISTINCT request "
            "types for the model, the specification and the oracle ('the handler it holds for the request's type', 'the default "
            "registered for that type'): nothing held or registered for a base or derived class serves them",
        ],
        "trusted_base": [
            "CPython: `with` statement protocol, dict semantics, threading.current_thread() as the key of the per-thread tables",
            "object identity of Runtime objects is observed through `is` against the scenario's variables only",
        ],
    }


def replay(ctx, payload):
    sc = payload.get("scenario")
    if sc is None:
        for b in payload.get("broken", []):
            if "scenario" in b:
                sc = b["scenario"]
                break
    if sc is None:
        return True, {"note": "payload names no scenario (a proof obligation or the build broke); re-run the check",
                      "payload": payload}
    impl, orc = run_impl(sc), run_oracle(sc)
    if any(op[0] == "thread_run" for op in sc["prog"]):     # helper threads: outside the one-thread model
        conc, spec = impl, orc
    else:
        ml = ctx.coq_eval("Replay_C14", REQUIRES, PRELUDE, [coq_scenario(sc)])[0]
        conc, spec = split_model(ml)
    still = impl != orc or impl != conc or orc != spec
    return still, {"history": [" ".join(map(str, op)) for op in sc["prog"]], "existing_runtime": sc.get("existing"),
                   "pre_defaults": sc.get("pre"), "implementation": impl, "oracle": orc, "code_model": conc,
                   "specification": spec, "impl_vs_oracle": first_diff(impl, orc, sc["prog"]),
                   "impl_vs_model": first_diff(impl, conc, sc["prog"])}
