"""C06 - laziness: only bodies on the selected path run, and only when evaluated.

Three parts (BUILDER_GUIDE):

* CORRESPONDENCE with coq/Model/Eval.v: histories of evaluate / validate / keys / explain on
  long-lived graphs; every observation line carries the ORDERED log of user-code executions
  (`c<f>(args)`), so the model's event order (which the theorems of Properties/C06.v are about) is
  compared with the implementation's on every op.
* ORACLE (property text, implementation only, independent of the model): every body is a
  recording harness function with its own atom.  A ~150-line reference semantics over the scenario
  AST (`Ref`, written against the property text, not against labrea) computes the bodies on the
  selected path under the given options; required: executed <= needed (per op, on a freshly built
  graph, cache on and off), a body after all bodies of its argument expressions, the source of an
  apply / >> before the function expression and the step, a dataset's arguments before its body,
  the body before the callback, the callback before the effects.
* CONSTRUCTION-TIME laziness (PARTIAL, runtime: the model's constructors are data): every scenario
  is built through the public API with tripwire bodies and a recording EvaluateRequest handler;
  plus explicit construction sequences (decorator forms, overload / register, set_dispatch,
  with_options, +, >>, apply, bind, interface / implementation, datasetclass definition).
"""
import itertools

import coreprop as cp
import core
import gen
import lib
from core import S
from witnesses import corpus_for

PID = "C06"
COQ_TARGETS = cp.COQ_TARGETS


# ============================================================================ generators

class LazyGen(gen.Gen):
    """the standard profile with more bodies in the positions the property talks about:
    defaults of options, branches, members, results"""

    def option(self, depth=0):
        e = super().option(depth)
        if e[2] is None and self.rng.random() < 0.22:
            self.note("option_default_body")
            e = (e[0], e[1], ("call", self.body_fid(), [self.leaf()] if self.rng.random() < 0.3 else []), e[3])
        return e

    def leaf(self):
        if self.rng.random() < 0.22:
            self.note("leaf_body")
            return ("call", self.body_fid(), [])
        return super().leaf()

    def fnexpr(self):
        """steps whose parameters are bodies themselves: their events must follow the source's"""
        rng = self.rng
        if rng.random() < 0.35:
            self.note("pstep_with_body_params")
            return ("pstep", self.body_fid(), [("call", self.body_fid(), []) if rng.random() < 0.7 else self.option()
                                               for _ in range(rng.randint(1, 2))])
        return super().fnexpr()

    def dataset(self, dsid):
        super().dataset(dsid)
        d = self.env[dsid]
        rng = self.rng
        if d.get("callback") is not None and rng.random() < 0.5:
            d["callback"] = ("pstep", self.newf(("tag",)), [("call", self.body_fid(), [])])
        if rng.random() < 0.15 and not d.get("effects"):
            d["effects"] = [("pstep", self.newf(("tag",)), [("call", self.newf(("tag",)), [])] if rng.random() < 0.5 else [])]


A_, B_ = 10, 11
TRIP = 666


def _opt(k, d=None, dom=None):
    return ("option", gen.K(k), d, dom)


def _body(f, *args):
    return ("call", f, list(args))


def directed():
    """hand-written graphs that put a tripwire body (666..) in every unselected position the
    property names and a body in every ordered position; run on every check"""
    ft = {201: ("eq", ("j", 1)), 202: ("truthy",)}
    dicts = [{A_: 1}, {A_: 2}, {}, {A_: 1, B_: 1}, {A_: None}]
    exprs = [
        ("switch", _opt(A_), [(("j", 1), _body(100)), (("j", 2), _body(TRIP))], _body(TRIP + 1)),
        ("case", _opt(A_), [(("fnvalue", 201), _body(101)), (("fnvalue", 202), _body(TRIP + 2))], _body(TRIP + 3)),
        ("coalesce", [_opt(A_), _body(TRIP + 4)]),
        ("coalesce", [_body(102, _opt(B_)), _body(103), _body(TRIP + 5)]),
        _opt(A_, _body(TRIP + 6)),
        _opt(A_, _body(104, ("value", ("j", 7))), ("fnvalue", 202)),
        ("bind", _opt(A_), [(("j", 1), _body(105)), (("j", 2), _body(TRIP + 7))], _body(TRIP + 8)),
        _body(106, _body(107), _body(108, _body(109))),
        ("apply", _body(110), ("pstep", 111, [_body(112)])),
        ("apply", _body(113, _opt(B_)), ("pstep", 114, [_body(115)])),
        ("apply", ("apply", _body(116), ("pstep", 117, [])), ("pipe", [("pstep", 118, [_body(119)]), ("pstep", 120, [])])),
        ("dataset", 1), ("dataset", 2), ("dataset", 3),
        ("list", [("switch", _opt(A_, ("value", ("j", 2))), [(("j", 1), ("dataset", 1))], _body(121)), _opt(B_, ("dataset", 2))]),
    ]
    env = {
        1: dict(fid=130, kwargs=[_body(131), _opt(B_, _body(132))], dispatch=_opt(A_, ("value", ("j", None))),
                overloads=[(("j", 2), _body(133, _body(134)))], callback=("pstep", 135, [_body(136)]),
                effects=[("pstep", 137, [_body(138)])]),
        2: dict(fid=140, kwargs=[("dataset", 1)], cache="none"),
        3: dict(derived=1, how="with_options", preset={A_: 2}),
    }
    scns = []
    for lo in range(0, len(exprs), 5):
        es = exprs[lo:lo + 5]
        ops = [(m, i, False, False, o) for o in dicts for i in range(len(es)) for m in ("evaluate", "validate", "keys", "explain")]
        scns.append(dict(ftable=dict(ft), env=env, exprs=es, ops=ops))
    return scns


def generate(ctx, n):
    scns = []
    for i in range(n):
        templ = (i % 4 == 3)           # every fourth scenario keeps templated values (correspondence only)
        g = LazyGen(ctx.rng, with_templates=templ, with_alloptions=(i % 10 == 0),
                    preset_on_ds=0.3 if i % 2 else 0.0)
        scns.append(g.scenario(n_exprs=2, depth=3, n_ops=10,
                               methods=("evaluate",) * 5 + ("validate", "keys", "explain"),
                               switches=(i % 9 == 0)))
    return scns


# ============================================================================ reference semantics

class Fail(Exception):
    """the reference evaluation of a sub-expression fails"""


class Unsupported(Exception):
    """outside the reference semantics (templates): the scenario is left to the correspondence"""


def overlay(base, top):
    out = dict(base)
    for k, v in top.items():
        if isinstance(v, dict):
            out[k] = overlay(out[k] if isinstance(out.get(k), dict) else {}, v)
        else:
            out[k] = v
    return out


def has_template_node(x):
    """a Template expression (its string form is not part of the reference semantics)"""
    if isinstance(x, tuple) and x and x[0] == "template":
        return True
    if isinstance(x, (tuple, list)):
        return any(has_template_node(y) for y in x)
    if isinstance(x, dict):
        return any(has_template_node(y) for y in x.values())
    return False


class Templ:
    """a templated option value: the reference semantics only needs the keys it refers to"""

    def __init__(self, refs):
        self.refs = refs


class _Opaque:
    """the resolved form of a templated value: present, evaluable, content not computed"""

    def __repr__(self):
        return "<resolved template>"


OPAQUE = _Opaque()


def ref_json(j):
    """scenario JSON -> the reference's view of an options dictionary"""
    if isinstance(j, S):
        refs = tuple(t[1] for t in j.toks if t[0] == "ref")
        if any(t[0] == "par" for t in j.toks):
            raise Unsupported("parameter in an option value")
        return Templ(refs) if refs else core.str_text(j.toks)
    if isinstance(j, list):
        return [ref_json(x) for x in j]
    if isinstance(j, dict):
        return {(core.name_of(k) if isinstance(k, int) else str(k[1])): ref_json(v) for k, v in j.items()}
    return j


def contains_opaque(v):
    if v is OPAQUE or isinstance(v, Templ):
        return True
    if isinstance(v, (list, tuple)):
        return any(contains_opaque(x) for x in v)
    if isinstance(v, dict):
        return any(contains_opaque(x) for x in v.values())
    return False


def ref_lookup(key, o):
    """value at a dotted key; KeyError when absent; Fail when a parent cannot be indexed"""
    cur = o
    for seg in key:
        if seg[0] == "n":
            name = core.name_of(seg[1])
            if isinstance(cur, dict):
                if name not in cur:
                    raise KeyError(name)
                cur = cur[name]
            elif isinstance(cur, list):
                raise KeyError(name)
            else:
                raise Fail("scalar parent")
        else:
            i = seg[1]
            if isinstance(cur, dict):
                raise KeyError(i)
            if isinstance(cur, (list, str)):
                if i >= len(cur):
                    raise KeyError(i)
                cur = cur[i]
            else:
                raise Fail("scalar parent")
    return cur


def set_nested(key, v, d):
    for seg in key[:-1]:
        d = d.setdefault(core.name_of(seg[1]) if seg[0] == "n" else str(seg[1]), {})
    seg = key[-1]
    d[core.name_of(seg[1]) if seg[0] == "n" else str(seg[1])] = v


class Ref:
    """What the property text says is needed.  Choosers are exact.  Siblings whose relative order
    the property does not fix (arguments of one body, elements, steps of a pipeline) are all
    walked even when one of them fails.  The orders the property DOES fix are sequenced when
    `generous` is off (an evaluation): a failing source stops before the function expression of an
    apply, a failing body before its callback and effects; with `generous` on (validate / keys /
    the cache's fingerprint, which legitimately walk further than a failing evaluation) the
    later expressions are still walked, their values never called."""

    def __init__(self, scn, generous):
        self.env = scn["env"]
        self.w = core.World(scn["ftable"])
        self.generous = generous
        self.tentative = set()     # indices (into self.w.calls) of bodies that ran inside an attempt that was given up

    def give_up(self, start):
        """the calls made since `start` belong to an attempt that failed and was passed over"""
        self.tentative.update(range(start, len(self.w.calls)))

    def required(self):
        """bodies that ran on the path that produced the value (not inside a coalesce member / dispatch that failed)"""
        return {int(t[1:t.index("(")]) for i, t in enumerate(self.w.calls) if i not in self.tentative}

    # -- helpers
    def strict(self, thunks):
        vals, failed = [], False
        for t in thunks:
            try:
                vals.append(t())
            except Fail:
                failed = True
        if failed:
            raise Fail("a strict child failed")
        return vals

    def resolve(self, v, o, depth=0):
        """a present option value: a templated one is evaluable iff every key it refers to is
        (transitively); its text is not computed"""
        if depth > 12:
            raise Unsupported("reference chain too deep")
        if isinstance(v, Templ):
            for k in v.refs:
                try:
                    r = ref_lookup(k, o)
                except KeyError:
                    raise Fail("missing reference")
                self.resolve(r, o, depth + 1)
            return OPAQUE
        if isinstance(v, list):
            vs = [self.resolve(x, o, depth + 1) for x in v]
            return OPAQUE if contains_opaque(vs) else v
        if isinstance(v, dict):
            vs = {k: self.resolve(x, o, depth + 1) for k, x in v.items()}
            return OPAQUE if contains_opaque(vs) else v
        return v

    def known(self, v, what):
        if contains_opaque(v):
            raise Unsupported(f"{what} depends on the text of a templated value")
        return v

    def call(self, f, *args):
        if f is OPAQUE:
            raise Unsupported("callable from a templated value")
        if not (isinstance(f, tuple) and f and f[0] in ("fn", "comp", "list")):
            raise Fail("not callable")
        if f[0] == "comp":
            x = args[0]
            for g in f[1]:
                x = self.call(g, x)
            return x
        if f[0] == "list":
            self.known(args[0], "list()")
            try:
                return list(args[0])
            except TypeError:
                raise Fail("not iterable")
        if contains_opaque(args) or contains_opaque(f[2]) or contains_opaque(f[3]):
            if self.w.ftable.get(f[1], ("tag",))[0] not in ("tag", "const", "first", "raise"):
                raise Unsupported("user code inspects the text of a templated value")
        try:
            return self.w.fn(f[1])(*f[2], *args, *f[3])
        except Fail:
            raise
        except Exception as e:  # user code raises
            raise Fail(repr(e))

    def needed(self):
        return {int(t[1:t.index("(")]) for t in self.w.calls}

    # -- datasets
    def ds_parts(self, dsid):
        d = self.env[dsid]
        if d.get("derived") is not None:
            base, opts, dopts, _ = self.ds_parts(d["derived"])
            p = ref_json(d["preset"])
            if d["how"] == "with_options":
                return base, overlay(opts, p), dopts, False
            return base, opts, overlay(dopts, p), False
        return d, ref_json(d.get("options") or {}), ref_json(d.get("default_options") or {}), bool(d.get("effects_disabled"))

    def dataset(self, dsid, o):
        d, opts, dopts, eff_off = self.ds_parts(dsid)
        o = overlay(overlay(dopts, o), opts)
        # overloads: the dispatch value picks the registered implementation, else the decorated body
        impl = None
        if d.get("dispatch") is not None:
            table = {}
            for alias, x in d.get("overloads", []):
                table[core.py_value(alias)] = x
            start = len(self.w.calls)
            try:
                k = self.known(self.ev(d["dispatch"], o), "dispatch")
            except Fail:
                if d.get("abstract"):
                    raise
                self.give_up(start)
                k = _NOKEY
            if k is not _NOKEY:
                try:
                    if k in table:
                        impl = table[k]
                except TypeError:
                    raise Fail("unhashable dispatch value")
        effects = d["effects"] if d.get("effects") and not eff_off and not self.flag((("n", 1), ("n", 5), ("n", 3)), o) else []
        try:
            if impl is not None:
                x = self.ev(impl, o)
            elif d.get("abstract"):
                raise Fail("abstract dataset")
            else:
                args = self.strict([(lambda a=a: self.ev(a, o)) for a in d.get("kwargs", [])])
                x = self.call(("fn", d["fid"], (), ()), *args)
        except Fail:
            if self.generous:   # walked by validate / keys, never applied
                self.strict([(lambda e=e: self.ev(e, o)) for e in ([d["callback"]] if d.get("callback") is not None else []) + list(effects)])
            raise
        if d.get("callback") is not None:
            try:
                x = self.call(self.ev(d["callback"], o), x)
            except Fail:
                if self.generous:
                    self.strict([(lambda e=e: self.ev(e, o)) for e in effects])
                raise

        def run(e):
            self.call(self.ev(e, o), x)
        self.strict([(lambda e=e: run(e)) for e in effects])
        return x

    def flag(self, key, o):
        try:
            return bool(ref_lookup(key, o))
        except (KeyError, Fail):
            return False

    # -- expressions
    def ev(self, e, o):
        k = e[0]
        if k == "value":
            return core.py_value(e[1])
        if k == "fnvalue":
            return ("fn", e[1], (), ())
        if k == "option":
            try:
                v = ref_lookup(e[1], o)
            except KeyError:
                if e[2] is None:
                    raise Fail("missing option")
                v = self.ev(e[2], o)           # the default: ONLY when the key is absent
            else:
                v = self.resolve(v, o)
            if e[3] is not None:
                d = self.known(self.ev(e[3], o), "domain")
                self.known(v, "domain check")
                if isinstance(d, tuple) and d and d[0] in ("fn", "comp", "list"):
                    ok = bool(self.call(d, v))
                elif isinstance(d, (list, tuple, dict, str, set, frozenset)):
                    try:
                        ok = v in d
                    except TypeError:
                        raise Fail("domain membership")
                else:
                    ok = True
                if not ok:
                    raise Fail("outside the domain")
            return v
        if k == "apply":
            if self.generous:
                x, f = self.strict([lambda: self.ev(e[1], o), lambda: self.ev(e[2], o)])
            else:
                x = self.ev(e[1], o)           # the source FIRST: when it fails nothing of the function runs
                f = self.ev(e[2], o)
            return self.call(f, x)
        if k == "bind":
            x = self.known(self.ev(e[1], o), "bind")
            x = core.force(x)
            for v, b in e[2]:
                if core._eq(x, core.py_value(v)):
                    return self.ev(b, o)       # the matching branch ONLY
            if e[3] is not None:
                return self.ev(e[3], o)
            raise Fail("bind function raises")
        if k == "switch":
            table = {}
            for v, x in e[2]:
                table[core.py_value(v)] = x
            start = len(self.w.calls)
            try:
                key = self.known(self.ev(e[1], o), "dispatch")
            except Fail:
                if e[3] is None:
                    raise
                self.give_up(start)
                return self.ev(e[3], o)
            try:
                hit = key in table
            except TypeError:
                raise Fail("unhashable dispatch value")
            if hit:
                return self.ev(table[key], o)  # the registered branch ONLY
            if e[3] is not None:
                return self.ev(e[3], o)
            raise Fail("no branch")
        if k == "case":
            x = self.ev(e[1], o)
            for c, r in e[2]:
                if self.call(self.ev(c, o), x):
                    return self.ev(r, o)       # the first true case ONLY; later conditions do not run
            if e[3] is not None:
                return self.ev(e[3], o)
            raise Fail("no case")
        if k == "coalesce":
            for m in e[1]:
                start = len(self.w.calls)
                try:
                    return self.ev(m, o)       # members after the first success do not run
                except Fail:
                    self.give_up(start)
                    continue
            raise Fail("no member")
        if k in ("iter", "list"):
            return list(self.strict([(lambda x=x: self.ev(x, o)) for x in e[1]]))
        if k == "tuple":
            return tuple(self.strict([(lambda x=x: self.ev(x, o)) for x in e[1]]))
        if k == "dict":
            vals = self.strict([(lambda x=x: self.ev(x, o)) for _, x in e[1]])
            return {core.py_value(kk): v for (kk, _), v in zip(e[1], vals)}
        if k == "map":
            its = self.known(self.strict([(lambda x=x: self.ev(x, o)) for _, x in e[2]]), "Map iterable")
            try:
                its = [list(x) for x in its]
            except TypeError:
                raise Fail("not iterable")
            out = []

            def row_eval(row):
                os_ = {}
                for (kk, _), v in zip(e[2], row):
                    set_nested(kk, v, os_)
                out.append((dict(zip([core.key_text(kk) for kk, _ in e[2]], row)), self.ev(e[1], overlay(o, os_))))
            self.strict([(lambda row=row: row_eval(row)) for row in itertools.product(*its)])
            return out
        if k == "tolist":
            return self.call(("list",), self.ev(e[1], o))
        if k == "with":
            p = ref_json(e[2])
            return self.ev(e[3], overlay(o, p) if e[1] else overlay(p, o))
        if k == "cached":
            return self.ev(e[2], o)
        if k == "call":
            args = self.strict([(lambda x=x: self.ev(x, o)) for x in e[2]])     # ALL arguments, then the body
            return self.call(("fn", e[1], (), ()), *args)
        if k == "pstep":
            return ("fn", e[1], (), tuple(self.strict([(lambda x=x: self.ev(x, o)) for x in e[2]])))
        if k == "pipe":
            return ("comp", self.strict([(lambda x=x: self.ev(x, o)) for x in e[1]]))
        if k == "comp":
            effects = [] if self.flag((("n", 1), ("n", 5), ("n", 3)), o) else e[2]
            try:
                v = self.ev(e[1], o)
            except Fail:
                if self.generous:
                    self.strict([(lambda x=x: self.ev(x, o)) for x in effects])
                raise

            def run(x):
                self.call(self.ev(x, o), v)
            self.strict([(lambda x=x: run(x)) for x in effects])
            return v
        if k == "logged":
            return self.ev(e[1], o)
        if k == "alloptions":
            return self.resolve(o, o)
        if k == "dataset":
            return self.dataset(e[1], o)
        if k == "template":
            raise Unsupported("template")
        raise TypeError(e)


_NOKEY = object()


def reference(scn, idx, options, generous):
    """(ok?, needed fids, ordered reference call log) of expression idx under options"""
    r = Ref(scn, generous)
    try:
        r.ev(scn["exprs"][idx], ref_json(options))
        ok = True
    except Fail:
        ok = False
    except RecursionError:
        raise Unsupported("recursion")
    return ok, r.needed(), list(r.w.calls)


def reference_required(scn, idx, options):
    """(ok?, needed fids, fids of the bodies that ran on the path that PRODUCED the value) - the exact reading"""
    r = Ref(scn, False)
    try:
        r.ev(scn["exprs"][idx], ref_json(options))
        ok = True
    except Fail:
        ok = False
    except RecursionError:
        raise Unsupported("recursion")
    return ok, r.needed(), (r.required() if ok else set())


# ============================================================================ user callables of every KIND
#
# "A body runs only after all of its own arguments have been produced" - whatever kind of Python callable the body
# is (def, lambda, an instance with __call__, a bound method, a classmethod / staticmethod, a class, a
# functools.partial object over any of these) and whichever kind of parameter declares the argument expression
# (positional-or-keyword, keyword-only after a bare *, supplied through defaults= / where() / lift(**kwargs) for a
# parameter without a default - also into **kwargs -, keyword-only because a functools.partial bound an earlier
# parameter by keyword, bound by the functools.partial itself; for a pipeline step also behind a positional-only
# input `x, /`): dataset definitions, overload implementations (the overload decorator), lifted functions, pipeline
# steps (hence callbacks and effects written as steps), and predicates / applied functions / callbacks / effects /
# steps handed over as bare callables.  Outside, because labrea itself does not support them (TypeError /
# ValueError on the unchanged library): positional-only PARAMETERS carrying an expression, *args in a lifted
# signature, *args / **kwargs in a @pipeline_step.  The Coq model has no notion of the kind of a Python callable
# (the scenario is the same term): this family is judged by the oracle only.
CALLABLE_KINDS = ("def", "lambda", "instance", "bound", "classmethod", "staticmethod", "class")
UNARY_KINDS = CALLABLE_KINDS + ("partial", "partial_bound_argument", "partial_of_instance")
FA_PARAM_KINDS = ("pk", "kwonly", "split", "supplied", "varkw", "partial_kw", "partial_pos", "partial_binds")
STEP_PARAM_KINDS = ("pk", "kwonly", "split", "posx", "supplied", "partial_kw", "partial_pos", "partial_binds")
KIND_SOURCES = {
    "def": "def f({p}):\n    return {c}\n",
    "lambda": "f = lambda {p}: {c}\n",
    "instance": "class C:\n    def __call__(self, {p}):\n        return {c}\nf = C()\n",
    "bound": "class C:\n    def m(self, {p}):\n        return {c}\nf = C().m\n",
    "classmethod": "class C:\n    @classmethod\n    def m(cls, {p}):\n        return {c}\nf = C.m\n",
    "staticmethod": "class C:\n    @staticmethod\n    def m({p}):\n        return {c}\nf = C.m\n",
    "class": "class f:\n    def __new__(cls, {p}):\n        return {c}\n",
}
KIND_CONST = 7
N_KIND_ROTATIONS = 64


def _lost():
    raise AssertionError("a constant / bound parameter of the user's callable did not arrive")


def kind_callable(rng, impl, evs, step):
    """(callable, supplied, description): a Python callable of a random kind that computes impl([x,] a0, ..., an-1)
    and declares the argument expressions `evs` as its parameters' defaults in a random way; `supplied`: the
    defaults that are NOT in the signature and must be given through defaults= / where() / lift(**kwargs)"""
    import functools
    n = len(evs)
    names = [f"a{i}" for i in range(n)]
    ck = rng.choice(CALLABLE_KINDS)
    pk = rng.choice(STEP_PARAM_KINDS if step else FA_PARAM_KINDS)
    if n == 0 and pk in ("varkw", "partial_binds", "supplied"):
        pk = "pk"
    h = rng.randint(0, n)
    ns = {"impl": impl, "CONST": KIND_CONST, "lost": _lost, "functools": functools}
    for i, ev in enumerate(evs):
        ns[f"D{i}"] = ev
    dflt = [f"a{i}=D{i}" for i in range(n)]
    lead = ["x"] if step else []
    args = ", ".join(lead + names)
    call, wrap, supplied = f"impl({args})", None, None
    guarded = f"(impl({args}) if c == CONST else lost())"
    if pk == "pk":
        params = lead + dflt
    elif pk == "kwonly":
        params = lead + (["*"] if n else []) + dflt
    elif pk == "split":
        params = lead + dflt[:h] + (["*"] + dflt[h:] if h < n else [])
    elif pk == "posx":
        params = ["x", "/"] + dflt[:h] + (["*"] + dflt[h:] if h < n else [])
    elif pk == "supplied":
        params = lead + names[:h] + (["*"] + names[h:] if h < n else [])
        supplied = dict(zip(names, evs))
    elif pk == "varkw":
        h = min(h, n - 1)
        params = dflt[:h] + ["**kw"]
        call = "impl(" + ", ".join(names[:h] + [f"kw['{a}']" for a in names[h:]]) + ")"
        supplied = dict(zip(names[h:], evs[h:]))
    elif pk == "partial_kw":
        params = lead + dflt[:h] + ["c=0"] + dflt[h:]
        call, wrap = guarded, "functools.partial(f, c=CONST)"
    elif pk == "partial_pos":
        params = ["c"] + lead + dflt
        call, wrap = guarded, "functools.partial(f, CONST)"
    else:   # partial_binds: no defaults in the definition, the functools.partial binds the expressions by keyword
        params = lead + names
        wrap = "functools.partial(f, " + ", ".join(f"a{i}=D{i}" for i in range(n)) + ")"
    exec(KIND_SOURCES[ck].format(p=", ".join(params), c=call), ns)
    f = ns["f"]
    if wrap is not None:
        f = eval(wrap, dict(ns, f=f))
    return f, supplied, f"{ck}/{pk}"


def unary_callable(rng, fn):
    """the user function fn as a Python callable of a random kind, to be handed to labrea RAW (not wrapped in Value)"""
    import functools
    k = rng.choice(UNARY_KINDS)
    if k == "partial":
        return functools.partial(fn), k
    if k == "partial_bound_argument":
        return functools.partial(lambda m, *a: fn(*a) if m == KIND_CONST else _lost(), KIND_CONST), k
    ns = {"impl": fn}
    exec(KIND_SOURCES["instance" if k == "partial_of_instance" else k].format(p="*a", c="impl(*a)"), ns)
    return (functools.partial(ns["f"]) if k == "partial_of_instance" else ns["f"]), k


class KindBuilder(core.Builder):
    def __init__(self, world, env, rotation):
        import random
        super().__init__(world, env)
        self.rng = random.Random(7919 * rotation + 13)
        self.used = []
        self.unproduced = []       # bodies that were handed an unevaluated expression as an argument

    def body(self, fid):
        """the recording body of atom fid, noting when it is handed an expression instead of its value"""
        from labrea.types import Evaluatable
        impl = self.w.fn(fid)

        def guarded(*args):
            if any(isinstance(a, Evaluatable) for a in args):
                self.unproduced.append(fid)
            return impl(*args)
        return guarded

    def fn_or_build(self, e):
        """an expression in a position where labrea accepts a bare callable (MaybeEvaluatable)"""
        if e[0] == "fnvalue":
            f, k = unary_callable(self.rng, self.body(e[1]))
            self.used.append("raw " + k)
            return f
        return self.build(e)

    def lifted(self, fid, arg_exprs, step):
        f, supplied, k = kind_callable(self.rng, self.body(fid), [self.build(x) for x in arg_exprs], step)
        self.used.append(k)
        return f, supplied

    def dataset(self, dsid):
        if dsid in self.ds:
            return self.ds[dsid]
        from labrea import dataset, abstractdataset
        from labrea.cache import NoCache
        d = self.env[dsid]
        if d.get("derived") is not None:
            return super().dataset(dsid)
        kw = {}
        if d.get("dispatch") is not None:
            kw["dispatch"] = self.build(d["dispatch"])
        if d.get("options"):
            kw["options"] = core.py_json(d["options"])
        if d.get("default_options"):
            kw["default_options"] = core.py_json(d["default_options"])
        if d.get("callback") is not None:
            kw["callback"] = self.fn_or_build(d["callback"])
        if d.get("effects"):
            kw["effects"] = [self.fn_or_build(e) for e in d["effects"]]
        kw["cache"] = self.w.cache(dsid) if d.get("cache", "mem") == "mem" else NoCache()
        if d.get("abstract"):
            def _abstract():
                pass
            _abstract.__name__ = _abstract.__qualname__ = f"ds{dsid}"
            obj = abstractdataset(_abstract, **kw)
        else:
            f, supplied = self.lifted(d["fid"], d.get("kwargs", []), False)
            r = self.rng.random()
            if supplied and r < 0.5:
                obj = dataset(**kw).where(**supplied)(f)
            elif supplied:
                obj = dataset(f, defaults=supplied, **kw)
            elif r < 0.5:
                obj = dataset(**kw)(f)                  # the decorator-with-arguments form
            else:
                obj = dataset(f, **kw)
        self.ds[dsid] = obj
        for alias, impl in d.get("overloads", []):
            if impl[0] == "call" and d.get("dispatch") is not None and self.rng.random() < 0.7:
                # an implementation written as a function: the overload decorator
                f, supplied = self.lifted(impl[1], impl[2], False)
                if supplied:
                    obj.overload(core.py_value(alias))(dataset.where(**supplied)(f))
                else:
                    obj.overload(core.py_value(alias))(f)
            else:
                obj.register(core.py_value(alias), self.build(impl))
        if d.get("effects_disabled"):
            obj.disable_effects()
        return obj

    def build(self, e):
        L, k = self.L, e[0]
        if k == "fnvalue":
            from labrea.types import Value
            f, kk = unary_callable(self.rng, self.body(e[1]))
            self.used.append("value " + kk)
            return Value(f)
        if k == "case":
            c = L.case(self.build(e[1]))
            for cond, r in e[2]:
                c = c.when(self.fn_or_build(cond), self.build(r))
            if e[3] is not None:
                c = c.otherwise(self.build(e[3]))
            return c
        if k == "apply":
            src, fn = self.build(e[1]), self.fn_or_build(e[2])
            return src.apply(fn) if self.rng.random() < 0.5 else src >> fn
        if k == "pipe":
            from labrea.pipeline import Pipeline
            p = Pipeline()
            for st in e[1]:
                p = p + self.fn_or_build(st)
            return p
        if k == "comp":
            from labrea.computation import CallbackEffect, ChainedEffect, Computation
            return Computation(self.build(e[1]), ChainedEffect(*[CallbackEffect(self.fn_or_build(x)) for x in e[2]]))
        if k == "call":
            from labrea.application import FunctionApplication
            if self.rng.random() < 0.15:       # the explicit form, the argument expressions given positionally
                f, kk = unary_callable(self.rng, self.body(e[1]))
                self.used.append("FunctionApplication(f, *args) " + kk)
                return FunctionApplication(f, *[self.build(x) for x in e[2]])
            f, supplied = self.lifted(e[1], e[2], False)
            if supplied and self.rng.random() < 0.5:
                return FunctionApplication.lift(**supplied)(f)      # the decorator-with-arguments form
            return FunctionApplication.lift(f, **(supplied or {}))
        if k == "pstep":
            from labrea.application import PartialApplication
            from labrea.pipeline import PipelineStep
            f, supplied = self.lifted(e[1], e[2], True)
            if supplied:
                return PipelineStep(PartialApplication.lift(f, **supplied), f"step{e[1]}")
            return L.pipeline_step(f)
        return super().build(e)


def kind_applies(scn, idx):
    for t in cp.sub_exprs(scn["exprs"][idx]):
        if isinstance(t, tuple) and t and t[0] in ("fnvalue", "call", "pstep", "dataset"):
            return True
    return False


def kind_rotation(scn, idx):
    import zlib
    return zlib.crc32(repr(scn["exprs"][idx]).encode()) % N_KIND_ROTATIONS


def kind_eval(scn, idx, options, rotation):
    """a freshly built copy of the graph with every user-supplied callable of another kind, evaluated once, caching
    disabled: (a value was produced?, executed function atoms in order, bodies handed an unevaluated expression, kinds used)"""
    import labrea.cache
    w = core.World(scn["ftable"])
    b = KindBuilder(w, scn["env"], rotation)
    obj = b.build(scn["exprs"][idx])
    w.calls.clear()
    ok = True
    with labrea.cache.disabled():
        try:
            core.force(obj.evaluate(core.py_json(options)))
        except RecursionError:
            ok = False
        except Exception:  # noqa
            ok = False
    seq = [int(t[1:t.index("(")]) for t in w.calls if t.startswith("c") and "(" in t and t[1:t.index("(")].isdigit()]
    return ok, seq, list(b.unproduced), list(b.used)


# ============================================================================ oracle

def fids_of(line):
    return [int(t[1:t.index("(")]) for t in cp.split(line)[1] if t.startswith("c") and "(" in t]


class Syntax:
    """function atoms written under a sub-expression, through dataset references"""

    def __init__(self, scn):
        self.env = scn["env"]
        self.memo = {}

    def ds(self, dsid, seen):
        if dsid in seen:
            return set()
        d = self.env[dsid]
        if d.get("derived") is not None:
            return self.ds(d["derived"], seen | {dsid})
        out = set() if d.get("abstract") else {d["fid"]}
        for part in ("dispatch", "callback"):
            if d.get(part) is not None:
                out |= self.fids(d[part], seen | {dsid})
        for x in d.get("kwargs", []) + list(d.get("effects", []) or []) + [x for _, x in d.get("overloads", [])]:
            out |= self.fids(x, seen | {dsid})
        return out

    def fids(self, e, seen=frozenset()):
        k = e[0]
        out = set()
        if k in ("fnvalue", "call", "pstep"):
            out.add(e[1])
        if k == "dataset":
            return self.ds(e[1], seen)
        for t in cp.sub_exprs(list(e[1:])):
            if isinstance(t, tuple) and t and isinstance(t[0], str):
                if t[0] in ("fnvalue", "call", "pstep") and len(t) > 1 and isinstance(t[1], int):
                    out.add(t[1])
                if t[0] == "dataset" and len(t) == 2 and isinstance(t[1], int):
                    out |= self.ds(t[1], seen)
        return out


def evaluated_once(scn, idx):
    """no node of the expression can be evaluated twice with different outcomes within one
    evaluation: no Map (one evaluation of the body per row) and no dataset referenced twice"""
    refs = {}

    def visit(x, seen):
        for t in cp.sub_exprs(x):
            if isinstance(t, tuple) and t and t[0] == "map":
                refs["map"] = 2
            if isinstance(t, tuple) and len(t) == 2 and t[0] == "dataset" and isinstance(t[1], int) and t[1] in scn["env"]:
                d = t[1]
                while scn["env"][d].get("derived") is not None:
                    d = scn["env"][d]["derived"]
                refs[d] = refs.get(d, 0) + 1
                if d not in seen:
                    visit(scn["env"][d], seen | {d})
    visit(scn["exprs"][idx], frozenset())
    return all(v <= 1 for v in refs.values())


def written_once(scn, idx):
    """function atoms written at exactly one place of the expression and the datasets of the scenario"""
    n = {}
    for t in cp.sub_exprs([scn["exprs"][idx], scn["env"]]):
        if isinstance(t, tuple) and len(t) > 1 and t[0] in ("fnvalue", "call", "pstep") and isinstance(t[1], int):
            n[t[1]] = n.get(t[1], 0) + 1
    for d in scn["env"].values():
        if d.get("derived") is None and not d.get("abstract") and "fid" in d:
            n[d["fid"]] = n.get(d["fid"], 0) + 1
    return {f for f, k in n.items() if k == 1}


def order_checks(scn, idx, seq, required=None):
    """argument-before-body / source-before-step constraints of expression idx, on an executed
    sequence `seq` of function atoms; only constraints whose atoms ran at most once are decidable.
    `required` (given when the evaluation and the reference both produced a value): the bodies on the path that
    produced the value - a body that ran although a required body of one of its own argument expressions never ran
    was not handed all of its arguments"""
    if not evaluated_once(scn, idx):
        return [], 0
    syn = Syntax(scn)
    once = written_once(scn, idx) if required is not None else set()
    count = {}
    for f in seq:
        count[f] = count.get(f, 0) + 1
    pos = {f: i for i, f in enumerate(seq)}
    bad = []
    checked = 0

    def before(first, then, what, arguments=False):
        nonlocal checked
        if arguments and required is not None:
            ran = {f for f in then if f in pos and count[f] == 1 and f in once}
            lacking = {f for f in first if f in required and f in once and f not in pos and f not in then}
            if ran:
                checked += 1
                if lacking:
                    bad.append(dict(what=what + " (a body needed to produce one of its arguments never ran: the argument was not produced)",
                                    first=sorted(lacking), then=sorted(ran), executed=seq))
        first = {f for f in first if f in pos}
        then = {f for f in then if f in pos}
        if not first or not then or (first & then):
            return
        if any(count[f] > 1 for f in first | then):
            return
        checked += 1
        if max(pos[f] for f in first) > min(pos[f] for f in then):
            bad.append(dict(what=what, first=sorted(first), then=sorted(then), executed=seq))

    def own(e):
        return {e[1]} if e[0] in ("call", "pstep", "fnvalue") else set()

    seen_ds = set()

    def walk(e):
        k = e[0]
        if k == "call":
            args = set()
            for a in e[2]:
                args |= syn.fids(a)
            before(args, {e[1]}, "a body ran before all of its argument expressions", arguments=True)
        if k == "pstep":
            args = set()
            for a in e[2]:
                args |= syn.fids(a)
            before(args, {e[1]}, "a step ran before all of its parameter expressions", arguments=True)
        if k == "apply":
            src, fn = syn.fids(e[1]), syn.fids(e[2])
            before(src, fn, "the function expression / step of an apply ran before its source")
        if k == "dataset":
            walk_ds(e[1])
            return
        for t in e[1:]:
            for s in children(t):
                walk(s)

    def children(t):
        if isinstance(t, tuple) and t and isinstance(t[0], str) and t[0] in KINDS:
            yield t
        elif isinstance(t, (tuple, list)):
            for y in t:
                yield from children(y)

    def walk_ds(dsid):
        if dsid in seen_ds:
            return
        seen_ds.add(dsid)
        d = scn["env"][dsid]
        if d.get("derived") is not None:
            walk_ds(d["derived"])
            return
        args = set()
        for a in d.get("kwargs", []):
            args |= syn.fids(a)
            walk(a)
        body = set() if d.get("abstract") else {d["fid"]}
        before(args, body, "a dataset body ran before all of its argument expressions", arguments=True)
        impls = set()
        for _, x in d.get("overloads", []):
            impls |= syn.fids(x)
            walk(x)
        if d.get("dispatch") is not None:
            walk(d["dispatch"])
            before(syn.fids(d["dispatch"]), body | impls, "a dataset implementation ran before its dispatch")
        if d.get("callback") is not None:
            walk(d["callback"])
        for x in d.get("effects", []) or []:
            walk(x)
        cb = syn.fids(d["callback"]) if d.get("callback") is not None else set()
        before(body | impls, cb, "a dataset callback ran before the body it is applied to")
        eff = set()
        for x in d.get("effects", []) or []:
            eff |= syn.fids(x)
        before(body | impls | cb, eff, "a dataset effect ran before the value it receives was produced")

    walk(scn["exprs"][idx])
    return bad, checked


KINDS = {"value", "fnvalue", "option", "apply", "bind", "switch", "case", "coalesce", "iter", "list", "tuple", "dict",
         "map", "tolist", "with", "cached", "call", "pstep", "template", "comp", "logged", "pipe", "alloptions", "dataset"}


def oracle_op(scn, op, memo):
    """violations of the property's statement for one op, on freshly built graphs"""
    m, idx, _cc, _lc, o = op
    key = (m, idx, repr(o))
    if key in memo:
        return memo[key]
    out = dict(violations=[], checked=0, order_checked=0, skipped=None, nontrivial=False, disagree=False)
    memo[key] = out
    if has_template_node(scn["exprs"][idx]) or has_template_node(scn["env"]):
        out["skipped"] = "template"
        return out
    try:
        ok_p, need_p, required_p = reference_required(scn, idx, o)
        ok_g, need_g, _ = reference(scn, idx, o, generous=True)
    except Unsupported as e:
        out["skipped"] = str(e)
        return out
    syn_all = Syntax(scn).fids(scn["exprs"][idx])
    out["nontrivial"] = bool(syn_all - need_g) and bool(need_g)
    if m == "explain":
        # explain() has paths of its own (a Map's body under the caller's dictionary when the rows
        # cannot be computed, a coalesce's last member when all fail): the evaluation's selected
        # path is not its yardstick; it is covered by the containment theorem + the correspondence
        out["skipped"] = "explain"
        return out
    runs = [(m, False)] if m != "evaluate" else [("evaluate", True), ("evaluate", False)]
    for meth, disabled in runs:
        line = cp.fresh_eval(scn, idx, o, method=meth, disabled=disabled)
        seq = fids_of(line)
        executed = set(seq)
        exact = (meth == "evaluate" and disabled)
        need = need_p if exact else need_g
        out["checked"] += 1
        if exact and cp.split(line)[0].startswith("ok:") != ok_p:
            out["disagree"] = True
        extra = executed - need
        if extra:
            out["violations"].append(dict(
                desc=f"{meth} ({'cache disabled' if disabled else 'cache on'}) ran bodies that are not on the selected path",
                unneeded=sorted(extra), executed=seq, needed=sorted(need), method=meth, disabled=disabled))
        if exact:
            impl_ok = cp.split(line)[0].startswith("ok:")
            bad, n = order_checks(scn, idx, seq, required_p if (ok_p and impl_ok) else None)
            out["order_checked"] += n
            for b in bad[:1]:
                out["violations"].append(dict(desc=b["what"], first=b["first"], then=b["then"], executed=seq,
                                              method=meth, disabled=disabled))
            # the same graph with every user-supplied callable of another KIND (see KindBuilder)
            if kind_applies(scn, idx):
                kbase = kind_rotation(scn, idx)
                k_ok, kseq, unproduced, used = kind_eval(scn, idx, o, kbase)
                out["checked"] += 1
                out["kind_runs"] = out.get("kind_runs", 0) + 1
                what = dict(method="evaluate", disabled=True, callable_kinds=used, kind_rotation=kbase)
                extra = set(kseq) - need
                if unproduced:
                    out["violations"].append(dict(
                        what, desc="a body ran before its argument was produced: it was handed the unevaluated expression itself "
                                   "[the graph built with user callables of other kinds]", bodies=sorted(set(unproduced)), executed=kseq))
                elif extra:
                    out["violations"].append(dict(
                        what, desc="evaluate (cache disabled) ran bodies that are not on the selected path [the graph built with user "
                                   "callables of other kinds]", unneeded=sorted(extra), executed=kseq, needed=sorted(need)))
                else:
                    bad, n = order_checks(scn, idx, kseq, required_p if (ok_p and k_ok) else None)
                    out["order_checked"] += n
                    for b in bad[:1]:
                        out["violations"].append(dict(what, desc=b["what"] + " [the graph built with user callables of other kinds]",
                                                      first=b["first"], then=b["then"], executed=kseq))
                    if not bad and k_ok != impl_ok:
                        out["kind_outcome_differs"] = True
    return out


# ============================================================================ construction-time laziness

class Recorder:
    """installs a recording EvaluateRequest / ValidateRequest / KeysRequest / ExplainRequest handler"""

    def __init__(self):
        self.seen = []

    def __enter__(self):
        import contextlib
        from labrea import runtime
        from labrea.types import EvaluateRequest, ExplainRequest, KeysRequest, ValidateRequest
        self.st = contextlib.ExitStack()
        for R in (EvaluateRequest, ValidateRequest, KeysRequest, ExplainRequest):
            inner = runtime.current_runtime().handlers.get(R, runtime._DEFAULT_HANDLERS[R])

            def rec(req, _inner=inner, _name=R.__name__):
                self.seen.append(_name)
                return _inner(req)
            self.st.enter_context(runtime.handle(R, rec))
        return self

    def __exit__(self, *a):
        self.st.close()


def construction_scenario(scn):
    """build every object of the scenario (datasets with overloads, derivatives, all combinators)
    under the recorder; nothing may run"""
    with Recorder() as rec:
        w = core.World(scn["ftable"])
        b = core.Builder(w, scn["env"])
        for e in scn["exprs"]:
            b.build(e)
        for dsid in scn["env"]:
            b.dataset(dsid)
    if w.calls or rec.seen:
        return dict(desc="building the graph of a scenario ran a body / issued an evaluation request",
                    ran=list(w.calls)[:6], requests=rec.seen[:6])
    # the same definitions with user callables of other kinds (classes, instances, functools.partial objects, ...)
    with Recorder() as rec:
        w = core.World(scn["ftable"])
        b = KindBuilder(w, scn["env"], len(scn["exprs"]) + 3 * len(scn["env"]))
        for e in scn["exprs"]:
            b.build(e)
        for dsid in scn["env"]:
            b.dataset(dsid)
    if w.calls or rec.seen:
        return dict(desc="building the graph of a scenario (user callables of other kinds: classes, instances, functools.partial "
                         "objects, ...) ran a body / issued an evaluation request",
                    ran=list(w.calls)[:6], requests=rec.seen[:6], callable_kinds=list(b.used)[:12])
    return None


def construction_sequences(rng):
    """explicit construction sequences through the decorator / operator forms, tripwire bodies.
    Returns (list of failures, number of sequences, list of (name, object, options, expected bodies))"""
    import labrea
    from labrea import (Option, abstractdataset, dataset, datasetclass, implements, interface, pipeline_step)
    from labrea.pipeline import Pipeline
    ran = []

    def trip(name, ret=None):
        """a zero-argument tripwire body"""
        def f():
            ran.append(name)
            return ret if ret is not None else name
        f.__name__ = f.__qualname__ = name
        return f

    def trip1(name, ret=None):
        """a one-argument tripwire (callback / step / effect / predicate)"""
        def f(x):
            ran.append(name)
            return ret if ret is not None else (name, x)
        f.__name__ = f.__qualname__ = name
        return f

    fails, live, n = [], [], 0

    def step(name, thunk):
        nonlocal n
        n += 1
        ran.clear()
        with Recorder() as rec:
            try:
                r = thunk()
            except Exception as e:  # construction itself must not fail either
                fails.append(dict(desc=f"construction sequence '{name}' raised", error=repr(e)))
                return None
        if ran or rec.seen:
            fails.append(dict(desc=f"construction sequence '{name}' ran a body / issued an evaluation request",
                              ran=list(ran), requests=rec.seen[:6]))
        return r

    a = rng.randint(1, 9)
    base = step("@dataset", lambda: dataset(trip("base")))

    def dep_body(x=base, y=Option("Y", 0)):
        ran.append("dep")
        return ("dep", x, y)
    dep = step("@dataset(dispatch=, options=, default_options=, callback=, effects=) over a dataset and an Option",
               lambda: dataset(dispatch="D", options={"P": a}, default_options={"Q": a},
                               callback=pipeline_step(trip1("cb")), effects=[trip1("eff")])(dep_body))
    if dep is not None:
        step("overload decorator", lambda: dep.overload("alt")(trip("alt")))
        step("overload with list alias", lambda: dep.overload(["a1", "a2"])(trip("alt2")))
        step("register", lambda: dep.register("reg", dataset(trip("regimpl"))))
        wo = step("with_options", lambda: dep.with_options({"P": a + 1}))
        step("with_default_options", lambda: dep.with_default_options({"Q": a + 1}))
        step("set_dispatch", lambda: dep.set_dispatch(Option("D2", "x")))
        step("set_dispatch back", lambda: dep.set_dispatch(Option("D", None)))
        step("add_effects / disable / enable", lambda: (dep.add_effects(trip1("eff2")), dep.disable_effects(), dep.enable_effects()))
        step(">> into a function", lambda: dep >> trip1("after"))
        step("apply", lambda: dep.apply(trip1("after2")))
        step("bind", lambda: dep.bind(lambda v: labrea.Value(v)))
        live.append(("dataset default implementation", dep, {"Y": 1}, ["base", "dep", "cb", "eff", "eff2"]))
        live.append(("dataset overload", dep, {"D": "alt"}, ["alt", "cb", "eff", "eff2"]))
        if wo is not None:
            live.append(("with_options derivative (made before the later registrations' effects)", wo, {"D": "reg"}, None))
    ad = step("@abstractdataset(dispatch=...)", lambda: abstractdataset(dispatch=Option("D"))(trip("abstract_never")))
    if ad is not None:
        step("overload of an abstract dataset", lambda: ad.overload("x")(trip("ad_x")))
        live.append(("abstract dataset overload", ad, {"D": "x"}, ["ad_x"]))
    s1 = step("pipeline_step", lambda: pipeline_step(trip1("s1")))

    def s2_body(x, p=Option("PP", 1)):
        ran.append("s2")
        return (x, p)
    s2 = step("pipeline_step with Option parameter", lambda: pipeline_step(s2_body))
    if s1 is not None and s2 is not None:
        p = step("step + step", lambda: s1 + s2)
        step("Pipeline() + step + function", lambda: Pipeline() + s1 + trip1("plainfn"))
        step("pipeline + pipeline", lambda: (s1 + s2) + (s2 + s1))
        if base is not None and p is not None:
            x = step("dataset >> pipeline", lambda: dataset(trip("base2")) >> p)
            if x is not None:
                live.append((">> pipeline", x, {}, ["base2", "s1", "s2"]))
    step("switch / case / coalesce / Iter / Map / collections / Template / WithOptions / cached / Option default+domain", lambda: (
        labrea.switch(Option("K"), {1: dataset(trip("b1")), 2: dataset(trip("b2"))}, dataset(trip("b3"))),
        labrea.case(Option("K")).when(trip1("pred", True), dataset(trip("r1"))).otherwise(dataset(trip("r2"))),
        labrea.coalesce(dataset(trip("m1")), dataset(trip("m2"))),
        labrea.Iter(dataset(trip("i1")), dataset(trip("i2"))),
        labrea.Map(dataset(trip("mbody")), {"K": dataset(trip("miter", [1, 2]))}),
        labrea.evaluatable_list(dataset(trip("l1"))), labrea.evaluatable_dict({"a": dataset(trip("d1"))}),
        labrea.Template("{A}-{:x:}", x=dataset(trip("t1"))),
        labrea.WithOptions(dataset(trip("w1")), {"A": 1}), labrea.WithDefaultOptions(dataset(trip("w2")), {"A": 1}),
        labrea.cached(dataset(trip("c1"))),
        Option("A", dataset(trip("optdefault"))), Option("A", domain=dataset(trip("optdomain"))),
    ))

    def make_interface():
        @interface("DISPATCH")
        class I:
            a: str

            @staticmethod
            @abstractdataset
            def b():
                ran.append("I.b")

            def c():
                ran.append("I.c")
                return "c"
            d = Option("D", "d")
        return I
    I = step("interface definition", make_interface)
    if I is not None:
        def make_impl():
            @I.implementation("X")
            class Impl:
                a = dataset(trip("Impl.a"))

                def b():
                    ran.append("Impl.b")
                    return "b"
            return Impl
        step("implementation definition", make_impl)

        def make_impl2():
            @implements(I, alias=["Y", "Z"])
            class Impl2:
                a = "const"
                b = dataset(trip("Impl2.b"))
                c = dataset(trip("Impl2.c"))
            return Impl2
        step("implements(...) with list alias", make_impl2)
        live.append(("interface member via implementation", I.b, {"DISPATCH": "X"}, ["Impl.b"]))
        live.append(("interface default member", I.c, {"DISPATCH": "X"}, ["I.c"]))

    def make_dc():
        @datasetclass
        class DC:
            x: str = dataset(trip("DC.x"))
            y: int = Option("Y", 3)
        return DC
    DC = step("datasetclass definition", make_dc)
    if DC is not None:
        live.append(("datasetclass", DC, {}, ["DC.x"]))

    # the tripwires are live code: evaluating runs exactly the expected bodies
    for name, obj, opts, expected in live:
        ran.clear()
        try:
            obj(opts) if not isinstance(obj, type) else obj.evaluate(opts)
        except Exception as e:
            fails.append(dict(desc=f"evaluating '{name}' after construction failed", error=repr(e)))
            continue
        if expected is not None and sorted(set(ran)) != sorted(set(expected)):
            fails.append(dict(desc=f"evaluating '{name}' ran {sorted(set(ran))}, the selected path is {sorted(set(expected))}"))
    return fails, n, len(live)


def definition_sequences(rng):
    """Construction-time laziness for EVERY public constructor that accepts an expression, tripwire
    bodies everywhere: option namespaces (decorator, implicit / nested / renamed sub-namespaces, bare
    dataset members, Option.auto(default=...), Option.auto(...) >> f, ds >> f, explicit Option members with
    default / default_factory / domain), Option forms, dataset / abstractdataset decorator forms (defaults=,
    where(), nocache, cache factories, an expression as definition), dataset classes (incl. inheritance),
    interfaces (dataset-valued members, expression dispatch), pipelines and the labrea.functions helpers with
    dataset-valued arguments, templates, collections, conditionals, caches, logging, computations, Overloaded;
    then reading what a definition produced (__doc__, repr, str, hash, ==, copy, attribute / item access).
    Nothing may run.  Afterwards: an Option's default runs exactly when its key is absent.
    Returns (failures, number of sequences, number of live checks)"""
    import copy
    import labrea
    import labrea.functions as F
    from labrea import (Option, Template, Value, abstractdataset, dataset, datasetclass, implements, interface, pipeline_step)
    from labrea.application import FunctionApplication, PartialApplication
    from labrea.cache import Cached, MemoryCache, NoCache
    from labrea.computation import CallbackEffect, ChainedEffect, Computation
    from labrea.conditional import CaseWhen
    from labrea.logging import Logged, LogEffect
    from labrea.overload import Overloaded
    from labrea.pipeline import Pipeline, PipelineStep
    from labrea.types import Evaluatable
    ran = []
    made = []          # (name, object) of everything a definition produced: read back afterwards
    counter = [0]

    def ds(name, ret=None):
        """a fresh dataset whose body is a tripwire"""
        def f():
            ran.append(name)
            return name if ret is None else ret
        f.__name__ = f.__qualname__ = name
        return dataset(f)

    def fn0(name, ret=None):
        def f():
            ran.append(name)
            return name if ret is None else ret
        f.__name__ = f.__qualname__ = name
        return f

    def fn1(name, ret=None):
        def f(x):
            ran.append(name)
            return (name, x) if ret is None else ret
        f.__name__ = f.__qualname__ = name
        return f

    fails, live, n = [], [], 0

    def step(name, thunk):
        nonlocal n
        n += 1
        ran.clear()
        with Recorder() as rec:
            try:
                r = thunk()
            except Exception as e:  # a definition must not fail either
                fails.append(dict(desc=f"definition sequence '{name}' raised", error=repr(e)))
                return None
        if ran or rec.seen:
            fails.append(dict(desc=f"definition sequence '{name}' ran a body / issued an evaluation request",
                              ran=list(ran), requests=rec.seen[:6]))
        if r is not None:
            for i, x in enumerate(r if isinstance(r, tuple) else (r,)):
                made.append((f"{name}#{i}", x))
        return r

    lit = rng.randint(1, 9)

    # ---- option namespaces
    def make_ns():
        @Option.namespace
        class PKG:
            """a package namespace"""
            N = ds("ns.N", 5)                                            # bare dataset -> Option('PKG.N', default=<dataset>)
            A = Option.auto(default=ds("ns.A", 7), doc="an automatic option")
            T = Option.auto(default=ds("ns.T", 8), doc="transformed") >> fn1("ns.T.step")
            D = Option.auto(default=ds("ns.D", 1), domain=ds("ns.D.domain", [1, 2]), type=int)
            F_ = ds("ns.F.src", 2) >> fn1("ns.F.step")                   # ds >> f as a default
            O = Option("O", default=ds("ns.O", 3), domain=ds("ns.O.domain", [3, 4]), doc="explicit member")
            G = Option("G", default_factory=fn0("ns.G.factory", 9))
            C = FunctionApplication(fn0("ns.C.body", 4))
            TPL = Template("{PKG.LIT}-{:p:}", p=ds("ns.TPL.param", "p"))
            LIT = lit
            S = "x{PKG.LIT}"
            ANN: int

            class SUB:                                                    # implicit sub-namespace
                M = Option.auto(default=ds("ns.SUB.M", 11), doc="sub option")
                K = ds("ns.SUB.K", 12)

                class DEEP:
                    Z = ds("ns.SUB.DEEP.Z", 13) >> fn1("ns.SUB.DEEP.Z.step")
                    Y = Option.auto(default=ds("ns.SUB.DEEP.Y", 14))

            @Option.namespace("RE-NAMED")
            class RENAMED:                                                # explicit sub-namespace, custom name
                R = ds("ns.RENAMED.R", 15)
                Q = Option.auto(default=ds("ns.RENAMED.Q", 16), doc="q") >> fn1("ns.RENAMED.Q.step")
        return PKG
    PKG = step("@Option.namespace with computed member defaults, implicit / nested / renamed sub-namespaces", make_ns)
    if PKG is not None:
        members = step("namespace member access, item access, composition", lambda: (
            PKG.N, PKG.A, PKG.T, PKG.D, PKG["O"], PKG.G, PKG.C, PKG.TPL, PKG.SUB, PKG.SUB.M, PKG.SUB.K, PKG.SUB.DEEP.Z,
            PKG.SUB.DEEP.Y, PKG.RENAMED.R, PKG.RENAMED.Q, PKG.N >> str, PKG.SUB.M.apply(fn1("ns.after")),
            labrea.switch(PKG.LIT, {lit: PKG.N}, PKG.SUB.K), dataset(fn0("ns.user"), defaults={}), PKG.ANN))
        step("reading the namespace documentation", lambda: (PKG.__doc__ or "") + (PKG.SUB.__doc__ or "") + (PKG.N.__doc__ or "") and None)

        def make_ns_user():
            def body(a=PKG.N, b=PKG.SUB.K, c=PKG.RENAMED.Q):
                ran.append("ns.user2")
                return (a, b, c)
            return dataset(body)
        user = step("@dataset over namespace members", make_ns_user)
        present = {"PKG": {"N": 1, "A": 1, "T": 1, "D": 1, "O": 3, "G": 1, "SUB": {"M": 1, "K": 1, "DEEP": {"Z": 1, "Y": 1}},
                           "RE-NAMED": {"R": 1, "Q": 1}}}
        live += [
            ("namespace member, key present", PKG.N, present, []),
            ("namespace auto member, key present", PKG.A, present, []),
            ("namespace transformed auto member, key present", PKG.T, present, ["ns.T.step"]),
            ("nested namespace member, key present", PKG.SUB.DEEP.Y, present, []),
            ("renamed namespace member, key present", PKG.RENAMED.Q, present, ["ns.RENAMED.Q.step"]),
            ("explicit Option member with domain, key present", PKG["O"], present, ["ns.O.domain"]),
            ("default_factory member, key present", PKG.G, present, []),
            ("namespace member, key absent", PKG.N, {}, ["ns.N"]),
            ("namespace auto member, key absent", PKG.A, {"PKG": {"N": 1}}, ["ns.A"]),
            ("nested namespace member, key absent", PKG.SUB.M, {"PKG": {"SUB": {"K": 1}}}, ["ns.SUB.M"]),
            ("deep namespace member, key absent", PKG.SUB.DEEP.Y, {}, ["ns.SUB.DEEP.Y"]),
            ("renamed namespace member, key absent", PKG.RENAMED.R, {}, ["ns.RENAMED.R"]),
            ("default_factory member, key absent", PKG.G, {}, ["ns.G.factory"]),
        ]
        if user is not None:
            live.append(("dataset over namespace members, two keys present", user,
                         {"PKG": {"N": 1, "RE-NAMED": {"Q": 2}}}, ["ns.SUB.K", "ns.RENAMED.Q.step", "ns.user2"]))

    # ---- Option forms
    opts = step("Option(default=) / default_factory / domain / type / doc / Option[int]", lambda: (
        Option("A", ds("opt.default")), Option("A", default=ds("opt.default2") >> fn1("opt.default2.step")),
        Option("A", default_factory=fn0("opt.factory")), Option("A", ds("opt.d3"), domain=ds("opt.domain"), type=int, doc="doc"),
        Option[int]("A", ds("opt.d4")), Option("A.B.C", labrea.coalesce(Option("Z"), ds("opt.d5"))),
        labrea.WithOptions(Option("A", ds("opt.d6")), {"B": 1}), labrea.WithDefaultOptions(Option("A", ds("opt.d7")), {"A": 1})))
    if opts is not None:
        live.append(("Option default, key present", opts[0], {"A": 1}, []))
        live.append(("Option default_factory, key present", opts[2], {"A": 1}, []))
        live.append(("Option default, key absent", opts[0], {}, ["opt.default"]))
        live.append(("Option default_factory, key absent", opts[2], {}, ["opt.factory"]))
        live.append(("WithDefaultOptions supplies the key", opts[7], {}, []))

    # ---- dataset decorator forms
    def make_ds_forms():
        def body(x, y=Option("Y", ds("dsf.ydefault"))):
            ran.append("dsf.body")
            return (x, y)
        a = dataset(body, defaults={"x": ds("dsf.x")})
        b = dataset.where(x=ds("dsf.where.x"))(body)
        c = dataset.nocache(fn0("dsf.nocache"))
        d = dataset(cache=MemoryCache, effects=[fn1("dsf.effect"), CallbackEffect(fn1("dsf.effect2"))],
                    callback=pipeline_step(fn1("dsf.cb")) + fn1("dsf.cb2"), dispatch=Option("D", ds("dsf.dispatchdefault")))(fn0("dsf.d"))
        e = abstractdataset(dispatch="D")(fn0("dsf.abstract"))
        e.register("x", ds("dsf.e.x"))
        e.register("y", Option("Q", ds("dsf.e.ydefault")))
        f = dataset(ds("dsf.inner") >> fn1("dsf.inner.step"))          # an expression as the definition
        g = a.with_options({"Y": 1}).with_default_options({"Z": 2})
        a.set_cache(NoCache())
        a.set_cache(MemoryCache)
        a.add_effect(fn1("dsf.a.effect"))
        a.disable_effects()
        a.enable_effects()
        a.set_dispatch(Option("D2", ds("dsf.a.dispatchdefault")))
        a.overload(["p", "q"])(fn0("dsf.a.pq"))
        return a, b, c, d, e, f, g
    forms = step("dataset decorator forms: defaults=, where(), nocache, cache factory, effects, callback, expression definition, "
                 "register / overload / set_cache / add_effect / set_dispatch", make_ds_forms)
    if forms is not None:
        live.append(("abstract dataset: the registered implementation only", forms[4], {"D": "x"}, ["dsf.e.x"]))
        live.append(("dataset with an expression-valued dispatch default, overload selected", forms[0], {"D2": "p"}, ["dsf.a.pq", "dsf.a.effect"]))

    # ---- dataset classes
    def make_dcs():
        @datasetclass
        class Base:
            x: str = ds("dc.x")
            y: int = Option("Y", ds("dc.ydefault"))
            z: int = 3
            w = ds("dc.w") >> fn1("dc.w.step")

        class Plain:
            u: str = ds("dc.u")

        @datasetclass
        class Child(Plain):
            v: str = ds("dc.v")
        return Base, Child
    dcs = step("datasetclass definitions (members: dataset, Option with a dataset default, constants, pipelines; inheritance)", make_dcs)
    if dcs is not None:
        live.append(("datasetclass, key present", dcs[0], {"Y": 1}, ["dc.x", "dc.w", "dc.w.step"]))
        live.append(("inherited datasetclass", dcs[1], {}, ["dc.u", "dc.v"]))

    # ---- interfaces
    def make_ifaces():
        @interface(Option("IMPL", ds("if.dispatchdefault")))
        class I:
            a: str
            b = ds("if.b")                       # a dataset-valued member (gets the interface's dispatch)
            c = Option("C", ds("if.cdefault"))   # an expression-valued member
            d = 4

            def e(x=ds("if.e.arg")):
                ran.append("if.e")
                return x

        @I.implementation(["one", "uno"])
        class One:
            a = ds("if.One.a")
            b = ds("if.One.b") >> fn1("if.One.b.step")

            def e():
                ran.append("if.One.e")
                return "e"

        @implements(I, alias="two")
        class Two:
            a = "const"
            c = ds("if.Two.c")
        return I, One, Two
    ifs = step("interface with expression dispatch, dataset-valued and expression-valued members; implementations", make_ifaces)
    if ifs is not None:
        live.append(("interface member through an implementation", ifs[0].b, {"IMPL": "uno"}, ["if.One.b", "if.One.b.step"]))
        live.append(("interface default member under another implementation", ifs[0].b, {"IMPL": "two"}, ["if.b"]))
        live.append(("interface expression member, key present", ifs[0].c, {"IMPL": "one", "C": 1}, []))

    # ---- pipelines and helper steps with dataset-valued arguments
    def make_pipes():
        def s(x, p=ds("pl.param"), q=Option("Q", ds("pl.qdefault"))):
            ran.append("pl.s")
            return (x, p, q)
        st = pipeline_step(s)
        p = st + fn1("pl.fn") + PipelineStep(ds("pl.stepexpr", fn1("pl.stepexpr.fn")), "named") + Pipeline() + Pipeline(st)
        q = p
        q += st
        helpers = (F.add(ds("pl.add")), F.subtract(ds("pl.sub")), F.multiply(ds("pl.mul")), F.left_multiply(ds("pl.lmul")),
                   F.divide_by(ds("pl.div")), F.divide_into(ds("pl.divinto")), F.modulo(ds("pl.mod")), F.map(ds("pl.map")),
                   F.filter(ds("pl.filter")), F.reduce(ds("pl.reduce"), ds("pl.reduce.init")), F.into(ds("pl.into")),
                   F.flatmap(ds("pl.flatmap")), F.map_items(ds("pl.mi")), F.map_keys(ds("pl.mk")), F.map_values(ds("pl.mv")),
                   F.filter_items(ds("pl.fi")), F.filter_keys(ds("pl.fk")), F.filter_values(ds("pl.fv")), F.concat(ds("pl.concat")),
                   F.append(ds("pl.append")), F.intersect(ds("pl.isect")), F.union(ds("pl.union")), F.difference(ds("pl.diff")),
                   F.symmetric_difference(ds("pl.sdiff")), F.get(ds("pl.get"), ds("pl.get.default")),
                   F.get_from(ds("pl.getfrom"), ds("pl.getfrom.default")), F.merge(ds("pl.merge")), F.instance_of(ds("pl.type")),
                   F.all(ds("pl.all1"), ds("pl.all2")), F.any(ds("pl.any1"), ds("pl.any2")), F.invert(ds("pl.invert")),
                   F.eq(ds("pl.eq")), F.ne(ds("pl.ne")), F.gt(ds("pl.gt")), F.ge(ds("pl.ge")), F.lt(ds("pl.lt")), F.le(ds("pl.le")),
                   F.has_remainder(ds("pl.hr1"), ds("pl.hr2")), F.is_in(ds("pl.isin")), F.is_not_in(ds("pl.isnotin")),
                   F.one_of(ds("pl.oneof"), 1), F.none_of(ds("pl.noneof"), 1), F.contains(ds("pl.contains")),
                   F.does_not_contain(ds("pl.dnc")), F.intersects(ds("pl.intersects")), F.disjoint_from(ds("pl.disjoint")),
                   F.ensure(ds("pl.ensure")), F.get_attribute(ds("pl.attr")), F.call_method(ds("pl.method"), ds("pl.method.arg")),
                   F.partial(fn1("pl.partial"), ds("pl.partial.arg")))
        whole = Pipeline()
        for h in helpers[:-1]:
            whole += h
        return (st, p, q, ds("pl.src") >> p, ds("pl.src2").apply(q), whole, ds("pl.src3") >> whole) + helpers
    step("pipeline_step with dataset-valued parameters, +, +=, >>, every labrea.functions helper with dataset-valued arguments", make_pipes)

    # ---- every other public constructor
    def make_rest():
        sw = labrea.Switch(ds("r.sw.dispatch"), {1: ds("r.sw.1"), "a": ds("r.sw.a")}, ds("r.sw.default"))
        cw = labrea.case(ds("r.case.dispatch")).when(ds("r.case.cond"), ds("r.case.res")).otherwise(ds("r.case.default"))
        cw2 = labrea.case(ds("r.case2.dispatch")).otherwise(ds("r.case2.default")).when(fn1("r.case2.pred"), ds("r.case2.res"))
        cw3 = CaseWhen(ds("r.case3.dispatch"), [(Value(fn1("r.case3.pred")), ds("r.case3.res"))], ds("r.case3.default"))
        ov = Overloaded(ds("r.ov.dispatch"), {1: ds("r.ov.1")}, ds("r.ov.default"))
        ov.register(2, ds("r.ov.2"))
        m = labrea.Map(ds("r.map.body"), {"K": ds("r.map.iter"), "J.X": labrea.Iter(ds("r.map.i1"), ds("r.map.i2"))})
        return (sw, cw, cw2, cw3, ov, ov.switch, m, m.values,
                labrea.Coalesce(ds("r.co.1"), ds("r.co.2")), labrea.coalesce(Option("A"), ds("r.co.3")),
                labrea.Iter(ds("r.iter.1")), labrea.evaluatable_list(ds("r.l.1"), ds("r.l.2")), labrea.evaluatable_tuple(ds("r.t.1")),
                labrea.evaluatable_set(ds("r.s.1")), labrea.evaluatable_dict({"a": ds("r.d.a"), 1: ds("r.d.1")}),
                Template("{A}{:x:}{:y:}", x=ds("r.tpl.x"), y=Template("{:z:}", z=ds("r.tpl.z"))),
                labrea.cached(ds("r.cached")), labrea.cached(ds("r.cached2"), MemoryCache()), Cached(ds("r.cached3"), NoCache()),
                Logged(ds("r.logged"), 20, "n", "m"), Computation(ds("r.comp"), ChainedEffect(CallbackEffect(ds("r.comp.eff")), LogEffect(20, "n", "m"))),
                FunctionApplication(fn1("r.fa"), ds("r.fa.arg")), FunctionApplication.lift(fn1("r.fa2"), x=ds("r.fa2.arg")),
                PartialApplication(fn1("r.pa"), ds("r.pa.arg")), PartialApplication.lift(lambda x, y=ds("r.pa2.arg"): (x, y)),
                Evaluatable.ensure(ds("r.ensure")), Evaluatable.unit(fn0("r.unit")), Value(ds("r.value")),
                ds("r.bind").bind(lambda v: ds("r.bind.inner")), ds("r.result").result, ds("r.rshift") >> ds("r.rshift.fn", fn1("r.rshift.fn.fn")))
    step("Switch / case (both chaining orders) / CaseWhen / Overloaded / Map / Map.values / coalesce / collections / Template / cached / "
         "Logged / Computation / FunctionApplication / PartialApplication / ensure / unit / bind / result / >>", make_rest)

    # ---- reading what the definitions produced
    def read_back():
        for name, x in made:
            for what, f in (("repr", repr), ("str", str), ("doc", lambda v: getattr(v, "__doc__", None)),
                            ("name", lambda v: (getattr(v, "__name__", None), getattr(v, "__qualname__", None))),
                            ("hash", hash), ("eq", lambda v: (v == v, v != made[0][1])), ("copy", copy.copy), ("bool", bool),
                            ("isinstance", lambda v: isinstance(v, Evaluatable))):
                before = len(ran)
                try:
                    f(x)
                except Exception:
                    pass            # an unhashable / uncopyable object is not this property's business
                if len(ran) != before:
                    raise AssertionError(f"{what}() of the object defined by '{name}' ran {ran[before:]}")
    n_made = len(made)
    ran.clear()
    with Recorder() as rec:
        try:
            read_back()
        except AssertionError as e:
            fails.append(dict(desc="reading back a defined object (repr / str / __doc__ / hash / == / copy) ran a body", error=str(e)))
    if rec.seen:
        fails.append(dict(desc="reading back a defined object (repr / str / __doc__ / hash / == / copy) issued an evaluation request",
                          requests=rec.seen[:6]))
    n += n_made

    # ---- the tripwires are live, and run exactly on the selected path
    for name, obj, o, expected in live:
        ran.clear()
        try:
            obj(o) if not isinstance(obj, type) else obj.evaluate(o)
        except Exception as e:
            fails.append(dict(desc=f"evaluating '{name}' after its definition failed", error=repr(e)))
            continue
        if sorted(set(ran)) != sorted(set(expected)):
            fails.append(dict(desc=f"evaluating '{name}' ran {sorted(set(ran))}, the selected path is {sorted(set(expected))}"))
    return fails, n, len(live)


# ============================================================================ run / replay

def check_scenario(scn, memo=None):
    memo = {} if memo is None else memo
    res = []
    for j, op in enumerate(scn["ops"]):
        r = oracle_op(scn, op, memo)
        for v in r["violations"]:
            res.append((j, v))
    return res


def reaches_cache(scn, idx):
    """does evaluating expression idx consult a memory cache (whose fingerprint is keys(), first)"""
    seen = set()

    def ds(dsid):
        if dsid in seen:
            return False
        seen.add(dsid)
        d = scn["env"][dsid]
        if d.get("derived") is not None:
            return ds(d["derived"])
        return d.get("cache", "mem") == "mem" or any(ex(x) for x in cp.sub_exprs(d))

    def ex(t):
        if not (isinstance(t, tuple) and t and isinstance(t[0], str)):
            return False
        if t[0] == "cached" and len(t) == 3 and t[1] is not None:
            return True
        if t[0] == "dataset" and len(t) == 2 and isinstance(t[1], int) and t[1] in scn["env"]:
            return ds(t[1])
        return False
    return any(ex(t) for t in cp.sub_exprs(scn["exprs"][idx]))


def order_insensitive(mm):
    """keys() / explain() are set unions: which operand is walked first (hence which of two
    failing operands is named, and in which order two dispatches run) is not the property's
    business.  A keys/explain mismatch is tolerated when both sides fail, or when both succeed
    with the same set and the same multiset of events; an evaluate mismatch when both sides fail
    and a memory cache is consulted (its fingerprint is keys(), computed first).  Containment and
    order of what DID run are still decided by the oracle on every such op."""
    try:
        op = eval(mm["op"], {"S": S})
        scn = cp.load_scn(mm["scenario_repr"])
    except Exception:
        return False
    (ri, ei), (rm, em) = cp.split(mm["impl"]), cp.split(mm["model"])
    both_fail = ri.startswith("err:") and rm.startswith("err:")
    if op[0] == "evaluate":
        return both_fail and not op[2] and reaches_cache(scn, op[1])
    if op[0] not in ("keys", "explain"):
        return False
    if both_fail:
        return True
    return ri == rm and sorted(ei) == sorted(em)


def correspond(ctx, scns, name):
    """cp.correspondence stops a scenario at its first mismatch; a tolerated (order-insensitive)
    one must not hide the ops after it, so those scenarios are re-run from the next op on"""
    impls, models, mism, stats = cp.correspondence(ctx, scns, name)
    real, tolerated = [], 0
    for mm in mism:
        if "op" in mm and order_insensitive(mm):
            tolerated += 1
            scn = cp.load_scn(mm["scenario_repr"])
            il = core.run_impl(scn)
            ml = ctx.coq_eval(name + "_re%d" % tolerated, cp.REQ, "", [core.coq_scenario(scn)])[0].split(" ## ")
            multi = cp._multi_ref(scn["exprs"]) or cp._multi_ref(scn["env"]) or cp._multi_ref([o[4] for o in scn["ops"]])
            for oi, (op, a, b) in enumerate(zip(scn["ops"], il, ml)):
                if cp.same(a, b, multi):
                    continue
                m2 = dict(where="Model/Eval.v vs labrea", op_index=oi, op=repr(op), impl=a, model=cp.strip_ghost(b),
                          scenario_repr=mm["scenario_repr"])
                if not order_insensitive(m2):
                    real.append(m2)
                    break
        else:
            real.append(mm)
    stats["order_insensitive_keys_mismatches_tolerated"] = tolerated
    return impls, models, real, stats


def run(ctx):
    n = 450 if ctx.quick else 5000
    corpus = corpus_for(PID)
    fixed = [s for _, s in corpus] + directed()
    scns = fixed + generate(ctx, n)
    impls, models, mism, stats = correspond(ctx, scns, "Cases_C06")
    violations, distinct = [], set()
    tot = dict(oracle_ops=0, oracle_runs=0, order_constraints=0, skipped_template=0, skipped_explain=0, skipped_other=0,
               outcome_disagreements_with_reference=0, construction_scenarios=0, callable_kind_runs=0,
               callable_kind_outcome_differs_from_plain_functions=0)
    for scn in scns:
        memo = {}
        for j, op in enumerate(scn["ops"]):
            r = oracle_op(scn, op, memo)
            if r["skipped"]:
                tot["skipped_" + (r["skipped"] if r["skipped"] in ("template", "explain") else "other")] += 1
                continue
            tot["oracle_ops"] += 1
            tot["oracle_runs"] += r["checked"]
            tot["order_constraints"] += r["order_checked"]
            tot["outcome_disagreements_with_reference"] += int(r["disagree"])
            tot["callable_kind_runs"] += r.get("kind_runs", 0)
            tot["callable_kind_outcome_differs_from_plain_functions"] += int(bool(r.get("kind_outcome_differs")))
            if r["nontrivial"]:
                distinct.add(lib.stable_hash([cp.dump_scn(dict(scn, ops=[])), op[1], repr(op[4])]))
            for v in r["violations"][:1]:
                violations.append(dict(v, op_index=j, finding=None, scenario_repr=cp.dump_scn(dict(scn, ops=[op])),
                                       kind="oracle"))
        c = construction_scenario(scn)
        tot["construction_scenarios"] += 1
        if c:
            violations.append(dict(c, finding=None, scenario_repr=cp.dump_scn(scn), kind="construction"))
    fails, nseq, nlive = construction_sequences(ctx.rng)
    for f in fails:
        violations.append(dict(f, finding=None, kind="construction-sequence"))
    dfails, dseq, dlive = definition_sequences(ctx.rng)
    for f in dfails:
        violations.append(dict(f, finding=None, kind="definition-sequence"))
    nseq += dseq
    nlive += dlive
    tot["construction_sequences"] = nseq
    tot["construction_live_checks"] = nlive
    # de-duplicate by description (one replay per kind is enough)
    seen, uniq = set(), []
    for v in violations:
        k = (v["desc"], v.get("kind"))
        if k in seen:
            continue
        seen.add(k)
        uniq.append(v)
    return {
        "evaluations": stats["ops"] + tot["oracle_runs"] + tot["construction_scenarios"] + nseq,
        "distinct_nontrivial": len(distinct),
        "rule": "random expression graphs (LazyGen: the core profile plus bodies as option defaults, branches, members, results; every body has "
                "its own function atom) x 10 ops over adversarially perturbed dictionaries; correspondence = ordered call logs of model and "
                "implementation on the long-lived graph; oracle = per op on a freshly built graph (cache off and on): executed bodies within the "
                "bodies the reference semantics (independent Python, from the property text) needs, plus order constraints (incl.: a body / "
                "dataset body / step that ran although a body on the value-producing path of one of its own argument expressions never ran); "
                "per evaluate op one more freshly built graph in which every user-supplied callable is of another KIND (def / lambda / "
                "instance with __call__ / bound method / classmethod / staticmethod / class / functools.partial) and declares its argument "
                "expressions through another kind of parameter (keyword-only, supplied through defaults= / where() / lift(**kwargs), "
                "**kwargs, bound or made keyword-only by a functools.partial, behind a positional-only input), overloads through the "
                "overload decorator, predicates / applied functions / callbacks / effects / steps handed over as bare callables: same "
                "containment and order clauses, and no body may be handed an unevaluated expression as an argument; non-trivial = some "
                "body written in the expression is NOT on the selected path and some body is; distinct by hash of (graph, expression, dictionary)",
        "samples": [dict(exprs=repr(s["exprs"])[:300], op=repr(s["ops"][0])[:160], observed=il[0][:200])
                    for s, il in list(zip(scns, impls))[len(fixed):len(fixed) + 3]],
        "traces_validated_against_impl": stats["ops"],
        "correspondence_mismatches": mism[:5],
        "violations": uniq,
        "known": [],
        "distribution": dict(stats, **tot, scenarios=len(scns), corpus=len(corpus), directed=len(fixed) - len(corpus)),
        "exhaustive": False,
        "assumptions": ["user code is deterministic and records its own execution (harness bodies)",
                        "construction-time laziness is decided on the implementation only (the model's constructors are data): PARTIAL, runtime",
                        "templated option values are left to the correspondence (the reference semantics of the oracle does not resolve templates)"],
        "trusted_base": ["harness bodies (core.World) and the reference semantics Ref in harness/props/c06.py",
                         "confectioner / CPython dict and generator semantics are modelled (Model/Base.v, lazy Iter/Map as deferred errors) and validated by this correspondence run"],
    }


def replay(ctx, payload):
    kind = payload.get("kind")
    if kind == "construction-sequence":
        fails, _, _ = construction_sequences(ctx.rng)
        return bool(fails), dict(failures=fails[:5])
    if kind == "definition-sequence":
        fails, _, _ = definition_sequences(ctx.rng)
        return bool(fails), dict(failures=fails[:5])
    if "scenario_repr" not in payload:
        return False, dict(note="no failing input recorded (see 'broken' in the replay file)")
    scn = cp.load_scn(payload["scenario_repr"])
    if kind == "construction":
        c = construction_scenario(scn)
        return bool(c), dict(construction=c)
    detail = {}
    still = False
    if scn.get("ops"):
        res = check_scenario(scn)
        detail["oracle"] = [dict(op_index=j, **{k: v[k] for k in v if k != "scenario_repr"}) for j, v in res[:3]]
        still = bool(res)
        il = core.run_impl(scn)
        ml = ctx.coq_eval("Replay_C06", cp.REQ, "", [core.coq_scenario(scn)])[0].split(" ## ")
        detail["impl"] = il
        detail["model"] = [cp.strip_ghost(x) for x in ml]
        still = still or not cp.agrees(il, ml, scn)
    return still, detail
