"""C18 - every core operation is an interceptable request; pass-through changes nothing.

(i)   reflection sweep over every concrete class of the package that subclasses
      Validatable/Cacheable/Explainable/Evaluatable: structural facts (wrapper attribute, saved
      implementation) and a behavioural probe on a representative instance, emitted as the
      reflection table of Model/Requests.v; the theorems' hypothesis [table_ok] is discharged by
      vm_compute on this run's table (fail closed).
(ii)  random expression graphs / dictionaries: recording pass-through handlers for each of the
      nine request types, singly and all together: results and effects unchanged; a bypass
      monitor (sys.setprofile) checks that every implementation method, cache operation and log
      emission runs inside a request seen by the handlers; requests recorded on user-visible nodes
      are compared with the model's history (Model/RequestsRun.v).
(iii) substitution: an EvaluateRequest handler answering a fixed value for one dataset, compared
      with the graph in which the dataset is replaced by the constant.
      The target is also reached through the alternative constructors of its consumers: with_options /
      with_default_options derivatives of the datasets that depend on it (single, chains of three, derivatives
      used as dependencies themselves); the substituting handler recognises the target BY IDENTITY.  The same
      graphs run under recording pass-through handlers (all four methods) with the clause: the body of a dataset
      never runs without an EvaluateRequest for that dataset object (or a derivative of it) having reached the
      handlers.
(v)   directed probe families run with the sweep (oracle only: the model has neither typing objects nor classes):
      option_type_probes (every kind of declared type x every way of declaring it x every way the value arises) and
      dataset_class_probes (a dataset class -- an Evaluatable whose __call__ is instantiation, not evaluate -- as the
      child of every consumer of the public API: nesting of member requests, transparency, substitution by identity).
(iv)  nesting: the recording / substituting handlers installed outside, inside or between the library's
      own context managers labrea.cache.disabled() / labrea.logging.disabled() (a user handler replaced by
      a library context entered inside it serves nothing: not installed, for the model); every successful
      evaluation of an Option under E and T recorders must have its type check come by as a request.
"""
import collections
import contextlib
import importlib
import resource
import inspect
import logging as pylogging
import pkgutil
import random
import re
import sys

import coreprop as cp
import core
import gen
import lib
from core import lit
from gen import K

try:    # the model's histories are long strings: coqc's vm needs a deep stack to build them
    resource.setrlimit(resource.RLIMIT_STACK, (resource.RLIM_INFINITY, resource.getrlimit(resource.RLIMIT_STACK)[1]))
except Exception:
    pass

PID = "C18"
COQ_TARGETS = ["Model/RequestsRun.vo"]
REQ = cp.REQ + ["Model.Requests", "Model.RequestsRun"]

KINDS = ["E", "V", "K", "X", "ce", "cg", "cs", "L", "T"]
COQ_KIND = {"E": "KEval", "V": "KValidate", "K": "KKeys", "X": "KExplain", "ce": "KCacheExists",
            "cg": "KCacheGet", "cs": "KCacheSet", "L": "KLog", "T": "KType"}
METH_KIND = {"evaluate": "E", "validate": "V", "keys": "K", "explain": "X"}


CANON = getattr(core, "canon_names", lambda text: text)


def request_types():
    from labrea.types import EvaluateRequest, ValidateRequest, KeysRequest, ExplainRequest
    from labrea.cache import CacheExistsRequest, CacheGetRequest, CacheSetRequest
    from labrea.logging import LogRequest
    from labrea.type_validation import TypeValidationRequest
    return {"E": EvaluateRequest, "V": ValidateRequest, "K": KeysRequest, "X": ExplainRequest,
            "ce": CacheExistsRequest, "cg": CacheGetRequest, "cs": CacheSetRequest,
            "L": LogRequest, "T": TypeValidationRequest}


SUBJECT_ATTR = {"E": "evaluatable", "V": "validatable", "K": "cacheable", "X": "explainable"}

# A handler spec is (kinds recorded, substituted dataset or None, substituted value[, nesting]).
# nesting = where the user's handlers are installed relative to the library's own context managers
# labrea.cache.disabled() / labrea.logging.disabled() of the operation (when it uses them):
#   "inside"       library contexts entered first, handlers installed inside them (the default)
#   "outside"      handlers installed first, both library contexts entered inside
#   "cache-inside" logging.disabled(), then the handlers, then cache.disabled()
#   "log-inside"   cache.disabled(), then the handlers, then logging.disabled()
NESTS = ["inside", "outside", "cache-inside", "log-inside"]
CACHE_KINDS = ("ce", "cg", "cs")


def nest_of(h):
    return h[3] if len(h) > 3 else "inside"


def overridden(nest, cc, lc):
    """request kinds whose user handler is replaced by a library context manager entered INSIDE the user's
    handlers (the innermost handler of a request type is the one that serves it)"""
    out = set()
    if cc and nest in ("outside", "cache-inside"):
        out |= set(CACHE_KINDS)
    if lc and nest in ("outside", "log-inside"):
        out.add("L")
    return out

# ----------------------------------------------------------------------------- building, labelling


def node_key(e):
    if e[0] == "dataset":
        return ("ds", e[1])
    if e[0] == "alloptions":
        return ("alloptions",)
    return ("n", id(e))


def base_ds(env, dsid):
    while env[dsid].get("derived") is not None:
        dsid = env[dsid]["derived"]
    return dsid


class RBuilder(core.Builder):
    """core.Builder that remembers which live object was built for which scenario node, and gives
    every Option a type marker / every Logged a message of its own (type checks and log requests
    carry no reference to the node that issued them)."""

    def __init__(self, world, env):
        super().__init__(world, env)
        self.obj_key = {}      # id(obj) -> node key
        self.keep = []
        self.type_key = {}     # marker class -> node key
        self.msg_key = {}      # log message -> node key
        self.n = 0

    def build(self, e):
        k = e[0]
        L = self.L
        if k == "option":
            kw = {}
            if e[2] is not None:
                kw["default"] = self.build(e[2])
            if e[3] is not None:
                kw["domain"] = self.build(e[3])
            self.n += 1
            marker = type(f"Marker{self.n}", (), {})
            self.type_key[marker] = node_key(e)
            obj = L.Option(core.key_text(e[1]), type=marker, **kw)
        elif k == "logged":
            from labrea.logging import Logged
            self.n += 1
            msg = f"verif-node-{self.n}"
            self.msg_key[msg] = node_key(e)
            obj = Logged(self.build(e[1]), pylogging.INFO, "labrea.verif", msg)
        else:
            obj = super().build(e)
        self.obj_key[id(obj)] = node_key(e)
        self.keep.append(obj)
        return obj


def model_paths(scn):
    """position (tuple of ints, as Model/Requests.v numbers children) -> label, for the nodes of
    the scenario that are live labrea objects built by the harness (user-visible nodes); the
    Logged node inside a dataset is labelled by the dataset's log message"""
    env = scn["env"]
    out = {}
    logs = {}

    def walk(e, p):
        out[tuple(p)] = node_key(e)
        k = e[0]
        if k in ("value", "fnvalue", "alloptions"):
            return
        if k == "option":
            if e[2] is not None:
                walk(e[2], p + [0])
            if e[3] is not None:
                walk(e[3], p + [1])
        elif k == "apply":
            walk(e[1], p + [0])
            walk(e[2], p + [1])
        elif k in ("bind", "switch"):
            walk(e[1], p + [0])
            if e[3] is not None:
                walk(e[3], p + [1])
            for i, (_, x) in enumerate(e[2]):
                walk(x, p + [2 + i])
        elif k == "case":
            walk(e[1], p + [0])
            if e[3] is not None:
                walk(e[3], p + [1])
            for i, (c, r) in enumerate(e[2]):
                walk(c, p + [2 + 2 * i])
                walk(r, p + [3 + 2 * i])
        elif k in ("coalesce", "iter"):
            for i, x in enumerate(e[1]):
                walk(x, p + [i])
        elif k in ("list", "tuple"):
            for i, x in enumerate(e[1]):
                walk(x, p + [0, i])
        elif k == "dict":
            for i, (_, x) in enumerate(e[1]):
                walk(x, p + [0, i, 1])
        elif k == "map":
            walk(e[1], p + [0])
            for i, (_, x) in enumerate(e[2]):
                walk(x, p + [1 + i])
        elif k == "tolist":
            walk(e[1], p + [0])
        elif k == "with":
            walk(e[3], p + [0])
        elif k == "cached":
            walk(e[2], p + [0])
        elif k in ("call", "pstep"):
            for j, x in enumerate(e[2]):
                walk(x, p + [1 + j])
        elif k == "template":
            for i, (_, x) in enumerate(e[2]):
                walk(x, p + [i])
        elif k == "comp":
            walk(e[1], p + [0])
            for i, x in enumerate(e[2]):
                walk(x, p + [1 + i])
        elif k == "logged":
            logs[tuple(p)] = node_key(e)
            walk(e[1], p + [0])
        elif k == "pipe":
            n = len(e[1])
            for j, x in enumerate(e[1]):
                walk(x, p + [n - 1 - j])
        elif k == "dataset":
            dsid = e[1]
            d = env[dsid]
            derived = d.get("derived") is not None
            b = env[base_ds(env, dsid)]
            logs[tuple(p + [0, 0, 0])] = ("dslog", base_ds(env, dsid))
            q = p + [0, 0, 0, 0]
            eff_disabled = bool(b.get("effects_disabled")) and not derived
            if eff_disabled:
                c = q
            else:
                c = q + [0]
                for i, x in enumerate(b.get("effects", []) or []):
                    walk(x, q + [1 + i])
            s = c + [0]
            if b.get("callback") is not None:
                walk(b["callback"], c + [1, 0])
            if b.get("dispatch") is not None:
                walk(b["dispatch"], s + [0])
            if not b.get("abstract"):
                for j, x in enumerate(b.get("kwargs", [])):
                    walk(x, s + [1, 1 + j])
            for i, (_, x) in enumerate(reversed(b.get("overloads", []))):
                walk(x, s + [2 + i])
        else:
            raise TypeError(e)

    for i, e in enumerate(scn["exprs"]):
        walk(e, [i])
    return out, logs


class Recorder:
    """recording pass-through handlers; keeps the stack of requests being served (for the bypass
    monitor) and the list of requests seen"""

    def __init__(self, builder, world):
        self.b = builder
        self.w = world
        self.seen = []          # (kind, label or None)
        self.failed = []        # (kind, label) of requests whose handling raised
        self.answers = 0        # requests answered by the substituting handler
        self.open = []          # stack of (kind, subject)
        self.ds_msgs = None
        self.kinds = set()      # kinds with a recording handler installed and serving
        self.type_seen = {}     # option node -> TypeValidationRequests seen for it
        self.untyped = []       # option nodes whose EvaluateRequest completed without a type check reaching the handler
        self._opt = (0, set())

    def label(self, kind, req):
        b = self.b
        if kind in SUBJECT_ATTR:
            obj = getattr(req, SUBJECT_ATTR[kind])
            return b.obj_key.get(id(obj)), obj
        if kind == "T":
            return b.type_key.get(req.type), None
        if kind == "L":
            if self.ds_msgs is None:     # Dataset._composed: msg=f"Labrea: Evaluating {self!r}"
                self.ds_msgs = {}
                for dsid, obj in b.ds.items():
                    try:
                        self.ds_msgs[f"Labrea: Evaluating {obj!r}"] = ("dslog", base_ds(b.env, dsid))
                    except Exception:
                        pass
            if req.msg in self.ds_msgs:
                return self.ds_msgs[req.msg], None
            return b.msg_key.get(req.msg), None
        from labrea.cache import NoCache
        for cid, c in self.w.caches.items():
            if c is req.cache:
                return ("cache", cid), req.cache
        if isinstance(req.cache, NoCache):
            return ("cache", "-"), req.cache
        return None, req.cache

    def option_labels(self):
        """the scenario nodes that are Options (built with a type marker of their own)"""
        tk = self.b.type_key
        if self._opt[0] != len(tk):
            self._opt = (len(tk), set(tk.values()))
        return self._opt[1]

    def handler(self, kind, inner):
        def h(req):
            lab, subj = self.label(kind, req)
            self.seen.append((kind, lab))
            self.open.append((kind, subj))
            mark = None
            if kind == "T":
                self.type_seen[lab] = self.type_seen.get(lab, 0) + 1
            elif kind == "E" and "T" in self.kinds and lab is not None and lab in self.option_labels():
                mark = self.type_seen.get(lab, 0)
            try:
                r = inner(req)
            except BaseException:
                self.failed.append((kind, lab))
                raise
            else:
                # the option's evaluation succeeded: its type check must have come by as a request
                if mark is not None and self.type_seen.get(lab, 0) == mark:
                    self.untyped.append(lab)
                return r
            finally:
                self.open.pop()
        return h


class _LogCapture(pylogging.Handler):
    def __init__(self, sink):
        super().__init__(level=pylogging.DEBUG)
        self.sink = sink

    def emit(self, record):
        self.sink()


class Monitor:
    """bypass monitor (model independent): while recording handlers for ALL request types are
    installed, every call of an implementation method evaluate/validate/keys/explain defined in a
    labrea class body must be the default action of a request of that kind for that very object
    which the handlers have seen and are still serving; every Cache.get/set/exists call must run
    while a cache request for that cache object is being served; every emitted log record while a
    LogRequest is being served."""

    def __init__(self, rec, kinds=None):
        self.rec = rec
        self.bypasses = []
        self.kinds = set(KINDS if kinds is None else kinds)    # kinds with a recording handler installed
        from labrea.cache import Cache
        from labrea.types import Cacheable, Evaluatable, Explainable, Validatable
        self.Cache = Cache
        self.bases = (Evaluatable, Validatable, Cacheable, Explainable)

    def profile(self, frame, event, arg):
        if event != "call":
            return
        code = frame.f_code
        name = code.co_name
        if name in METH_KIND:
            mod = frame.f_globals.get("__name__", "")
            if not mod.startswith("labrea"):
                return
            if "<locals>" in code.co_qualname:
                return          # the request-issuing wrappers made by __init_subclass__
            self_ = frame.f_locals.get("self")
            if self_ is None or not isinstance(self_, self.bases):
                return
            kind = METH_KIND[name]
            if kind not in self.kinds:
                return
            top = None
            for k, subj in reversed(self.rec.open):
                if k == kind:
                    top = subj
                    break
            if top is not self_:
                self.bypasses.append(f"{type(self_).__name__}.{name} ran outside a {kind}-request for that object")
        elif name in ("get", "set", "exists"):
            self_ = frame.f_locals.get("self")
            if self_ is None or not isinstance(self_, self.Cache):
                return
            if not {"ce", "cg", "cs"} <= self.kinds:
                return
            if not any(k in ("ce", "cg", "cs") and subj is self_ for k, subj in self.rec.open):
                self.bypasses.append(f"{type(self_).__name__}.{name} ran outside a cache request for that cache")

    def log_emitted(self):
        if "L" not in self.kinds:
            return
        if not any(k == "L" for k, _ in self.rec.open):
            self.bypasses.append("a log record was emitted outside a LogRequest")


def run_impl_rq(scn, hspecs, monitor=False, raw_out=None, info=None):
    """run the scenario's operations on one long-lived graph; hspecs[i] = (kinds to record,
    substituted dataset id or None, substituted scenario value) for operation i.
    Returns (lines 'res|core events', seen lists [(kind, label)], bypass lists)"""
    import labrea.cache
    import labrea.logging
    from labrea import runtime
    RT = request_types()
    w = core.World(scn["ftable"])
    b = RBuilder(w, scn["env"])
    objs = [b.build(e) for e in scn["exprs"]]
    lines, seens, bypasses = [], [], []
    extra = [] if info is None else info
    root = pylogging.getLogger()
    old_level = root.level
    root.setLevel(pylogging.DEBUG)
    try:
        for (m, i, cc, lc, o), hspec in zip(scn["ops"], hspecs):
            kinds, sub_ds, sub_val = hspec[:3]
            nest = nest_of(hspec)
            gone = overridden(nest, cc, lc)
            po = core.py_json(o)
            w.calls.clear()
            rec = Recorder(b, w)
            rec.kinds = {k for k in kinds if k not in gone}
            mon = Monitor(rec, [k for k in kinds if k not in gone]) if monitor else None
            cap = _LogCapture((lambda: (w.calls.append("emit"), mon.log_emitted() if mon else None)))
            root.addHandler(cap)
            try:
                with contextlib.ExitStack() as st:
                    cache_first = cc and nest in ("inside", "log-inside")
                    log_first = lc and nest in ("inside", "cache-inside")
                    if cache_first:
                        st.enter_context(labrea.cache.disabled())
                    if log_first:
                        st.enter_context(labrea.logging.disabled())
                    cur = runtime.current_runtime().handlers
                    table = {}
                    for k in kinds:
                        T = RT[k]
                        inner = cur.get(T, runtime._DEFAULT_HANDLERS[T])
                        table[T] = rec.handler(k, inner)
                    if sub_ds is not None:
                        target = b.dataset(sub_ds)
                        pv = core.py_value(sub_val)
                        T = RT["E"]
                        inner = table.get(T) or cur.get(T, runtime._DEFAULT_HANDLERS[T])

                        def subst(req, _inner=inner, _target=target, _pv=pv, _rec=rec, _rk=("E" in kinds)):
                            if req.evaluatable is _target:
                                # the substituting handler records nothing and calls no default
                                _rec.answers += 1
                                return _pv
                            return _inner(req)
                        table[T] = subst
                    if table:
                        st.enter_context(runtime.handle(table))
                    # library context managers entered INSIDE the user's handlers
                    if cc and not cache_first:
                        st.enter_context(labrea.cache.disabled())
                    if lc and not log_first:
                        st.enter_context(labrea.logging.disabled())
                    obj = objs[i]
                    raw = None
                    if mon:
                        sys.setprofile(mon.profile)
                    try:
                        try:
                            if m == "evaluate":
                                raw = core.force(obj.evaluate(po))
                                r = "ok:" + core.show(raw)
                            elif m == "validate":
                                obj.validate(po)
                                r = "ok:()"
                            elif m == "keys":
                                r = "ok:" + core.show_keys(obj.keys(po))
                            else:
                                r = "ok:" + core.show_keys(obj.explain(po))
                        finally:
                            if mon:
                                sys.setprofile(None)
                    except RecursionError:
                        r = "err:fuel:F"
                    except Exception as exc:  # noqa
                        c, ee = core.classify(exc)
                        r = f"err:{c}:{'T' if ee else 'F'}"
            finally:
                root.removeHandler(cap)
            lines.append(CANON(r + "|" + " ".join(w.calls)))
            seens.append(list(rec.seen))
            bypasses.append(list(mon.bypasses) if mon else [])
            extra.append(dict(failed=list(rec.failed), answers=rec.answers, untyped=list(rec.untyped)))
            if raw_out is not None:
                raw_out.append(raw)
    finally:
        root.setLevel(old_level)
    return lines, seens, bypasses


# ----------------------------------------------------------------------------- the model side

def coq_hspec(kinds, sel_paths, val):
    ks = "[" + "; ".join(COQ_KIND[k] for k in kinds) + "]"
    ps = coq_paths(sel_paths)
    v = "None" if val is None else f"(Some {core.coq_value(val)})"
    return "{| hs_pass := %s; hs_sel := %s; hs_val := %s |}" % (ks, ps, v)


def coq_paths(ps):
    return "[" + "; ".join("[" + "; ".join(f"{i}%nat" for i in p) + "]" for p in ps) + "]"


def coq_scenario_rq(scn, hspecs, table="lv_rt", all_nodes=False):
    pr = core.CoqPrinter(scn["env"])
    pmap, logs = model_paths(scn)
    vis = "None" if all_nodes else f"(Some {coq_paths(sorted(set(pmap) | set(logs)))})"
    es = "[" + "; ".join(pr.expr(e) for e in scn["exprs"]) + "]"
    ops = []
    for (m, i, cc, lc, o), hspec in zip(scn["ops"], hspecs):
        kinds, sub_ds, sub_val = hspec[:3]
        # a user handler replaced by a library context entered inside it serves nothing: not installed, for the model
        gone = overridden(nest_of(hspec), cc, lc)
        kinds = [k for k in kinds if k not in gone]
        op = "{| op_meth := %s; op_expr := %d%%nat; op_cfg := {| cache_ctx_off := %s; log_ctx_off := %s |}; op_opts := %s |}" % (
            core.METH[m], i, "true" if cc else "false", "true" if lc else "false", core.coq_dict(o))
        sel = sorted(p for p, lab in pmap.items() if sub_ds is not None and lab == ("ds", sub_ds))
        ops.append(f"({op}, {coq_hspec(kinds, sel, sub_val if sub_ds is not None else None)})")
    return f"run_scenario_rq {core.coq_ftable(scn['ftable'])} {table} {vis} {es} [" + "; ".join(ops) + "]"


TOK = re.compile(r"^([A-Za-z]+):([0-9.]*)(?:#(.*))?$")


def parse_model_line(line):
    """'res|core|#issued|seen' -> (res|core, number of requests issued, seen tokens)"""
    parts = line.split("|")
    res, corev, iss, seen = parts[0], parts[1], parts[2], parts[3]
    return res + "|" + corev, int(iss), (seen.split(" ") if seen else [])


def visible(tokens, pmap, logs):
    """model request tokens -> [(kind, label)] restricted to user-visible nodes"""
    out = []
    for t in tokens:
        m = TOK.match(t)
        kind, ptxt, cid = m.group(1), m.group(2), m.group(3)
        p = tuple(int(x) for x in ptxt.split(".")) if ptxt else ()
        if kind in ("ce", "cg", "cs"):
            out.append((kind, ("cache", "-" if cid == "-" else int(cid))))
        elif kind == "L":
            if p in logs:
                out.append((kind, logs[p]))
        else:
            if p in pmap:
                out.append((kind, pmap[p]))
    return out


def canon(seq):
    """labels -> small integers in order of first appearance (object ids are not comparable
    across runs)"""
    names = {}
    out = []
    for kind, lab in seq:
        if lab not in names:
            names[lab] = len(names)
        out.append(f"{kind}:{names[lab]}")
    return out


# ----------------------------------------------------------------------------- (i) reflection sweep

METHODS = ["evaluate", "validate", "keys", "explain"]
# labrea class -> constructor of Model/Requests.v it is (part of); None: outside the modelled
# expression language (its row must be wrapped all the same)
CTOR = {"Value": "CtValue", "Option": "CtOption", "Apply": "CtApply", "Bind": "CtBind", "Switch": "CtSwitch",
        "Overloaded": "CtSwitch", "_DependsOn": "CtSwitch", "CaseWhen": "CtCase", "Coalesce": "CtCoalesce",
        "Iter": "CtIter", "Map": "CtMap", "WithOptions": "CtWith", "Cached": "CtCached",
        "FunctionApplication": "CtCall", "PartialApplication": "CtPartial", "PipelineStep": "CtPartial",
        "Template": "CtTemplate", "Computation": "CtComp", "ChainedEffect": "CtComp", "CallbackEffect": "CtComp",
        "Logged": "CtLogged", "Pipeline": "CtPipe", "_AllOptions": "CtAllOptions"}
ALL_CTORS = ["CtValue", "CtOption", "CtApply", "CtBind", "CtSwitch", "CtCase", "CtCoalesce", "CtIter", "CtMap", "CtWith",
             "CtCached", "CtCall", "CtPartial", "CtTemplate", "CtComp", "CtLogged", "CtPipe", "CtAllOptions"]


def enumerate_classes():
    """every concrete class defined in the labrea package that subclasses one of the four ABCs"""
    import labrea
    from labrea.types import Cacheable, Evaluatable, Explainable, Validatable
    abcs = (Validatable, Cacheable, Explainable, Evaluatable)
    mods = [labrea]
    for m in pkgutil.walk_packages(labrea.__path__, "labrea."):
        mods.append(importlib.import_module(m.name))
    found = {}
    for mod in mods:
        for obj in list(vars(mod).values()):
            if inspect.isclass(obj) and obj.__module__.startswith("labrea") and issubclass(obj, abcs) \
                    and obj not in abcs and not inspect.isabstract(obj):
                found[obj] = None
    return sorted(found, key=lambda c: (c.__module__, c.__name__))


class BrokenRepresentative:
    def __init__(self, why):
        self.why = why


def representatives():
    """class name -> (instance, options) on which all applicable methods can be called"""
    from labrea import Option, dataset, datasetclass
    from labrea.application import FunctionApplication, PartialApplication
    from labrea.arguments import EvaluatableArgs, EvaluatableArguments, EvaluatableKwargs
    from labrea.cache import Cached, MemoryCache
    from labrea.coalesce import Coalesce
    from labrea.computation import CallbackEffect, ChainedEffect, Computation
    from labrea.conditional import CaseWhen, Switch, _DependsOn
    from labrea.iterable import Iter, Map
    from labrea.logging import LogEffect, Logged
    from labrea.option import Namespace, WithOptions, AllOptions
    from labrea.overload import Overloaded
    from labrea.pipeline import Pipeline, PipelineStep
    from labrea.template import Template
    from labrea.types import Apply, Bind, Value

    def ident(x):
        return x

    def body(a=Option("A")):
        return a
    body.__name__ = body.__qualname__ = "probe_ds"
    ds = dataset(body)

    @datasetclass
    class ProbeDC:
        a: int = Option("A")

    o = {"A": 1, "B": 2}
    makers = {
        "Value": lambda: Value(1), "Option": lambda: Option("A"), "Apply": lambda: Apply(Option("A"), Value(ident)),
        "Bind": lambda: Bind(Option("A"), lambda a: Value(a)),
        "Switch": lambda: Switch(Option("A"), {1: Value("x")}, Value("y")),
        "_DependsOn": lambda: _DependsOn(Value(1), Option("A")),
        "CaseWhen": lambda: CaseWhen(Option("A"), [(Value(bool), Value(2))], Value(3)),
        "Coalesce": lambda: Coalesce(Option("Z"), Option("A")), "Iter": lambda: Iter(Option("A"), Value(2)),
        "Map": lambda: Map(Option("A"), {"A": Value([1, 2])}), "WithOptions": lambda: WithOptions(Option("A"), {"A": 5}),
        "_AllOptions": lambda: AllOptions, "Namespace": lambda: Namespace("NS", {"A": Option("NS.A", 1)}),
        "Template": lambda: Template("x{A}"), "Overloaded": lambda: Overloaded(Option("A"), {1: Value("x")}, Value("y")),
        "Cached": lambda: Cached(Option("A"), MemoryCache()), "FunctionApplication": lambda: FunctionApplication(ident, Option("A")),
        "PartialApplication": lambda: PartialApplication(ident, Option("A")),
        "EvaluatableArgs": lambda: EvaluatableArgs(Option("A")), "EvaluatableKwargs": lambda: EvaluatableKwargs(a=Option("A")),
        "EvaluatableArguments": lambda: EvaluatableArguments(Option("A"), b=Option("B")),
        "Computation": lambda: Computation(Option("A"), ChainedEffect()),
        "ChainedEffect": lambda: ChainedEffect(CallbackEffect(Value(ident))),
        "CallbackEffect": lambda: CallbackEffect(Value(ident)),
        "LogEffect": lambda: LogEffect(pylogging.INFO, "labrea.verif", "probe"),
        "Logged": lambda: Logged(Option("A"), pylogging.INFO, "labrea.verif", "probe"),
        "PipelineStep": lambda: PipelineStep(Value(ident)), "Pipeline": lambda: Pipeline(PipelineStep(Value(ident))),
        "Dataset": lambda: ds, "_DatasetClassMeta": lambda: ProbeDC,
    }
    reps = {}
    for name, mk in makers.items():
        try:
            reps[name] = mk()
        except Exception as e:  # noqa  (fail closed: reported per class by the sweep)
            reps[name] = BrokenRepresentative(repr(e))
    return reps, o


def probe(inst, method, options):
    """does calling inst.<method>(options) hand a request of the method's type, for this very
    object, to a handler installed in the current runtime, whose default then runs the class's
    own implementation without any other call of it escaping the request?"""
    from labrea import runtime
    RT = request_types()
    kind = METH_KIND[method]
    T = RT[kind]
    got = []
    default = runtime._DEFAULT_HANDLERS[T]
    rec_open = []

    def h(req):
        subj = getattr(req, SUBJECT_ATTR[kind])
        got.append(subj)
        rec_open.append((kind, subj))
        try:
            return default(req)
        finally:
            rec_open.pop()

    class _R:       # minimal recorder interface for the monitor
        open = rec_open
    mon = Monitor(_R)
    mon.kinds = {kind}
    with runtime.handle(T, h):
        sys.setprofile(mon.profile)
        try:
            try:
                r = getattr(inst, method)(options)
                if method == "evaluate":
                    core.force(r) if not inspect.isclass(inst) else None
            finally:
                sys.setprofile(None)
        except Exception:
            pass
    seen = any(s is inst for s in got)
    return seen, [b for b in mon.bypasses]


def side_probe(name, inst, options):
    """side operations of Cached / Logged / Option / Dataset are issued as requests"""
    from labrea import runtime
    RT = request_types()
    need = {"Cached": ["ce", "cs", "cg"], "Logged": ["L"], "Option": ["T"], "Dataset": ["ce", "cs", "cg", "L"],
            "LogEffect": ["L"]}.get(name)
    if not need:
        return True, ""
    got = {k: 0 for k in need}
    table = {}
    for k in need:
        T = RT[k]
        d = runtime._DEFAULT_HANDLERS[T]

        def h(req, _k=k, _d=d):
            got[_k] += 1
            return _d(req)
        table[T] = h
    with runtime.handle(table):
        try:
            if name == "LogEffect":
                inst.transform(None, options)
            else:
                inst.evaluate(options)
                inst.evaluate(options)      # second evaluation: the cache get
        except Exception as e:  # noqa
            return False, f"representative raised {type(e).__name__}"
    missing = [k for k in need if got[k] == 0]
    return (not missing), ("no request of kind(s) " + ",".join(missing) if missing else "")


def odd_handler_probes():
    """a handler is whatever callable is installed: one whose truth value is False, one installed
    through a Runtime object entered as a context, and one installed for a mapping of types"""
    from labrea import runtime
    from labrea.types import EvaluateRequest, KeysRequest, Value
    out = []
    default = runtime._DEFAULT_HANDLERS[EvaluateRequest]

    class Falsy:
        def __init__(self):
            self.n = 0

        def __call__(self, req):
            self.n += 1
            return default(req)

        def __bool__(self):
            return False

        def __len__(self):
            return 0
    f = Falsy()
    with runtime.handle(EvaluateRequest, f):
        Value(1).evaluate({})
    if f.n != 1:
        out.append(dict(kind="sweep", desc="an installed pass-through handler whose truth value is False does not receive the request",
                        cls="labrea.runtime.Runtime", method="run", finding=None))
    g = Falsy()
    kdefault = runtime._DEFAULT_HANDLERS[KeysRequest]
    seen = []
    with runtime.Runtime({EvaluateRequest: g}):
        with runtime.handle({KeysRequest: lambda req: (seen.append(req), kdefault(req))[1]}):
            Value(1).evaluate({})
            Value(1).keys({})
    if g.n != 1 or len(seen) != 1:
        out.append(dict(kind="sweep", desc="handlers installed by nested runtimes (a Runtime object, then handle(mapping)) do not all receive their requests",
                        cls="labrea.runtime.Runtime", method="handle", finding=None))
    # "the current runtime": a runtime entered twice (nested) serves inside, and not after it is left
    # (in a thread of its own: a broken scoping would leave the thread's runtime slot corrupted)
    import threading
    res = {}

    def reentry():
        try:
            r = Falsy()
            rt = runtime.handle(EvaluateRequest, r)
            with rt:
                with rt:
                    pass
                Value(1).evaluate({})
            inside = r.n
            Value(1).evaluate({})
            res["inside"], res["after"] = inside, r.n - inside
        except Exception as e:  # noqa
            res["error"] = repr(e)
    th = threading.Thread(target=reentry)
    th.start()
    th.join()
    if res.get("inside") != 1 or res.get("after") != 0:
        out.append(dict(kind="sweep", desc="a runtime entered twice does not serve exactly the requests issued while it is the current runtime: " + repr(res),
                        cls="labrea.runtime.Runtime", method="__enter__", finding=None))
    return out


def declared_types():
    """what a user may declare as the type of an option: a class of his own, builtin classes, typing constructs
    (generic aliases, unions, Optional, Literal, Callable, Any, a TypeVar, a NewType), PEP 585 / PEP 604 forms,
    a string annotation.  Each entry: (name, maker)"""
    import typing as T
    out = [("a class", lambda: type("ProbeType", (), {})), ("int", lambda: int), ("typing.Any", lambda: T.Any),
           ("typing.List[int]", lambda: T.List[int]), ("typing.Optional[int]", lambda: T.Optional[int]),
           ("typing.Union[int, str]", lambda: T.Union[int, str]), ("typing.Dict[str, int]", lambda: T.Dict[str, int]),
           ("typing.Tuple[int, ...]", lambda: T.Tuple[int, ...]), ("typing.Sequence[str]", lambda: T.Sequence[str]),
           ("typing.Literal", lambda: T.Literal["a", 1]), ("typing.Callable", lambda: T.Callable[[int], int]),
           ("a TypeVar", lambda: T.TypeVar("ProbeVar")), ("a NewType", lambda: T.NewType("ProbeNew", int)),
           ("list[int]", lambda: list[int]), ("None", lambda: None), ("a string annotation", lambda: "ProbeForward")]
    try:
        out.append(("int | None", lambda: eval("int | None")))
        eval("int | None")
    except TypeError:
        out.pop()
    return out


def option_type_probes():
    """the type check of an Option is a request whichever way its value arises (supplied, templated,
    constant / templated / evaluatable / factory default), WHATEVER KIND OF OBJECT the declared type is
    (declared_types) and however it was declared (type= keyword, Option[T] subscript, an annotated member of an
    option namespace, Option.auto(type=) / Option(KEY, type=) inside a namespace, nested and inherited namespaces),
    the option evaluated alone, as a dependency of a dataset, and as a member of an evaluated namespace"""
    from labrea import Option, dataset, runtime
    from labrea.type_validation import TypeValidationRequest
    default = runtime._DEFAULT_HANDLERS[TypeValidationRequest]
    NODEF = object()
    ways = {
        "value supplied in the dictionary": dict(supplied=1, want=1),
        "templated string supplied in the dictionary": dict(supplied="x{A}", want="x1"),
        "constant default": dict(default=3, want=3),
        "falsy constant default": dict(default=0, want=0),
        "None default": dict(default=None, want=None),
        "templated string default": dict(default="x{A}", want="x1"),
        "evaluatable default": dict(default=lambda: Option("A"), want=1),
        "default_factory": dict(factory=lambda: 4, want=4),
    }

    def args_of(way):
        kw = {}
        d = way.get("default", NODEF)
        if d is not NODEF:
            kw["default"] = d() if callable(d) else d
        if "factory" in way:
            kw["default_factory"] = way["factory"]
        return kw

    def ns(name, body, annotations=None):
        body = dict(body)
        if annotations:
            body["__annotations__"] = dict(annotations)
        return type(name, (), body)

    # form -> (maker(T, way) -> (subject option, the namespace or None, key path), usable with defaults?)
    def f_kw(T, way):
        return Option("Z", type=T, **args_of(way)), None, ("Z",)

    def f_sub(T, way):
        return Option[T]("Z", **args_of(way)), None, ("Z",)

    def f_annot(T, way):
        n = Option.namespace(ns("NS", {}, {"Z": T}))
        return n.Z, n, ("NS", "Z")

    def f_auto(T, way):
        kw = args_of(way)
        n = Option.namespace(ns("NS", {"Z": Option.auto(type=T, **kw)}))
        return n.Z, n, ("NS", "Z")

    def f_inner(T, way):
        n = Option.namespace(ns("NS", {"Z": Option("Z", type=T, **args_of(way))}))
        return n.Z, n, ("NS", "Z")

    def f_nested(T, way):
        n = Option.namespace(ns("NS", {"SUB": ns("SUB", {}, {"Z": T})}))
        return n.SUB.Z, n, ("NS", "SUB", "Z")

    def f_inherit(T, way):
        sub = Option.namespace(ns("SUB", {"Z": Option("Z", type=T, **args_of(way))}))
        n = Option.namespace(ns("NS", {"SUB": sub}))
        return n.SUB.Z, n, ("NS", "SUB", "Z")
    forms = {"type= keyword": (f_kw, "all"), "Option[T] subscript": (f_sub, "all"),
             "annotated member of an option namespace": (f_annot, "supplied"),
             "Option.auto(type=) in a namespace": (f_auto, "nofactory"), "Option(KEY, type=) in a namespace": (f_inner, "all"),
             "annotated member of a nested namespace": (f_nested, "supplied"),
             "Option(KEY, type=) in an inherited namespace": (f_inherit, "all")}
    out = []
    for tname, mkT in declared_types():
        for form, (mk, usable) in forms.items():
            for name, way in ways.items():
                if usable == "supplied" and "supplied" not in way:
                    continue
                if usable == "nofactory" and "factory" in way:
                    continue
                for place in ("direct", "nested", "namespace"):
                    seen = []

                    def h(req, _seen=seen):
                        _seen.append((req.value, req.type))
                        return default(req)
                    try:
                        T = mkT()
                        opt, space, path = mk(T, way)
                        if place == "namespace" and space is None:
                            continue
                        o = {"A": 1}
                        if "supplied" in way:
                            cur = o
                            for part in path[:-1]:
                                cur = cur.setdefault(part, {})
                            cur[path[-1]] = way["supplied"]
                        want = way["want"]
                        if place == "nested":
                            def body(x=opt):
                                return x
                            body.__name__ = body.__qualname__ = "probe_typed"
                            subject = dataset(body)
                        elif place == "namespace":
                            subject = space
                        else:
                            subject = opt
                        with runtime.handle(TypeValidationRequest, h):
                            got = subject.evaluate(o)
                        if place == "namespace":
                            for part in path[1:]:
                                got = got[part]
                        mine = [1 for v, t in seen if (t is T or (not inspect.isclass(T) and type(t) is type(T) and t == T)) and v == want]
                        # Any is also the type of an undeclared option (the inner option of an evaluatable default)
                        need = 2 if (T is __import__("typing").Any and name == "evaluatable default") else 1
                        ok = got == want and len(mine) >= need
                        why = (f"evaluation returned {got!r}; the TypeValidationRequest handler saw {len(seen)} request(s), "
                               f"{len(mine)} for this option's declared type and value (expected {need})") if not ok else ""
                    except Exception as e:  # noqa
                        ok, why = False, f"probe raised {type(e).__name__}: {e}"
                    if not ok:
                        where = {"direct": "", "nested": ", as a dependency of a dataset", "namespace": ", as a member of an evaluated namespace"}[place]
                        out.append(dict(kind="sweep", desc=f"the type check of an Option declared with {tname} ({form}; {name}{where}) is not issued as a "
                                                           f"TypeValidationRequest seen by an installed pass-through handler: {why}",
                                        cls="labrea.option.Option", method=f"type-check/{tname}/{form}/{name}/{place}", finding=None))
    return out


# A dataset class (made by @datasetclass, or a bare subclass of one) is an Evaluatable whose __call__ is NOT evaluate():
# calling it instantiates the class (type.__call__), bypassing the runtime.  Every consumer of a child expression must
# therefore go through child.evaluate / .validate / .keys / .explain.  DC_CONTEXTS: every place of the public API that
# takes a child expression.
def _dc_contexts():
    import labrea
    from labrea import Coalesce, Map, Option, Switch, Template, Value, WithOptions, cached, case, dataset, datasetclass, interface, switch
    from labrea.application import FunctionApplication, PartialApplication
    from labrea.iterable import Iter
    from labrea.logging import Logged
    from labrea.pipeline import pipeline_step

    def ident(x):
        return x
    C = collections.OrderedDict()

    def ctx(name):
        def deco(f):
            C[name] = f
            return f
        return deco

    @ctx("evaluated directly")
    def _(c):
        return c

    @ctx("switch branch")
    def _(c):
        return switch(Option("KIND"), {"s": c, "n": None})

    @ctx("switch default")
    def _(c):
        return switch(Option("NOPE", "zz"), {"n": None}, c)

    @ctx("switch dispatch")
    def _(c):
        return Switch(c >> (lambda v: "k"), {"k": Value(1)}, Value(2))

    @ctx("registered overload of a dataset")
    def _(c):
        def config():
            return None
        d = dataset.nocache(config, dispatch="KIND")
        d.register("s", c)
        return d

    @ctx("overload of a cached dataset, reached through a dependent dataset")
    def _(c):
        def config():
            return None
        d = dataset(config, dispatch="KIND")
        d.register("s", c)

        def report(cfg=d):
            return cfg
        return dataset.nocache(report)

    @ctx("default implementation: dispatch of a dataset evaluates to an unregistered alias")
    def _(c):
        def config(x=c):
            return x
        d = dataset.nocache(config, dispatch=Option("NOPE", "zz"))
        d.register("n", Value(None))
        return d

    @ctx("interface implementation")
    def _(c):
        I = interface("KIND")(type("I", (), {"__annotations__": {"cfg": object}}))
        I.implementation("s")(type("Impl", (), {"cfg": c}))
        return I.cfg

    @ctx("argument of a dataset")
    def _(c):
        def rep(x=c):
            return x
        return dataset.nocache(rep)

    @ctx("argument of a cached dataset")
    def _(c):
        def rep(x=c):
            return x
        return dataset(rep)

    @ctx("source of >>")
    def _(c):
        return c >> ident

    @ctx("source of .apply()")
    def _(c):
        return c.apply(ident)

    @ctx("source of .bind()")
    def _(c):
        return c.bind(lambda v: Value(v))

    @ctx("source of a pipeline step")
    def _(c):
        return c >> pipeline_step(lambda v, k=Option("KIND"): v)

    @ctx("coalesce member")
    def _(c):
        return Coalesce(c, Value(0))

    @ctx("coalesce later member")
    def _(c):
        return Coalesce(Option("NOPE"), c)

    @ctx("option default")
    def _(c):
        return Option("NOPE", c)

    @ctx("case-when result")
    def _(c):
        return case(Option("KIND")).when(lambda k: k == "s", c).otherwise(Value(0))

    @ctx("case-when default")
    def _(c):
        return case(Option("KIND")).when(lambda k: k == "n", Value(0)).otherwise(c)

    @ctx("Iter member")
    def _(c):
        return Iter(c, Value(1))

    @ctx("mapped expression")
    def _(c):
        return Map(c, {"Z": Value([1, 2])})

    @ctx("inside WithOptions")
    def _(c):
        return WithOptions(c, {"UNRELATED": "w"})

    @ctx("inside cached()")
    def _(c):
        return cached(c)

    @ctx("inside Logged")
    def _(c):
        return Logged(c, pylogging.DEBUG, "labrea.verif", "probe")

    @ctx("argument of a function application")
    def _(c):
        return FunctionApplication(ident, c)

    @ctx("argument of a partial application")
    def _(c):
        return PartialApplication(lambda a, b: (a, b), c) >> (lambda f: f(1))

    @ctx("template parameter")
    def _(c):
        return Template("x{:p:}", p=c >> (lambda v: "q"))

    @ctx("member of another dataset class")
    def _(c):
        return datasetclass(type("Outer", (), {"__annotations__": {"inner": object}, "inner": c}))
    return C


def _dc_variants():
    """name -> maker() -> (the dataset class, its exclusive member objects)"""
    from labrea import Option, dataset, datasetclass

    def plain():
        rate, name = Option("RATE"), Option("NAME", "std")
        k = datasetclass(type("Settings", (), {"__annotations__": {"rate": float, "name": str}, "rate": rate, "name": name}))
        return k, [rate, name]

    def with_dataset_member():
        rate = Option("RATE")

        def twice(r=rate):
            return 2 * r
        ds = dataset.nocache(twice)
        k = datasetclass(type("Settings", (), {"__annotations__": {"double": float}, "double": ds, "label": "x"}))
        return k, [ds, rate]

    def bare_subclass():
        rate, name = Option("RATE"), Option("NAME", "std")
        base = datasetclass(type("Base", (), {"__annotations__": {"rate": float}, "rate": rate}))
        k = type(base)("Settings", (base,), {"__annotations__": {"name": str}, "name": name})
        return k, [rate, name]
    return collections.OrderedDict([("@datasetclass", plain), ("@datasetclass with a dataset member", with_dataset_member),
                                    ("bare subclass of a dataset class", bare_subclass)])


def _dc_render(v, depth=0):
    from labrea.types import Evaluatable
    if hasattr(v, "_repr_options") and not inspect.isclass(v):
        names = sorted(n for n in dir(type(v)) if not n.startswith("_") and n not in ("result",))
        return ("instance", type(v).__name__, [(n, _dc_render(getattr(v, n, None), depth + 1)) for n in names
                                                if not callable(getattr(v, n, None)) or isinstance(getattr(v, n, None), Evaluatable)])
    if isinstance(v, Evaluatable):
        return "<unevaluated expression>"
    if isinstance(v, (list, tuple)):
        return [_dc_render(x, depth + 1) for x in v]
    if isinstance(v, dict):
        return sorted((repr(k), _dc_render(x, depth + 1)) for k, x in v.items())
    if hasattr(v, "__next__"):
        return [_dc_render(x, depth + 1) for x in v]
    return repr(v)


def _dc_ask(obj, method, options):
    try:
        r = getattr(obj, method)(dict(options))
        if method == "evaluate":
            return ("ok", _dc_render(r))
        if method == "validate":
            return ("ok", None)
        return ("ok", sorted(r))
    except RecursionError:
        return ("err", "RecursionError")
    except Exception as e:  # noqa
        return ("err", type(e).__name__)


DC_OPTIONS = [("sufficient", {"KIND": "s", "RATE": 0.5}), ("a member's option is missing", {"KIND": "s", "NAME": "n"})]


def dataset_class_probes(only=None):
    """dataset classes as children of every consumer (DC_CONTEXTS) x variants of dataset class x dictionaries x the four
    methods, cold and warm, under recording pass-through handlers for the four core request types:
      (nesting)      a request for a member that belongs to the dataset class alone is only ever issued while a request
                     for the dataset class itself is being served (the class is asked through the runtime, never called);
      (transparency) the outcome is that of the plain run;
      (substitution) evaluate with a handler answering a constant for the dataset class BY IDENTITY gives what the same
                     context built around labrea.Value(constant) gives."""
    from labrea import runtime
    from labrea.types import Value
    RT = request_types()
    out = []
    SUB = ("substituted",)
    for cname, mk in _dc_contexts().items():
        for vname, mkv in _dc_variants().items():
            for oname, o in DC_OPTIONS:
                for method in METHODS:
                    for warm in (False, True):
                        tag = f"dataset-class/{cname}/{vname}/{oname}/{method}/{'warm' if warm else 'cold'}"
                        if only is not None and tag != only and not only.startswith(tag + "/"):
                            continue
                        why, finding = [], None
                        try:
                            k, members = mkv()
                            g = mk(k)
                            kp, _ = mkv()
                            gp = mk(kp)
                            if warm:
                                _dc_ask(g, "evaluate", o)
                                _dc_ask(gp, "evaluate", o)
                            plain = _dc_ask(gp, method, o)
                            open_, lost, seen_k = [], [], [0]
                            table = {}
                            for kind in ("E", "V", "K", "X"):
                                d = runtime._DEFAULT_HANDLERS[RT[kind]]

                                def h(req, _kind=kind, _d=d):
                                    subj = getattr(req, SUBJECT_ATTR[_kind])
                                    if subj is k:
                                        seen_k[0] += 1
                                    elif any(subj is m for m in members) and not any(s is k for s in open_):
                                        lost.append(f"{_kind}-request for member {subj!r}")
                                    open_.append(subj)
                                    try:
                                        return _d(req)
                                    finally:
                                        open_.pop()
                                table[RT[kind]] = h
                            with runtime.handle(table):
                                handled = _dc_ask(g, method, o)
                            if lost:
                                why.append(f"{method}(): {lost[0]} of the dataset class was issued while no request for the dataset class itself was being "
                                           f"served ({seen_k[0]} request(s) for the class reached the handlers): the class was not asked through the runtime")
                            if handled != plain:
                                why.append(f"{method}() under pass-through handlers gives {handled!r:.150}, the plain run {plain!r:.150}")
                            if method == "evaluate" and not warm:
                                k2, _ = mkv()
                                g2 = mk(k2)
                                d = runtime._DEFAULT_HANDLERS[RT["E"]]

                                def sub(req, _k=k2, _d=d):
                                    return SUB if req.evaluatable is _k else _d(req)
                                stable = {RT["E"]: sub}
                                zone = []          # a validate / keys / explain request on the substituted class itself raises (C18-K)
                                for kind in ("V", "K", "X"):
                                    def hz(req, _kind=kind, _d=runtime._DEFAULT_HANDLERS[RT[kind]], _k=k2):
                                        try:
                                            return _d(req)
                                        except BaseException:
                                            if getattr(req, SUBJECT_ATTR[_kind]) is _k:
                                                zone.append(_kind)
                                            raise
                                    stable[RT[kind]] = hz
                                with runtime.handle(stable):
                                    got = _dc_ask(g2, "evaluate", o)
                                want = _dc_ask(mk(Value(SUB)), "evaluate", o)
                                if got != want and zone and not why:
                                    finding = "C18-K"
                                if got != want:
                                    why.append(f"a handler answering {SUB!r} for the dataset class is not honoured: got {got!r:.150}, the same context around "
                                               f"Value({SUB!r}) gives {want!r:.150}")
                        except Exception as e:  # noqa
                            why.append(f"probe raised {type(e).__name__}: {e}")
                        if why:
                            out.append(dict(kind="sweep", desc=f"a dataset class ({vname}) used as {cname}, dictionary {oname} ({o!r}), {'warm' if warm else 'cold'} graph: "
                                                               + "; ".join(why), cls="labrea.datasetclass", method=tag, finding=finding))
    return out


def library_context_probes():
    """the library's own context managers derive from the CURRENT runtime: user handlers installed outside
    labrea.cache.disabled() / labrea.logging.disabled() (either, both, in both orders) keep observing every
    request type they do not themselves replace, and keep substituting, inside the block"""
    import labrea.cache
    import labrea.logging
    from labrea import Option, dataset, runtime
    RT = request_types()
    out = []
    ctxs = {"cache.disabled": (labrea.cache.disabled, set(CACHE_KINDS)), "logging.disabled": (labrea.logging.disabled, {"L"})}
    stacks = [("cache.disabled",), ("logging.disabled",), ("cache.disabled", "logging.disabled"), ("logging.disabled", "cache.disabled")]
    def graph():
        def dep(a=Option("A", type=int)):
            return a * 10
        dep.__name__ = dep.__qualname__ = "probe_dep"
        dep_ds = dataset(dep)

        def top(b=dep_ds):
            return b + 1
        top.__name__ = top.__qualname__ = "probe_top"
        return dep_ds, dataset(top)

    for stack in stacks:
        dep_ds, top_ds = graph()
        replaced = set().union(*(ctxs[c][1] for c in stack))
        got = {k: 0 for k in KINDS}
        table = {}
        for k in KINDS:
            d = runtime._DEFAULT_HANDLERS[RT[k]]

            def h(req, _k=k, _d=d):
                got[_k] += 1
                return _d(req)
            table[RT[k]] = h
        name = " then ".join(stack)
        try:
            with contextlib.ExitStack() as st:
                st.enter_context(runtime.handle(table))
                for c in stack:
                    st.enter_context(ctxs[c][0]())
                r = top_ds.evaluate({"A": 1})
                top_ds.validate({"A": 1})
                top_ds.keys({"A": 1})
                top_ds.explain({"A": 1})
            need = [k for k in KINDS if k not in replaced and not (k in CACHE_KINDS)]
            if "cache.disabled" not in stack:
                need += list(CACHE_KINDS[:1])
            missing = [k for k in need if got[k] == 0]
            if r != 11 or missing:
                out.append(dict(kind="sweep", desc=f"pass-through handlers installed OUTSIDE labrea.{name}() do not observe the operations inside the block "
                                                   f"(result {r!r}; no request of kind(s) {','.join(missing)} reached them)",
                                cls="labrea.runtime.Runtime", method=f"outside/{name}/observe", finding=None))

            dep_ds, top_ds = graph()          # fresh datasets: nothing memoised by the run above

            def subst(req, _d=runtime._DEFAULT_HANDLERS[RT["E"]], _dep=dep_ds):
                if req.evaluatable is _dep:
                    return 1000
                return _d(req)
            with contextlib.ExitStack() as st:
                st.enter_context(runtime.handle(RT["E"], subst))
                for c in stack:
                    st.enter_context(ctxs[c][0]())
                r2 = top_ds.evaluate({"A": 1})
            if r2 != 1001:
                out.append(dict(kind="sweep", desc=f"a handler substituting a dataset's result, installed OUTSIDE labrea.{name}(), is not honoured where the dataset "
                                                   f"is a dependency inside the block (got {r2!r})",
                                cls="labrea.runtime.Runtime", method=f"outside/{name}/substitute", finding=None))
        except Exception as e:  # noqa
            out.append(dict(kind="sweep", desc=f"evaluation under handlers installed outside labrea.{name}() raised {type(e).__name__}",
                            cls="labrea.runtime.Runtime", method=f"outside/{name}/observe", finding=None))
    return out


def sweep():
    """rows of the reflection table + violations (one per class/method that is not request-routed)"""
    from labrea.types import Cacheable, Evaluatable, Explainable, Validatable
    base_of = {"evaluate": Evaluatable, "validate": Validatable, "keys": Cacheable, "explain": Explainable}
    classes = enumerate_classes()
    reps, o = representatives()
    fresh, _ = representatives()         # cold caches for the side-operation probes
    rows, violations = [], []
    for i, cls in enumerate(classes, 1):
        name = cls.__name__
        flags = {}
        for m in METHODS:
            if not issubclass(cls, base_of[m]):
                flags[m] = True          # not applicable
                continue
            why = []
            w = getattr(cls, m, None)
            if not getattr(w, "__labrea_wrapper__", False):
                why.append(f"{name}.{m} is not a request-issuing wrapper")
            saved = getattr(cls, f"__labrea_{m}__", None)
            placeholder = getattr(base_of[m], f"__labrea_{m}__")
            if saved is None or saved is placeholder or getattr(saved, "__labrea_wrapper__", False):
                why.append(f"{name}.__labrea_{m}__ is not an implementation")
            if name not in reps:
                why.append(f"no representative instance for class {name} (harness must be extended)")
            elif isinstance(reps[name], BrokenRepresentative):
                why.append(f"a representative instance of {name} cannot be built: {reps[name].why}")
            else:
                seen, byp = probe(reps[name], m, o)
                if not seen:
                    why.append(f"calling {name}.{m} on an instance hands no {m} request for it to an installed handler")
                why += byp
            flags[m] = not why
            if why:
                violations.append(dict(kind="sweep", desc="a class's method is not an interceptable request: " + "; ".join(why),
                                       cls=f"{cls.__module__}.{name}", method=m, finding=None))
        side_ok, side_why = (True, "")
        if name in reps and not isinstance(fresh[name], BrokenRepresentative):
            side_ok, side_why = side_probe(name, fresh[name], o)
            if not side_ok:
                violations.append(dict(kind="sweep", desc=f"side operation of {name} is not issued as a request: {side_why}",
                                       cls=f"{cls.__module__}.{name}", method="side", finding=None))
        rows.append(dict(i=i, name=f"{cls.__module__}.{name}", ctor=CTOR.get(name), side=side_ok, **flags))
    violations += odd_handler_probes()
    violations += option_type_probes()
    violations += library_context_probes()
    violations += dataset_class_probes()
    return rows, violations


def probe_counts():
    nt = len(declared_types())
    nc, nv = len(_dc_contexts()), len(_dc_variants())
    return dict(declared_option_types=nt, dataset_class_contexts=nc, dataset_class_variants=nv,
                dataset_class_probes=nc * nv * len(DC_OPTIONS) * len(METHODS) * 2)


def cap_families(viol, new=12, tagged=3):
    """the directed probe families report one entry per probe: keep the first few of each family (replay re-runs the
    whole sweep and looks the entry up by class / method, so nothing is lost)"""
    out, count = [], {}
    for v in viol:
        fam = str(v.get("method", "")).split("/")[0]
        if fam not in ("type-check", "dataset-class"):
            out.append(v)
            continue
        key = (fam, v["finding"] is None)
        count[key] = count.get(key, 0) + 1
        if count[key] <= (new if v["finding"] is None else tagged):
            out.append(v)
    return out, {f"{fam}:{'new' if isnew else 'recorded finding'}": n for (fam, isnew), n in count.items()}


def coq_bool(b):
    return "true" if b else "false"


def coq_table(rows):
    items = []
    for r in rows:
        c = f"(Some {r['ctor']})" if r["ctor"] else "None"
        items.append("{| rr_class := %d%%N; rr_ctor := %s; rr_eval := %s; rr_validate := %s; rr_keys := %s; rr_explain := %s; rr_side := %s |}" % (
            r["i"], c, coq_bool(r["evaluate"]), coq_bool(r["validate"]), coq_bool(r["keys"]), coq_bool(r["explain"]), coq_bool(r["side"])))
    return "[" + ";\n   ".join(items) + "]"


def discharge_obligation(ctx, rows):
    """Obligations_C18.v: this run's reflection table, [table_ok] by vm_compute, and the theorems
    of Properties/C18.v instantiated with it (their hypothesis discharged)"""
    src = f"""From Coq Require Import List NArith Bool.
Import ListNotations.
From LV Require Import Model.Base Model.Eval Model.Requests Properties.C18.
Definition reflected : rtable :=
  {coq_table(rows)}.
Lemma reflected_ok : table_ok reflected = true.
Proof. vm_compute. reflexivity. Qed.
Definition cover_evaluate_this_run S mf ms cfg u fu so :=
  C18_requests_cover_nodes_evaluate S mf ms cfg u fu so reflected reflected_ok.
Definition cover_validate_this_run S mf ms cfg u fu so :=
  C18_requests_cover_nodes_validate S mf ms cfg u fu so reflected reflected_ok.
Definition cover_keys_this_run S mf ms cfg u fu so :=
  C18_requests_cover_nodes_keys S mf ms cfg u fu so reflected reflected_ok.
Definition cover_explain_this_run S mf ms cfg u fu so :=
  C18_requests_cover_nodes_explain S mf ms cfg u fu so reflected reflected_ok.
Definition substitution_this_run S mf ms cfg u fu so :=
  C18_substitution_honoured_partial S mf ms cfg u fu so reflected reflected_ok.
"""
    path = ctx.scratch.path("Obligations_C18.v")
    with open(path, "w") as fh:
        fh.write(src)
    rc, out, err = lib.coqc(path, ctx.scratch.dir)
    return rc == 0, err[-1500:]


# ----------------------------------------------------------------------------- (ii) pass-through

def handler_plan(rng, scn):
    plan = []
    for _ in scn["ops"]:
        r = rng.random()
        if r < 0.12:
            kinds = []
        elif r < 0.5:
            kinds = list(KINDS)
        elif r < 0.6:
            kinds = rng.sample(KINDS, rng.randint(2, 5))
        else:
            kinds = [rng.choice(KINDS)]
        plan.append((kinds, None, None))
    return plan


def nested_scenario(rng, i):
    """a scenario whose operations often run inside labrea.cache.disabled() / labrea.logging.disabled(), with the
    user's handlers installed outside, inside or between the library's context managers"""
    g = gen.Gen(rng, with_alloptions=(i % 10 == 0), preset_on_ds=0.3 if i % 2 else 0.0)
    s = g.scenario(n_exprs=2, depth=3, n_ops=12, switches=True)
    ops, plan = [], []
    for (m, j, _cc, _lc, o) in s["ops"]:
        cc = rng.random() < 0.5
        lc = rng.random() < 0.35
        if not (cc or lc):
            cc = True
        ops.append((m, j, cc, lc, o))
        r = rng.random()
        if r < 0.6:
            kinds = list(KINDS)
        elif r < 0.8:
            kinds = rng.sample(KINDS, rng.randint(2, 5))
        else:
            kinds = [rng.choice(KINDS)]
        plan.append((kinds, None, None, rng.choice(NESTS[1:]) if rng.random() < 0.8 else "inside"))
    return dict(s, ops=ops), plan


CALL_EV = re.compile(r"(?:^| )c([0-9]+)\(")


def body_owners(scn):
    """function atom -> the one dataset whose body it is (atoms used by exactly one dataset definition and by no
    call / step / function-value node)"""
    env = scn["env"]
    used = collections.Counter()
    for t in cp.sub_exprs([scn["exprs"], [{k: v for k, v in d.items() if k != "fid"} for d in env.values()]]):
        if isinstance(t, tuple) and len(t) >= 2 and t[0] in ("call", "pstep", "fnvalue") and isinstance(t[1], int):
            used[t[1]] += 1
    owners = collections.Counter(d["fid"] for d in env.values() if d.get("derived") is None and not d.get("abstract") and "fid" in d)
    return {d["fid"]: dsid for dsid, d in env.items()
            if d.get("derived") is None and not d.get("abstract") and "fid" in d and owners[d["fid"]] == 1 and not used[d["fid"]]}


PLAIN = ([], None, None)
STATS = {"ops_compared": 0, "same_sequence": 0, "same_multiset": 0}


def check_passthrough(scn, plan):
    """implementation-only oracles on one scenario: (a) results and effects of every operation on
    the long-lived graph are the same with and without the recording pass-through handlers,
    (b) nothing runs outside a request seen by the handlers (bypass monitor).
    Returns (violations, lines with handlers, seen lists)"""
    out = []
    info = []
    lines_h, seens, byps = run_impl_rq(scn, plan, monitor=True, info=info)
    lines_p, _, _ = run_impl_rq(scn, [PLAIN] * len(scn["ops"]))
    for j, (a, b) in enumerate(zip(lines_h, lines_p)):
        if a != b:
            out.append(dict(kind="transparency", desc="with recording pass-through handlers installed for "
                            + ",".join(plan[j][0]) + " an operation's result or effects differ from the plain run",
                            op_index=j, with_handlers=a, plain=b, finding=None,
                            scenario_repr=cp.dump_scn(scn), plan_repr=repr(plan)))
            break
    for j, b in enumerate(byps):
        if b:
            nest = nest_of(plan[j])
            where = "" if nest == "inside" else f" (handlers installed with nesting '{nest}' relative to labrea.cache.disabled()/labrea.logging.disabled())"
            out.append(dict(kind="bypass", desc="an operation ran outside a request seen by the installed handlers" + where + ": " + "; ".join(sorted(set(b))[:4]),
                            op_index=j, finding=None, scenario_repr=cp.dump_scn(scn), plan_repr=repr(plan)))
            break
    # a dataset's body never runs without an EvaluateRequest for that dataset (the object the user holds, or a
    # with_options / with_default_options derivative of it that the user evaluates) having reached the handlers:
    # otherwise no handler could substitute its result there
    owners = body_owners(scn)
    for j, (line, sv) in enumerate(zip(lines_h, seens)):
        if not owners or "E" not in plan[j][0] or plan[j][1] is not None:
            continue
        ran = {int(x) for x in CALL_EV.findall(line.partition("|")[2])} & set(owners)
        if not ran:
            continue
        asked = {base_ds(scn["env"], lab[1]) for k, lab in sv if k == "E" and lab is not None and lab[0] == "ds"}
        STATS["dataset_bodies_run_under_E_recorder"] = STATS.get("dataset_bodies_run_under_E_recorder", 0) + len(ran)
        lost = sorted(owners[f] for f in ran if owners[f] not in asked)
        if lost:
            out.append(dict(kind="unrequested", desc=f"the body of dataset {lost[0]} ran during the operation, but no EvaluateRequest for that dataset object (or for a "
                            "with_options / with_default_options derivative of it) reached the installed recording handler: a handler substituting "
                            "a result for that dataset by identity would not be honoured here",
                            op_index=j, op=repr(scn["ops"][j])[:300], datasets=lost, finding=None, scenario_repr=cp.dump_scn(scn), plan_repr=repr(plan)))
            break
    for j, inf in enumerate(info):
        if inf["untyped"]:
            out.append(dict(kind="typecheck", desc="an Option was evaluated successfully under recording pass-through handlers for EvaluateRequest and "
                            f"TypeValidationRequest, but its type check never reached the TypeValidationRequest handler ({len(inf['untyped'])} option evaluation(s) "
                            "of this operation): the option type check was not issued as a request",
                            op_index=j, op=repr(scn["ops"][j])[:300], finding=None, scenario_repr=cp.dump_scn(scn), plan_repr=repr(plan)))
            break
    return out, lines_h, seens


def agreement(impl, model, multi):
    """how an implementation observation and the model's agree.  The request layer is what C18 ties
    to the code: an evaluation order changed inside a failing operation (which of two failing
    operands of a set union raises first) or the order of effects of a successful one is not its
    business (C04/C10/C12 compare those): 'both-fail' and 'reordered' are no alarm"""
    m = cp.strip_ghost(model)
    if impl == m:
        return "exact"
    if cp.same(impl, model, multi):
        return "tolerated"
    ra, ea = cp.split(impl)
    rb, eb = cp.split(m)
    if ra.startswith("err") and rb.startswith("err"):
        return "both-fail"
    if ra == rb and sorted(ea) == sorted(eb):
        return "reordered"
    return "different"


def compare_with_model(scn, plan, lines_h, seens, model_line):
    """correspondence of one scenario: result lines (tolerant, as for the core) and the requests
    recorded on user-visible nodes, in order"""
    ml = model_line.split(" ## ")
    if len(ml) != len(lines_h):
        return dict(where="Model/Requests.v vs labrea (line count)", scenario_repr=cp.dump_scn(scn), plan_repr=repr(plan)), 0
    pmap, logs = model_paths(scn)
    multi = cp._multi_ref(scn["exprs"]) or cp._multi_ref(scn["env"]) or cp._multi_ref([op[4] for op in scn["ops"]])
    compared = 0
    for j, (a, b, sv) in enumerate(zip(lines_h, ml, seens)):
        res, n_issued, seen = parse_model_line(b)
        how = agreement(a, res, multi)
        STATS[how] = STATS.get(how, 0) + 1
        if how == "different":
            return dict(where="Model/Requests.v vs labrea (result/effects)", op_index=j, op=repr(scn["ops"][j]), impl=a,
                        model=cp.strip_ghost(res), scenario_repr=cp.dump_scn(scn), plan_repr=repr(plan)), compared
        if how in ("tolerated", "both-fail"):
            break                   # the runs may have stopped at different points: requests and later store
                                    # contents of this history are not comparable
        mv = visible(seen, pmap, logs)
        iv = [(k, l) for k, l in sv if l is not None]
        compared += len(mv)
        STATS["ops_compared"] += 1
        STATS["same_sequence"] += 1 if mv == iv else 0
        missing = collections.Counter(mv) - collections.Counter(iv)
        STATS["same_multiset"] += 1 if (not missing and not (collections.Counter(iv) - collections.Counter(mv))) else 0
        if missing:
            # the handlers must have seen AT LEAST the requests the model issues on user-visible nodes
            # (order and surplus are not part of the property: reordering a set union, visiting a node
            # once more or adding a wrapper layer is no alarm)
            names = {}
            for k, l in mv + iv:
                names.setdefault(l, len(names))
            return dict(where="Model/Requests.v vs labrea (requests seen by the handlers on user-visible nodes: the model's are not all there)",
                        op_index=j, op=repr(scn["ops"][j]), handlers=",".join(plan[j][0]),
                        missing=" ".join(f"{k}:{names[l]}x{c}" for (k, l), c in missing.items()),
                        impl=" ".join(f"{k}:{names[l]}" for k, l in iv), model=" ".join(f"{k}:{names[l]}" for k, l in mv),
                        scenario_repr=cp.dump_scn(scn), plan_repr=repr(plan)), compared
    return None, compared


# ----------------------------------------------------------------------------- (iii) substitution

def replace_dataset(x, dsid, val):
    """the scenario description with every reference to dataset dsid replaced by the constant"""
    if isinstance(x, tuple):
        if len(x) == 2 and x[0] == "dataset" and x[1] == dsid:
            return ("value", val)
        if x and x[0] in ("value", "fnvalue"):
            return x
        return tuple(replace_dataset(y, dsid, val) for y in x)
    if isinstance(x, list):
        return [replace_dataset(y, dsid, val) for y in x]
    if isinstance(x, dict):
        return {k: (replace_dataset(y, dsid, val) if k not in ("options", "default_options", "preset") else y) for k, y in x.items()}
    return x


SUB_VALUES = [("j", 1), ("j", 2), ("j", 5), ("j", lit("a")), ("j", lit("b")), ("j", None), ("j", 7), ("t", 900, [("j", 1)])]


def subst_cases(rng):
    """(scenario, root index, target dataset, value, shape) : the target is used as an argument of
    another dataset, as a switch/dataset dispatch, inside switch branches, coalesce, Map, option
    defaults, and wherever the random generator put it"""
    g = gen.Gen(rng, with_alloptions=False, max_ds=4)
    base = g.scenario(n_exprs=2, depth=3, n_ops=0)
    pool = g.dict_pool()
    env = dict(base["env"])
    ft = dict(base["ftable"])
    d = rng.choice(list(env))
    ref = ("dataset", d)
    nxt = max(env) + 1
    nf = max(list(ft) + [100]) + 1
    for f in range(nf, nf + 7):
        ft[f] = ("tag",)
    shapes = []
    env[nxt] = dict(fid=nf, kwargs=[ref, g.leaf()])
    shapes.append(("argument of a dataset", ("dataset", nxt)))
    env[nxt + 1] = dict(fid=nf + 1, kwargs=[g.leaf()], dispatch=ref,
                        overloads=[(("j", 1), ("call", nf + 2, [g.leaf()])), (("j", lit("a")), g.leaf())])
    shapes.append(("dispatch of a dataset", ("dataset", nxt + 1)))
    env[nxt + 2] = dict(fid=nf + 3, kwargs=[("dataset", nxt)], cache="none")
    shapes.append(("argument of an argument", ("dataset", nxt + 2)))
    late = derived_shapes(env, nxt, nf, random.Random(lib.stable_hash([repr(base["exprs"]), d])))
    shapes.append(("switch dispatch", ("switch", ref, [(("j", 1), g.expr(1)), (("j", lit("a")), g.expr(1))], g.expr(1))))
    shapes.append(("switch branch", ("switch", g.chooser(1), [(("j", 1), ref), (("j", lit("a")), g.expr(1))], ref)))
    shapes.append(("coalesce member", ("coalesce", [ref, g.expr(1)])))
    shapes.append(("coalesce later member", ("coalesce", [g.option(), ref])))
    shapes.append(("mapped expression", ("tolist", ("map", ref, [(K(10), ("value", ("j", [1, 2])))]))))
    shapes.append(("option default", ("option", K(12), ref, None)))
    shapes.append(("call arguments", ("call", nf + 4, [ref, ("apply", ref, ("fnvalue", nf + 5))])))
    shapes.append(("cached consumer", ("cached", 70, ("call", nf + 4, [ref]))))
    for i, e in enumerate(base["exprs"]):
        shapes.append(("generated", e))
    shapes += late       # appended last: the shapes above keep their indices and their random draws
    scn = dict(ftable=ft, env=env, exprs=[e for _, e in shapes], ops=[])
    return scn, [n for n, _ in shapes], d, pool


def derived_shapes(env, nxt, nf, prng):
    """the consumers of the target reached through the alternative constructors of a dataset: with_options /
    with_default_options copies of them (single and chains), evaluated directly and as dependencies themselves.
    The target is the dependency of the ORIGINAL dataset; the user holds the target, not whatever the copy refers to."""
    out = []
    k = nxt + 3
    hows = ["with_options", "with_default_options"]
    for how in hows:
        env[k] = dict(derived=nxt, how=how, preset=gen.rand_preset(prng))
        out.append((f"argument of a dataset evaluated through {how}", ("dataset", k)))
        k += 1
    cur = nxt
    for how in prng.choice([hows + hows[:1], hows[::-1] + hows[1:], hows[:1] * 3, hows[1:] * 2]):
        env[k] = dict(derived=cur, how=how, preset=gen.rand_preset(prng))
        cur = k
        k += 1
    out.append(("argument of a dataset evaluated through a chain of with_options / with_default_options", ("dataset", cur)))
    env[k] = dict(derived=nxt + 1, how=prng.choice(hows), preset=gen.rand_preset(prng))
    out.append(("dispatch of a dataset evaluated through a derivative", ("dataset", k)))
    k += 1
    env[k] = dict(derived=nxt + 2, how=prng.choice(hows), preset=gen.rand_preset(prng))
    out.append(("argument of an argument, evaluated through a derivative of the outer dataset", ("dataset", k)))
    k += 1
    out.append(("derivative of a consumer as a call argument", ("call", nf + 4, [("dataset", nxt + 3), ("dataset", cur)])))
    env[k] = dict(fid=nf + 6, kwargs=[("dataset", nxt + 4)], cache="none")
    out.append(("derivative of a consumer as the argument of another dataset", ("dataset", k)))
    return out


def uses_dataset(scn, e, dsid, seen=None):
    seen = set() if seen is None else seen
    for t in cp.sub_exprs(e):
        if isinstance(t, tuple) and len(t) == 2 and t[0] == "dataset":
            if t[1] == dsid:
                return True
            if t[1] not in seen:
                seen.add(t[1])
                dd = scn["env"][t[1]]
                while dd.get("derived") is not None:
                    if dd["derived"] == dsid:
                        return True
                    dd = scn["env"][dd["derived"]]
                if uses_dataset(scn, [dd.get("kwargs", []), dd.get("dispatch"), [x for _, x in dd.get("overloads", [])],
                                      dd.get("callback"), dd.get("effects", [])], dsid, seen):
                    return True
    return False


def check_subst(scn, idx, target, val, options, cc, lc=False, nest="inside"):
    """one substitution check on freshly built graphs.  Returns (agree, zone, detail)"""
    one = dict(scn, exprs=[scn["exprs"][idx]], ops=[("evaluate", 0, cc, lc, options)])
    raws_s, info = [], []
    ls, _, _ = run_impl_rq(one, [(["V", "K", "X"], target, val, nest)], raw_out=raws_s, info=info)
    ref = dict(ftable=scn["ftable"], env=replace_dataset({k: v for k, v in scn["env"].items() if k != target}, target, val),
               exprs=[replace_dataset(scn["exprs"][idx], target, val)], ops=[("evaluate", 0, cc, lc, options)])
    # datasets derived from the target cannot be expressed once it is a constant: skip such graphs
    if any(dd.get("derived") == target for dd in scn["env"].values()):
        return True, False, dict(skipped="a dataset is derived from the target")
    raws_r = []
    lr, _, _ = run_impl_rq(ref, [PLAIN], raw_out=raws_r)
    agree = cp.same_outcome(ls[0], raws_s[0], lr[0], raws_r[0])
    zone = any(lab == ("ds", target) for k, lab in info[0]["failed"])
    return agree, zone, dict(substituted=cp.outcome(ls[0]), replaced=cp.outcome(lr[0]), answers=info[0]["answers"], line=ls[0])


W_K = dict(
    what="@dataset d(x=Option('K10')); @dataset a(y=d) with its default memory cache: with an EvaluateRequest handler answering 7 "
         "for d, a({}) raises (the cache fingerprint of a asks d.keys({}), a KeysRequest, and K10 is missing) instead of returning a's body on 7",
    scn=dict(ftable={100: ("tag",), 101: ("tag",)},
             env={1: dict(fid=100, kwargs=[("option", K(10), None, None)]), 2: dict(fid=101, kwargs=[("dataset", 1)])},
             exprs=[("dataset", 2)], ops=[]),
    target=1, val=("j", 7), options={}, cc=False)


# ----------------------------------------------------------------------------- run / replay

def run(ctx):
    rng = ctx.rng
    violations, mism = [], []
    for k in list(STATS):
        STATS[k] = 0
    # (i) reflection
    rows, sweep_viol = sweep()
    sweep_viol, probe_failures = cap_families(sweep_viol)
    violations += sweep_viol
    ok, err = discharge_obligation(ctx, rows)
    if not ok:
        bad = [r["name"] for r in rows if not (r["evaluate"] and r["validate"] and r["keys"] and r["explain"] and r["side"])]
        missing = [c for c in ALL_CTORS if not any(r["ctor"] == c for r in rows)]
        mism.append({"where": "generated obligation table_ok (Obligations_C18.v)", "unwrapped_rows": bad,
                     "modelled_classes_not_found": missing, "error": err})
    table_prelude = "Definition lv_rt : rtable :=\n  " + coq_table(rows) + "."

    ops = tokens = oracle_checks = sub_checks = sub_answered = sub_zone = 0
    n = 170 if ctx.quick else 1700
    distinct = set()
    by_handlers = {"none": 0, "single": 0, "several": 0, "all": 0}
    by_nest, sub_by_nest = {}, {}
    n_nested = 0
    kinds_seen = {k: 0 for k in KINDS}
    samples, by_shape, sub_corr = [], {}, []
    try:
        # (ii) pass-through handlers on random graphs
        n = 170 if ctx.quick else 1700
        scns, plans = [], []
        for i in range(n):
            g = gen.Gen(rng, with_alloptions=(i % 10 == 0), preset_on_ds=0.3 if i % 2 else 0.0)
            s = g.scenario(n_exprs=2, depth=3, n_ops=12, switches=(i % 5 == 0))
            scns.append(s)
            plans.append(handler_plan(rng, s))
        # user handlers outside / between the library's own context managers (own generator: the streams
        # above and below are the ones they were before this stream existed)
        nrng = random.Random(ctx.seed * 31 + 18)
        n_nested = 60 if ctx.quick else 600
        for i in range(n_nested):
            s, p = nested_scenario(nrng, i)
            scns.append(s)
            plans.append(p)
        outs = ctx.coq_eval("Cases_C18", REQ, table_prelude, [coq_scenario_rq(s, p) for s, p in zip(scns, plans)], shard=12)
        ops = tokens = oracle_checks = 0
        distinct = set()
        by_handlers = {"none": 0, "single": 0, "several": 0, "all": 0}
        kinds_seen = {k: 0 for k in KINDS}
        samples = []
        for s, p, out in zip(scns, plans, outs):
            v, lines_h, seens = check_passthrough(s, p)
            violations += v
            oracle_checks += 2 * len(s["ops"])
            mm, compared = compare_with_model(s, p, lines_h, seens, out)
            if mm and len(mism) < 5:
                mism.append(mm)
            ops += len(s["ops"])
            tokens += compared
            for hs, sv in zip(p, seens):
                kinds = hs[0]
                by_nest[nest_of(hs)] = by_nest.get(nest_of(hs), 0) + 1
                by_handlers["none" if not kinds else "all" if len(kinds) == len(KINDS) else "single" if len(kinds) == 1 else "several"] += 1
                for k, lab in sv:
                    kinds_seen[k] += 1
            vis = [(k, l) for sv in seens for k, l in sv if l is not None]
            if len(vis) >= 20 and len({k for k, _ in vis}) >= 4:
                distinct.add(lib.stable_hash(cp.dump_scn(s)))
            if len(samples) < 3 and len(vis) >= 20:
                j = max(range(len(seens)), key=lambda t: len(seens[t]))
                samples.append(dict(expr=repr(s["exprs"][s["ops"][j][1]])[:300], op=repr(s["ops"][j])[:200], handlers=",".join(p[j][0]),
                                    observed=lines_h[j][:200], seen_on_visible_nodes=" ".join(canon([(k, l) for k, l in seens[j] if l is not None]))[:300]))

        # (iii) substitution
        m = 45 if ctx.quick else 450
        sub_checks = sub_answered = sub_zone = 0
        by_shape = {}
        sub_corr = []          # (scenario, hspec) for the model
        tagged = 0
        srng = random.Random(ctx.seed * 31 + 19)
        derived_pt = []
        for _ in range(m):
            scn, shapes, d, pool = subst_cases(rng)
            # the same graphs under recording pass-through handlers: every operation on the with_options /
            # with_default_options derivatives (and on what depends on them), all four methods
            late = [i for i, sh in enumerate(shapes) if "deriv" in sh or "through" in sh]
            pops, pplan = [], []
            for i in late:
                for meth in ["evaluate"] + srng.sample(["validate", "keys", "explain", "evaluate"], 1):
                    pops.append((meth, i, srng.random() < 0.2, False, dict(srng.choice(pool))))
                    pplan.append((list(KINDS) if srng.random() < 0.7 else ["E"] + srng.sample(KINDS[1:], 2), None, None))
            i0 = srng.choice(late)
            sel = [t for t, op in enumerate(pops) if op[1] == i0]
            small = dict(scn, exprs=[scn["exprs"][i0]], ops=[(pops[t][0], 0) + tuple(pops[t][2:]) for t in sel])
            derived_pt.append((dict(scn, ops=pops), pplan, small, [pplan[t] for t in sel]))
            for idx, shape in enumerate(shapes):
                if not uses_dataset(scn, scn["exprs"][idx], d):
                    continue
                val = rng.choice(SUB_VALUES)
                o = dict(rng.choice(pool))
                cc = rng.random() < 0.35
                agree, zone, det = check_subst(scn, idx, d, val, o, cc)
                if "skipped" in det:
                    continue
                sub_checks += 1
                sub_answered += 1 if det["answers"] else 0
                by_shape[shape] = by_shape.get(shape, 0) + 1
                if not agree:
                    finding = "C18-K" if zone else None
                    tagged += 1 if zone else 0
                    sub_zone += 1 if zone else 0
                    violations.append(dict(kind="subst", desc=f"the dataset's substituted result is not honoured ({shape}): evaluation under the substituting "
                                           "handler differs from the evaluation of the graph with the dataset replaced by the constant",
                                           shape=shape, root_index=idx, target=d, value=repr(val), options=repr(o), cache_disabled=cc,
                                           substituted=det["substituted"], replaced=det["replaced"], finding=finding,
                                           scenario_repr=cp.dump_scn(scn)))
                one = dict(scn, exprs=[scn["exprs"][idx]], ops=[("evaluate", 0, cc, False, o)])
                sub_corr.append((one, [([], d, val)], det["line"]))
                sub_by_nest["inside"] = sub_by_nest.get("inside", 0) + 1
                # the same substitution with the handler installed OUTSIDE / between the library's context managers
                if srng.random() < 0.6:
                    cc2 = srng.random() < 0.75
                    lc2 = (not cc2) or srng.random() < 0.35
                    nest = srng.choice(NESTS[1:])
                    agree, zone, det = check_subst(scn, idx, d, val, o, cc2, lc2, nest)
                    sub_checks += 1
                    sub_answered += 1 if det["answers"] else 0
                    sub_by_nest[nest] = sub_by_nest.get(nest, 0) + 1
                    if not agree:
                        finding = "C18-K" if zone else None
                        sub_zone += 1 if zone else 0
                        violations.append(dict(kind="subst", desc=f"the dataset's substituted result is not honoured ({shape}; the substituting handler installed "
                                               f"with nesting '{nest}' relative to labrea.cache.disabled()/labrea.logging.disabled()): evaluation under the "
                                               "substituting handler differs from the evaluation of the graph with the dataset replaced by the constant",
                                               shape=shape, root_index=idx, target=d, value=repr(val), options=repr(o), cache_disabled=cc2,
                                               log_disabled=lc2, nest=nest,
                                               substituted=det["substituted"], replaced=det["replaced"], finding=finding,
                                               scenario_repr=cp.dump_scn(scn)))
                    one = dict(scn, exprs=[scn["exprs"][idx]], ops=[("evaluate", 0, cc2, lc2, o)])
                    sub_corr.append((one, [([], d, val, nest)], det["line"]))
        if derived_pt:
            # the model runs ONE derivative per graph (the terms of whole graphs of nested derivatives are too large to
            # evaluate within the quick budget); the implementation-only clauses run on all of them
            outs3 = ctx.coq_eval("Derived_C18", REQ, table_prelude, [coq_scenario_rq(s, p) for _, _, s, p in derived_pt], shard=3)
            for (s_all, p_all, s, p), out in zip(derived_pt, outs3):
                v, _, _ = check_passthrough(s_all, p_all)
                violations += v
                oracle_checks += 2 * len(s_all["ops"])
                v, lines_h, seens = check_passthrough(s, p)
                mm, compared = compare_with_model(s, p, lines_h, seens, out)
                if mm and len(mism) < 5:
                    mism.append(mm)
                ops += len(s["ops"])
                tokens += compared
        if sub_corr:
            outs2 = ctx.coq_eval("Subst_C18", REQ, table_prelude, [coq_scenario_rq(s, h) for s, h, _ in sub_corr], shard=40)
            for (s, h, line), out in zip(sub_corr, outs2):
                res, _, _ = parse_model_line(out)
                multi = cp._multi_ref(s["exprs"]) or cp._multi_ref(s["env"]) or cp._multi_ref([op[4] for op in s["ops"]])
                # the implementation line was taken with V/K/X recorders installed (transparent)
                if agreement(line, res, multi) == "different" and len(mism) < 5:
                    mism.append(dict(where="Model/Requests.v vs labrea (evaluation under the substituting handler)", impl=line,
                                     model=cp.strip_ghost(res), target=h[0][1], value=repr(h[0][2]), nest=nest_of(h[0]),
                                     scenario_repr=cp.dump_scn(s)))
    except Exception as e:  # noqa  the implementation is too broken to drive: keep what was found (fail closed)
        import traceback
        mism.append({"where": "harness stage failed on this implementation", "error": repr(e), "trace": traceback.format_exc()[-1500:]})
    # the recorded finding, replayed
    try:
        agree, zone, det = check_subst(W_K["scn"], 0, W_K["target"], W_K["val"], W_K["options"], W_K["cc"])
        known = [dict(id="C18-K", still_fails=(not agree and zone), what=W_K["what"], observed=det)]
    except Exception as e:  # noqa
        known = [dict(id="C18-K", still_fails=False, what=W_K["what"], observed=repr(e))]

    return {
        "evaluations": oracle_checks + ops + sub_checks + 4 * len(rows),
        "distinct_nontrivial": len(distinct),
        "rule": "random expression graphs (gen.Gen: datasets with overloads/options/callbacks/effects, options, apply, bind, switch, case, "
                "coalesce, collections, Map, Template, WithOptions, cached) x 12 operations (all four methods) on one long-lived graph, each "
                "operation under recording pass-through handlers for no / one / several / all of the nine request types; non-trivial = the "
                "handlers recorded >= 20 requests on user-visible nodes of >= 4 kinds in the history; distinct by hash of the scenario. "
                "Substitution: a dataset of a random graph used as argument / dispatch / switch dispatch and branch / coalesce member / mapped "
                "expression / option default / call argument / inside a cached consumer, fresh graphs, value compared with the graph in which "
                "the dataset is the constant; also with the consumer reached through with_options / with_default_options derivatives (single, "
                "chains of 3, a derivative of the dispatching / of the outer dataset, derivatives as call arguments and as arguments of another "
                "dataset), and those graphs under recording pass-through handlers (all four methods; clause: a dataset body that runs was asked "
                "for as an EvaluateRequest on that dataset object or a derivative of it). Nesting stream: operations inside labrea.cache.disabled() / labrea.logging.disabled() with the "
                "recording or substituting handlers installed outside, inside or between them. Directed probe families of the sweep: option type "
                "checks for every kind of declared type (a class, builtin classes, typing generics / unions / Optional / Literal / Callable / Any / "
                "TypeVar / NewType, PEP 585 and PEP 604 forms, None, a string annotation) x how it was declared (type= keyword, Option[T], annotated "
                "member of a namespace, Option.auto / Option(KEY) inside a namespace, nested and inherited namespaces) x how the value arises x alone / "
                "below a dataset / as a member of an evaluated namespace; dataset classes (@datasetclass, with a dataset member, a bare subclass) as the "
                "child of every consumer of the public API (switch branch / default / dispatch, registered overloads, default implementation, interface "
                "implementation, dataset arguments, >> / apply / bind / pipeline-step sources, coalesce, option default, case-when, Iter, Map, WithOptions, "
                "cached, Logged, function / partial applications, template parameters, a member of another dataset class) x the four methods x a "
                "sufficient and an insufficient dictionary x cold / warm: member requests nested in a request for the class, transparency, substitution "
                "by identity against the same context around Value(constant).",
        "samples": samples,
        "traces_validated_against_impl": ops + len(sub_corr),
        "correspondence_mismatches": mism[:5],
        "violations": violations,
        "known": known,
        "distribution": dict(classes_swept=len(rows), methods_probed=4 * len(rows), directed_probe_families=probe_counts(), directed_probe_failures=probe_failures, scenarios=n + n_nested, scenarios_nested_contexts=n_nested, ops=ops,
                             ops_by_nesting=by_nest, substitution_by_nesting=sub_by_nest,
                             requests_compared_with_model=tokens, trace_agreement=dict(STATS), ops_by_handlers=by_handlers, requests_seen_by_kind=kinds_seen,
                             substitution_checks=sub_checks, substitution_answered=sub_answered, substitution_by_shape=by_shape,
                             substitution_in_known_zone=sub_zone),
        "exhaustive": False,
        "assumptions": [
            "the reflection table is exhaustive over the classes DEFINED in the labrea package at run time (30 classes x 4 methods + side "
            "operations, walked by pkgutil); classes created by users are outside it",
            "handlers of the modelled kinds only: absent, recording pass-through, or answering EvaluateRequest for selected nodes",
            "a user handler installed OUTSIDE a library context manager that replaces the handler of its request type (cache kinds under "
            "cache.disabled(), LogRequest under logging.disabled()) is expected to see nothing of that type (innermost handler serves); the "
            "model is given the handler table without those kinds",
            "PARTIAL: (2) states the requests of unconditionally visited sub-nodes for successful runs; which conditional sub-nodes are "
            "visited is compared with the implementation run by run (exact sequences on user-visible nodes); (3) is proved on the fragment "
            "[frag] (no selected node below a Coalesce or a Cached with a memory cache in use) and refuted outside it (finding C18-K)",
        ],
        "trusted_base": [
            "sys.setprofile bypass monitor and the labelling of live objects (type markers on Options, messages of Logged, cache objects) "
            "are harness code; internal wrapper objects (Dataset._composed layers, _DependsOn, argument containers, collection helpers) are "
            "don't-cares of the comparison",
        ],
    }


def replay(ctx, payload):
    if payload.get("broken"):
        # an obligation / correspondence report: replay every entry that carries a scenario
        still, details = False, []
        for b in payload["broken"]:
            if b.get("scenario_repr") and (b.get("plan_repr") or b.get("target") is not None):
                if b.get("plan_repr"):
                    st, det = replay(ctx, dict(b, kind="corr"))
                else:
                    scn = cp.load_scn(b["scenario_repr"])
                    rows, _ = sweep()
                    val = eval(b["value"], {"S": core.S})
                    hs = [([], b["target"], val, b.get("nest", "inside"))]
                    il, _, _ = run_impl_rq(scn, [(["V", "K", "X"], b["target"], val, b.get("nest", "inside"))])
                    out = ctx.coq_eval("Replay_C18s", REQ, "Definition lv_rt : rtable :=\n  " + coq_table(rows) + ".", [coq_scenario_rq(scn, hs)])[0]
                    res, _, _ = parse_model_line(out)
                    st = agreement(il[0], res, True) == "different"
                    det = dict(impl=il[0], model=cp.strip_ghost(res))
                still = still or st
                details.append(det)
            elif "obligation" in str(b.get("where", "")) or b.get("what") == "proof obligation":
                rows, viol = sweep()
                ok, err = discharge_obligation(ctx, rows)
                still = still or not ok
                details.append(dict(obligation_discharged=ok, unwrapped=[v["desc"] for v in viol][:5]))
        return still, dict(entries=details)
    if payload.get("cls"):
        rows, viol = sweep()
        hit = [v for v in viol if v["cls"] == payload["cls"] and v["method"] == payload["method"]]
        return any(v["finding"] is None for v in hit), dict(violations=hit[:3])
    if payload.get("shape") is not None:
        scn = cp.load_scn(payload["scenario_repr"])
        val = eval(payload["value"], {"S": core.S})
        o = eval(payload["options"], {"S": core.S})
        agree, zone, det = check_subst(scn, payload["root_index"], payload["target"], val, o, payload["cache_disabled"],
                                       payload.get("log_disabled", False), payload.get("nest", "inside"))
        return (not agree), dict(det, in_known_zone=zone, nest=payload.get("nest", "inside"))
    if payload.get("plan_repr"):
        scn = cp.load_scn(payload["scenario_repr"])
        plan = eval(payload["plan_repr"])
        v, lines_h, seens = check_passthrough(scn, plan)
        detail = dict(oracle=[{k: x[k] for k in x if k not in ("scenario_repr", "plan_repr")} for x in v])
        still = bool(v)
        if payload.get("where"):
            rows, _ = sweep()
            out = ctx.coq_eval("Replay_C18", REQ, "Definition lv_rt : rtable :=\n  " + coq_table(rows) + ".", [coq_scenario_rq(scn, plan)])[0]
            mm, _ = compare_with_model(scn, plan, lines_h, seens, out)
            detail["correspondence"] = {k: mm[k] for k in mm if k not in ("scenario_repr", "plan_repr")} if mm else None
            still = still or bool(mm)
        return still, detail
    return False, dict(note="nothing to replay (obligation-only report)")
