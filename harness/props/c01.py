"""C01 - caching is transparent."""
import coreprop as cp
import core
import gen
import lib
from witnesses import WITNESSES, corpus_for

PID = "C01"
COQ_TARGETS = cp.COQ_TARGETS + ["Proofs/CoveredDefs.vo"]
KNOWN = ["D19", "D1", "D3", "D4", "D9", "D21", "D24"]


def transparency_failures(scn, il=None):
    """implementation-only oracle: each evaluation on the long-lived graph returns the value, or
    fails, as a freshly built copy of the graph does with caching disabled for that dictionary"""
    raws = []
    il = core.run_impl(scn, raw_out=raws)
    out = []
    memo = {}
    for j, (op, line) in enumerate(zip(scn["ops"], il)):
        if op[0] != "evaluate":
            continue
        key = (op[1], repr(op[4]))
        if key not in memo:
            memo[key] = cp.fresh_eval(scn, op[1], op[4], raw=True)
        fl, fr = memo[key]
        if not cp.same_outcome(line, raws[j], fl, fr):
            out.append((j, cp.outcome(line), cp.outcome(fl)))
    return out


EFF_SWITCH = (1, 5, 3)      # atoms of LABREA / EFFECTS / DISABLED (core.RESERVED)


def eff_switch(o):
    """the value of LABREA.EFFECTS.DISABLED in dictionary o, as labrea reads it (absent = off)"""
    x = o
    for a in EFF_SWITCH:
        if not isinstance(x, dict) or a not in x:
            return False
        x = x[a]
    return bool(x)


def hold_switch(o, val):
    """copy of o with LABREA.EFFECTS.DISABLED held at val (removed when off)"""
    o = dict(o)
    lab = dict(o.get(1)) if isinstance(o.get(1), dict) else {}
    eff = dict(lab.get(5)) if isinstance(lab.get(5), dict) else {}
    if val:
        eff[3] = True
        lab[5] = eff
        o[1] = lab
    else:
        eff.pop(3, None)
        if eff:
            lab[5] = eff
        else:
            lab.pop(5, None)
        if lab:
            o[1] = lab
        else:
            o.pop(1, None)
    return o


def has_effects(scn):
    return any(d.get("effects") for d in scn["env"].values()) or \
        any(t and t[0] == "comp" and t[2] for t in list(cp.sub_exprs(scn["exprs"])) + list(cp.sub_exprs(scn["env"])))


def in_zone_d24(scn, j):
    """D24: the failure at operation j is caused by the effects switch differing along the history -
    it disappears when every earlier operation uses the failing operation's value of the switch"""
    ops = scn["ops"]
    if not has_effects(scn):
        return False
    sw = eff_switch(ops[j][4])
    if all(eff_switch(op[4]) == sw for op in ops[:j]):
        return False
    held = dict(scn, ops=[(m, i, cc, lc, hold_switch(o, sw)) for (m, i, cc, lc, o) in ops[:j]] + [ops[j]])
    return not any(jj == j for jj, _, _ in transparency_failures(held))


def cached_ids_coherent(scn):
    """each explicit cache id is used with one cached expression (datasets and their derivatives share the
    Cached node by construction): the coherence hypothesis of C01_history_transparent"""
    seen = {}
    for t in list(cp.sub_exprs(scn["exprs"])) + list(cp.sub_exprs(scn["env"])):
        if t and t[0] == "cached" and t[1] is not None:
            if seen.setdefault(t[1], repr(t[2])) != repr(t[2]):
                return False
    return True


def covered_flags(ctx, scns, name):
    """per scenario, one character per operation: '1' iff the model says the operation satisfies the
    hypotheses of C01_history_transparent (Proofs/CoveredDefs.v scohb; sound by Proofs/CoveredProofs.v)"""
    exprs = [core.coq_scenario(s).replace("run_scenario", "covered_ops", 1) for s in scns]
    outs = ctx.coq_eval(name, cp.REQ + ["Proofs.CoveredDefs"], "", exprs, shard=30)
    return [o if cached_ids_coherent(s) else "0" * len(o) for s, o in zip(scns, outs)]


def generate(ctx, n):
    scns = []
    for i in range(n):
        g = gen.Gen(ctx.rng, with_alloptions=(i % 10 == 0), preset_on_ds=0.3 if i % 2 else 0.0)
        scns.append(g.scenario(n_exprs=2, depth=3, n_ops=12,
                               methods=("evaluate",) * 8 + ("keys", "validate", "explain"),
                               switches=(i % 7 == 0)))
    return scns


def directed(ctx, n):
    """directed histories (added after seeded changes that only the correspondence noticed): cached
    expressions whose keys() must take EVERY element / EVERY member attempt into account, evaluated
    under dictionaries that differ only in a key read late:
    - a cached (or dataset-held) Map whose mapped expression branches on the mapped key, so that
      different elements read different options (generator shared with C03);
    - a cached coalesce whose earlier member has all its keys PRESENT but still fails (value outside
      its domain, a bind that raises, a switch without a matching case), so that the later member
      decides the outcome."""
    import props.c03 as c03
    from gen import K, FLAT
    from core import lit
    rng = ctx.rng
    out = []
    for i in range(n):
        if i % 2 == 0:
            g = c03.BranchMapGen(rng)
            s = g.scenario_branchmap(n_ops=10)
            root = s["exprs"][0]
            if root[0] == "map":
                root = ("tolist", root)
            if root[0] not in ("dataset", "cached"):
                root = ("cached", 900, root)
            ops = [(("evaluate" if rng.random() < 0.75 else m), j, cc, lc, o) for (m, j, cc, lc, o) in s["ops"]]
            out.append(dict(s, exprs=[root], ops=ops))
            continue
        g = gen.Gen(rng)
        a, b, c = K(FLAT[0]), K(FLAT[1]), K(FLAT[2])
        good, bad = rng.choice([1, 2, lit("a")]), rng.choice([7, lit("z"), None])
        kind = rng.choice(["domain", "bind", "switch", "domain"])
        if kind == "domain":
            first = ("option", a, None, ("value", ("j", [good, 5])))
        elif kind == "bind":
            first = ("bind", ("option", a, None, None), [(("j", good), ("value", ("j", lit("hit"))))], None)
        else:
            first = ("switch", ("option", a, None, None), [(("j", good), ("value", ("j", lit("hit"))))], None)
        later = rng.choice([("option", b, None, None),
                            ("call", g.newf(("tag",)), [("option", b, None, None)]),
                            ("switch", ("option", b, None, None), [(("j", 1), ("option", c, None, None))],
                             ("value", ("j", lit("dflt"))))])
        members = [first, later] + ([("value", ("j", lit("last")))] if rng.random() < 0.5 else [])
        co = ("coalesce", members)
        w = rng.random()
        if w < 0.5:
            root = ("cached", 901, co)
        elif w < 0.8:
            g.env[1] = dict(fid=g.newf(("tag",)), kwargs=[co])
            root = ("dataset", 1)
        else:
            root = ("cached", 901, ("call", g.newf(("tag",)), [co]))
        base = {FLAT[0]: bad, FLAT[1]: 1, FLAT[2]: 3}
        pool = [base, {**base, FLAT[1]: 2}, {**base, FLAT[2]: 4}, {**base, FLAT[0]: good},
                {FLAT[1]: 1, FLAT[2]: 3}, {**base, FLAT[1]: 2, FLAT[2]: 4}, {FLAT[0]: bad}]
        ops = [("evaluate", 0, False, False, base), ("evaluate", 0, False, False, pool[1])]
        for _ in range(8):
            ops.append((rng.choice(("evaluate", "evaluate", "evaluate", "keys", "validate")), 0, False, False, rng.choice(pool)))
        out.append(dict(ftable=dict(g.ftable), env=dict(g.env), exprs=[root], ops=ops))
    return out


def run(ctx):
    n = 2000 if ctx.quick else 12000
    corpus = corpus_for(PID)
    scns = [s for _, s in corpus] + generate(ctx, n) + directed(ctx, 160 if ctx.quick else 1600)
    impls, models, mism, stats = cp.correspondence(ctx, scns, "Cases_C01")
    violations, distinct, oracle_checks, tagged = [], set(), 0, {}
    # the theorem's hypotheses, evaluated by the model on what was generated; inside them the
    # theorem's conclusion is applied to the implementation as a STRICT oracle (same value, or the
    # same failure cause and EvaluationError-ness as a fresh cache-free copy)
    flags = covered_flags(ctx, scns, "Covered_C01")
    cov = dict(ops=0, covered_ops=0, covered_histories=0, strict_checks=0, covered_with_hit=0)
    for scn, il, fl in zip(scns, impls, flags):
        cov["ops"] += len(fl)
        cov["covered_ops"] += fl.count("1")
        if fl and set(fl) == {"1"}:
            cov["covered_histories"] += 1
            for j, (op, line) in enumerate(zip(scn["ops"], il)):
                fresh = cp.fresh_eval(scn, op[1], op[4], method=op[0])
                cov["strict_checks"] += 1
                if any(t.startswith("get") and t.endswith("T") for t in cp.split(line)[1]):
                    cov["covered_with_hit"] += 1
                if cp.split(line)[0] != cp.split(fresh)[0]:
                    violations.append(dict(desc="inside the hypotheses of C01_history_transparent (computed by the model) an operation on the "
                                                "long-lived graph differs from the cache-free operation on a fresh copy",
                                           op_index=j, cached=cp.split(line)[0], uncached=cp.split(fresh)[0], finding=None,
                                           scenario_repr=cp.dump_scn(scn)))
                    break
    for scn, il, ml in zip(scns, impls, models):
        fails = transparency_failures(scn, il)
        oracle_checks += sum(1 for op in scn["ops"] if op[0] == "evaluate")
        for (j, got, want) in fails[:1]:
            upto = range(min(j + 1, len(ml)))
            dirty = any(cp.is_dirty(ml[t]) for t in upto)
            lazy = any(tok.startswith("dirtylazy") for t in upto for tok in cp.split(ml[t])[1])
            finding = None
            if dirty and cp.agrees(il, ml, scn, upto=j):
                finding = "D21" if lazy else cp.zone_of(scn)
            elif cp.agrees(il, ml, scn, upto=j) and in_zone_d24(scn, j):
                finding = "D24"
            if finding:
                tagged[finding] = tagged.get(finding, 0) + 1
            violations.append(dict(desc="an evaluation on the long-lived (cached) graph differs from the cache-free evaluation of a fresh copy",
                                   op_index=j, cached=got, uncached=want, finding=finding, scenario_repr=cp.dump_scn(scn)))
        hits = sum(1 for l in il if any(t.startswith("get") and t.endswith("T") for t in cp.split(l)[1]))
        if hits:
            distinct.add(lib.stable_hash(cp.dump_scn(scn)))
    known = []
    for fid in KNOWN:
        w = WITNESSES[fid]
        f = transparency_failures(w["scn"])
        known.append(dict(id=fid, still_fails=any(j == w["fails_at"] for j, _, _ in f), what=w["what"]))
    return {
        "evaluations": stats["ops"] + oracle_checks,
        "distinct_nontrivial": len(distinct),
        "rule": "random expression graphs (datasets with overloads/pre-set/default options/callbacks, options with defaults and templated values, "
                "apply, bind, switch, case, coalesce, collections, Map, Template, WithOptions, cached) x histories of 12 operations over a pool of "
                "adversarially perturbed dictionaries on one long-lived graph; non-trivial = the history contains at least one cache hit; distinct by "
                "hash of the scenario",
        "samples": [dict(exprs=repr(s["exprs"])[:400], first_ops=[repr(o)[:160] for o in s["ops"][:3]], observed=il[:3]) for s, il in list(zip(scns, impls))[:3]],
        "traces_validated_against_impl": stats["ops"],
        "correspondence_mismatches": mism[:5],
        "violations": violations,
        "known": known,
        "distribution": dict(stats, oracle_checks=oracle_checks, oracle_failures_tagged=tagged, scenarios=len(scns),
                             theorem_hypotheses=cov),
        "exhaustive": False,
        "assumptions": ["user code is deterministic; cyclic template references excluded; floats not generated",
                        "failure comparison is by failing/succeeding (which of several causes surfaces first legitimately differs when the fingerprint is computed first)"],
        "trusted_base": ["confectioner functions and CPython json/str/dict are modelled (Model/Base.v, Model/Template.v), validated by this correspondence run"],
    }


def replay(ctx, payload):
    scn = cp.load_scn(payload["scenario_repr"])
    il = core.run_impl(scn)
    f = transparency_failures(scn)
    ml = ctx.coq_eval("Replay_C01", cp.REQ, "", [core.coq_scenario(scn)])[0].split(" ## ")
    return bool(f) or not cp.agrees(il, ml, scn), dict(oracle_failures=f, impl=il, model=[cp.strip_ghost(x) for x in ml])
